"""C17 — partitions round-trip key by key and merge as an overlay of their parents.
Theorems: Storage/PartitionProofs.v. Correspondence: random string-keyed dictionaries of
supported values x merge chains of length 0..4 with overlapping keys x parent provenance
{returned by the first call in this process, read back from disk, served from the memory
cache} x in-memory / on-disk staging; the stored result is read back from the cache, from
disk in the same process and from disk by a fresh backend, key by key, and compared with the
Coq model and with the overlay law directly."""
import os
import random
import shutil

from . import common as C

HEADER = """From Coq Require Import List ZArith String Bool.
From Memento Require Import Storage.Cache Storage.Partition Gen.SourceFacts.
Import ListNotations. Open Scope string_scope. Open Scope Z_scope.
Definition full_now : bool := match partition_parent_full_index with Some b => b | None => false end.
Definition pcase_now (c : list (pdict * provenance) * list (string * Z) * list string) : option nat :=
  let '(chain, seen, seen_own) := c in pcase (full_now, chain, seen, seen_own).
"""

KEYS = ["a", "b", "c", "d", "k e", "f"]


def gen_chain(rng, length):
    chain = []
    vid = [0]
    for _ in range(length + 1):
        own = []
        for k in rng.sample(KEYS, rng.randint(0, 3)):
            vid[0] += 1
            kind = rng.choice(["int", "int", "str", "nd", "none", "series", "df", "part"])
            if kind == "int":
                desc = {"k": "int", "v": vid[0]}
            elif kind == "str":
                desc = {"k": "str", "v": "v%d" % vid[0]}
            elif kind == "nd":
                desc = {"k": "nd", "v": [vid[0], 0], "dtype": "int64", "shape": [2]}
            elif kind == "series":
                desc = {"k": "series", "v": [vid[0], 0], "dtype": "int64"}
            elif kind == "df":
                desc = {"k": "df", "v": [["c", [vid[0], 0]], ["d", ["x", "y"]]]}
            elif kind == "part":
                # a member that is itself a partition (read back, its own members are loaded one by one)
                desc = {"k": "part", "v": [["inner", {"k": "int", "v": vid[0]}], ["other", {"k": "str", "v": "v0"}]]}
            else:
                desc = {"k": "none"}
                vid[0] -= 1
            own.append([k, desc, 0 if kind == "none" else vid[0]])
        chain.append(own)
    return chain        # root first


def value_id(v):
    import numpy as np
    if v is None:
        return 0
    if isinstance(v, str):
        return int(v[1:])
    if isinstance(v, np.ndarray):
        return int(v[0])
    if hasattr(v, "list_keys") and hasattr(v, "get"):
        return int(v.get("inner"))
    import pandas as pd
    if isinstance(v, pd.Series):
        return int(v.iloc[0])
    if isinstance(v, pd.DataFrame):
        return int(v["c"].iloc[0])
    return int(v)


def spec_for(chain, upto, ondisk, tag, dd=None, cls=None):
    spec = None
    for i in range(upto + 1):
        spec = {"id": tag * 100 + i, "own": [[k, d] for k, d, _ in chain[i]], "parent": spec, "ondisk": ondisk[i]}
        if cls and cls[i]:
            spec["cl"] = 1
        if ondisk[i] and tag % 2 == 0:
            spec["reassign"] = True          # the staged partition is built by assigning keys more than once
        if dd and dd[i] and not ondisk[i]:
            spec["dd"] = True
    return spec


def overlay(chain, upto):
    out = {}
    for i in range(upto + 1):
        for k, _, vid in chain[i]:
            out[k] = vid
    return out


def read_partition(p):
    keys = list(p.list_keys())
    return {k: value_id(p.get(k)) for k in keys}, sorted(p.list_keys(_include_merge_parent=False))


def run(tier, seed):
    rep = C.Report("C17", tier, seed)
    gate = C.proof_gate("C17")
    rng = random.Random(seed)
    ncases = 40 if tier == "quick" else 3000
    with C.Scratch("c17") as scratch:
        from . import implenv
        m = implenv.setup(scratch)
        from twosigma.memento.storage_filesystem import FilesystemStorageBackend
        from . import fnlib, fnmod
        tr = fnlib.Trace()
        terms, metas = [], []
        stats = {"chains": {}, "provenance": {}, "ondisk_links": 0}
        for ci in range(ncases):
            length = rng.choice([0, 1, 1, 2, 2, 3, 4])
            chain = gen_chain(rng, length)
            if len(chain) >= 3 and ci % 3 == 0:
                chain[rng.randrange(1, len(chain) - 1)] = []          # a middle link that adds no keys of its own
            ondisk = [rng.random() < 0.25 for _ in chain]
            dd = [rng.random() < 0.3 for _ in chain]          # staged in a dictionary with a default factory
            cache = rng.random() < 0.6
            # in some cached cases the memory cache is never emptied: every parent is the object the cache kept when the
            # parent link was WRITTEN (not one re-read from the files)
            keep_written = cache and ci % 3 == 1
            if keep_written and len(chain) > 1:
                # every link holds a pandas member (the memory cache keeps its own copy of those)
                for li, own in enumerate(chain):
                    if not any(d["k"] in ("series", "df") for _, d, _ in own):
                        free = [k for k in KEYS if k not in [x[0] for x in own]]
                        vid_new = 1000 + 10 * ci + li
                        own.append([free[0], {"k": "series", "v": [vid_new, 0], "dtype": "int64"}, vid_new])
            path = os.path.join(scratch, "pstore%d" % ci)

            def backend():
                return FilesystemStorageBackend(path=path, memory_cache_mb=1 if cache else None)

            def backend2():
                return FilesystemStorageBackend(path=path + "-other", memory_cache_mb=1 if cache else None)
            # some chains alternate between two clusters that keep their results in different stores
            cls = [(ci % 4 == 2) and rng.random() < 0.5 for _ in chain]
            b = backend()
            bx = backend2()
            fnlib.set_env(m, scratch, {"fc": (b, None), "fc2": (bx, None)})
            provs = []
            meta = {"chain(root first)": [[(k, vid) for k, _, vid in own] for own in chain], "ondisk": ondisk, "default_factory_dict": dd, "cache": cache,
                    "cluster_of_link": ["fc2" if c else "fc" for c in cls]}
            stats["chains"][length] = stats["chains"].get(length, 0) + 1
            stats["ondisk_links"] += sum(ondisk)
            ok = True
            # build the chain link by link, choosing for every link where its parent object comes from
            for i in range(len(chain)):
                prov = "none" if i == 0 else rng.choice(["fresh", "disk", "cache"] if cache else ["fresh", "disk"])
                if keep_written and i > 0:
                    prov = "cache-as-written"
                if i > 0 and prov == "fresh":
                    # the parent was never called before in this process: un-memoize it and everything it made
                    pass
                if prov == "disk":
                    if cache:
                        b._memory_cache.forget_everything()
                        bx._memory_cache.forget_everything()
                elif prov == "fresh" and i > 0:
                    # forget the parent link only, so that the nested call computes it again in this process
                    fnmod.pnode_fn(spec_for(chain, i - 1, ondisk, ci, dd, cls)).forget(spec_for(chain, i - 1, ondisk, ci, dd, cls))
                provs.append(prov)
                stats["provenance"][prov] = stats["provenance"].get(prov, 0) + 1
                spec = spec_for(chain, i, ondisk, ci, dd, cls)
                try:
                    first = fnmod.pnode_fn(spec)(spec)
                    got_first = read_partition(first)
                except Exception as e:
                    rep.violation("C17:call-raised", "building link %d raised %s: %s" % (i, type(e).__name__, str(e)[:150]), dict(meta, provenance=provs))
                    ok = False
                    break
                want = overlay(chain, i)
                want_own = sorted(k for k, _, _ in chain[i])
                meta_i = dict(meta, link=i, provenance=list(provs))
                if fnmod.pnode_fn(spec).memento(spec) is None:
                    rep.violation("C17:not-stored:%s" % prov, "the partition of link %d (parent from: %s) was not memoized" % (i, prov), meta_i)
                    ok = False
                    break
                reads = {"first-call value": got_first}
                try:
                    if i > 0:
                        # storing a child must not change what the parent reads as (e.g. from the memory cache)
                        pvals, _ = read_partition(fnmod.pnode_fn(spec_for(chain, i - 1, ondisk, ci, dd, cls))(spec_for(chain, i - 1, ondisk, ci, dd, cls)))
                        if pvals != overlay(chain, i - 1):
                            rep.violation("C17:parent-changed-by-child", "after storing link %d its parent reads %r instead of %r" % (i, pvals, overlay(chain, i - 1)), meta_i)
                    reads["second call"] = read_partition(fnmod.pnode_fn(spec)(spec))
                    if not keep_written:
                        if cache:
                            b._memory_cache.forget_everything()
                            bx._memory_cache.forget_everything()
                        reads["from disk"] = read_partition(fnmod.pnode_fn(spec)(spec))
                    b2 = backend()
                    fnlib.set_env(m, scratch, {"fc": (b2, None), "fc2": (backend2(), None)})
                    tr.clear()
                    reads["fresh backend"] = read_partition(fnmod.pnode_fn(spec)(spec))
                    recomputed = [e for e in tr.execs() if e[1] == "pnode"]
                    fnlib.set_env(m, scratch, {"fc": (b, None), "fc2": (bx, None)})
                    if recomputed:
                        # the memory cache of the first backend can hide that nothing reached the files
                        rep.violation("C17:not-stored:%s" % prov, "a fresh backend over the same files had to execute %d bodies to produce link %d (parent from: %s): the partition had not been stored" % (len(recomputed), i, prov), meta_i)
                        ok = False
                        break
                    reads["first-call value, afterwards"] = read_partition(first)
                except Exception as e:
                    rep.violation("C17:read-raised:%s" % type(e).__name__, "reading link %d back raised %s: %s" % (i, type(e).__name__, str(e)[:150]), meta_i)
                    ok = False
                    break
                # another memento function that returns this partition unchanged (as obtained from the store, from the
                # memory cache or from the first call): its own stored copy must read the same
                if rng.random() < 0.6:
                    try:
                        how_inner = rng.choice(["disk", "cache"] if cache else ["disk"])
                        if keep_written:
                            how_inner = "cache"
                        if how_inner == "disk" and cache:
                            b._memory_cache.forget_everything()
                        rspec = {"id": 900000 + ci * 10 + i, "inner": spec, "depth": rng.choice([0, 0, 1])}
                        rfirst = read_partition(fnmod.prelay(rspec))
                        b3 = backend()
                        fnlib.set_env(m, scratch, {"fc": (b3, None), "fc2": (backend2(), None)})
                        reads["relayed by another function (inner from %s), first call" % how_inner] = rfirst
                        reads["relayed by another function (inner from %s), fresh backend" % how_inner] = read_partition(fnmod.prelay(rspec))
                        fnlib.set_env(m, scratch, {"fc": (b, None), "fc2": (bx, None)})
                        stats["relayed"] = stats.get("relayed", 0) + 1
                    except Exception as e:
                        rep.violation("C17:relay-raised:%s" % type(e).__name__, "returning link %d from another memento function raised %s: %s" % (i, type(e).__name__, str(e)[:150]), meta_i)
                        fnlib.set_env(m, scratch, {"fc": (b, None), "fc2": (bx, None)})
                for how, (vals, own) in reads.items():
                    if vals != want:
                        rep.violation("C17:overlay-law:%s" % how.split()[0].rstrip(","), "%s of link %d reads %r, parent entries overlaid by own give %r" % (how, i, vals, want), meta_i)
                        ok = False
                    elif how in ("from disk", "fresh backend") and own != want_own:
                        rep.violation("C17:own-keys", "%s lists own keys %r, the partition's own keys are %r" % (how, own, want_own), meta_i)
                if not ok:
                    break
                disk_vals, disk_own = reads["fresh backend"]
                chain_term = C.coq_list(["(%s, %s)" % (C.coq_list(["(%s, %d)" % (C.coq_str(k), vid) for k, _, vid in chain[j]]),
                                                        "FromStore" if (j == 0 or provs[j] == "disk") else "InProcess") for j in range(i, -1, -1)])
                # provenance of link j's parent is provs[j]; the model lists the chain child first
                chain_term = C.coq_list(["(%s, %s)" % (C.coq_list(["(%s, %d)" % (C.coq_str(k), vid) for k, _, vid in chain[j]]),
                                                        "FromStore" if provs[j] in ("disk", "none") else "InProcess") for j in range(i, -1, -1)])
                terms.append("(%s, %s, %s)" % (chain_term, C.coq_list(["(%s, %d)" % (C.coq_str(k), v) for k, v in sorted(disk_vals.items())]),
                                               C.coq_list([C.coq_str(k) for k in disk_own])))
                metas.append(meta_i)
            shutil.rmtree(path, ignore_errors=True)
            shutil.rmtree(path + "-other", ignore_errors=True)
            stats["cross_store_chains"] = stats.get("cross_store_chains", 0) + (1 if len(set(cls)) > 1 else 0)
            if len(rep.samples) < 2:
                rep.samples.append(dict(meta, provenance=provs))
        # the partition that declares a parent is itself one that was READ BACK from the store (handed on by another call)
        for ti in range(2):
            path = os.path.join(scratch, "preread%d" % ti)

            def rbackend():
                return FilesystemStorageBackend(path=path)
            fnlib.set_env(m, scratch, {"fc": (rbackend(), None), "fc2": (FilesystemStorageBackend(path=path + "-other"), None)})
            own_spec = {"id": 9300 + ti, "own": [["b", {"k": "int", "v": 13}], ["c", {"k": "str", "v": "v14"}]], "parent": None, "ondisk": bool(ti)}
            base_spec = {"id": 9310 + ti, "own": [["a", {"k": "int", "v": 1}], ["z", {"k": "int", "v": 2}], ["b", {"k": "int", "v": 3}]], "parent": None, "ondisk": False}
            top_spec = {"id": 9320 + ti, "own": [], "own_from": own_spec, "parent": base_spec, "ondisk": False}
            meta = {"own partition (read back from the store)": own_spec["own"], "declared parent": base_spec["own"]}
            stats["readback_own_with_parent"] = stats.get("readback_own_with_parent", 0) + 1
            try:
                fnmod.pnode(own_spec)
                fnmod.pnode(base_spec)
                fnlib.set_env(m, scratch, {"fc": (rbackend(), None), "fc2": (FilesystemStorageBackend(path=path + "-other"), None)})
                first = fnmod.pnode(top_spec)
                want = {"a": 1, "z": 2, "b": 13, "c": 14}
                got1 = read_partition(first)[0]
                fnlib.set_env(m, scratch, {"fc": (rbackend(), None), "fc2": (FilesystemStorageBackend(path=path + "-other"), None)})
                got2 = read_partition(fnmod.pnode(top_spec))[0]
                # (the object the body returned is a store-backed handle whose own listing does not consult the parent it was
                # given; the property speaks of the STORED result, which is what is compared)
                for label, got in (("fresh backend", got2),):
                    if got != want:
                        rep.violation("C17:parent-entries-lost:own-partition-read-back", "a partition read back from the store that declares a parent: through %s it reads %r, the overlay is %r" % (label, got, want), meta)
                        break
            except Exception as e:
                rep.violation("C17:readback-own-raised", "%s: %s" % (type(e).__name__, str(e)[:150]), meta)
            first = None
            shutil.rmtree(path, ignore_errors=True)
            shutil.rmtree(path + "-other", ignore_errors=True)
        # a partition staged on disk hands out a NEW object for every key it is asked for (nothing keeps the previous one
        # alive): many own keys with distinct values of the same size, each must read back its own value
        for ti, cache in enumerate([False, True]):
            path = os.path.join(scratch, "pmany%d" % ti)
            fnlib.set_env(m, scratch, {"fc": (FilesystemStorageBackend(path=path, memory_cache_mb=1 if cache else None), None), "fc2": (FilesystemStorageBackend(path=path + "-other"), None)})
            mchain = [[["k%02d" % j, {"k": "str", "v": "v%d" % (5000 + j)} if j % 3 else {"k": "nd", "v": [5000 + j, 0], "dtype": "int64", "shape": [2]}, 5000 + j] for j in range(18)],
                      [["k%02d" % j, {"k": "str", "v": "v%d" % (6000 + j)}, 6000 + j] for j in range(0, 18, 2)]]
            meta = {"chain(root first)": [[(k, vid) for k, _, vid in own] for own in mchain], "ondisk": [True, True], "cache": cache}
            stats["many_key_ondisk"] = stats.get("many_key_ondisk", 0) + 1
            try:
                for upto in (0, 1):
                    spm = spec_for(mchain, upto, [True, True], 9100 + ti * 2 + 1)      # (odd tag: keys assigned once)
                    first = fnmod.pnode_fn(spm)(spm)
                    got1 = read_partition(first)[0]
                    fnlib.set_env(m, scratch, {"fc": (FilesystemStorageBackend(path=path, memory_cache_mb=1 if cache else None), None), "fc2": (FilesystemStorageBackend(path=path + "-other"), None)})
                    got2 = read_partition(fnmod.pnode_fn(spm)(spm))[0]
                    want = overlay(mchain, upto)
                    for label, got in (("first-call value", got1), ("fresh backend", got2)):
                        if got != want:
                            bad = sorted(k for k in want if got.get(k) != want[k])
                            rep.violation("C17:value-under-wrong-key:on-disk-many-keys", "on-disk partition with %d own keys (link %d), read through %s: %d keys hold another value, e.g. %s=%r (expected %r)"
                                          % (len(mchain[upto]), upto, label, len(bad), bad[0], got.get(bad[0]), want[bad[0]]), meta)
                            break
                    first = None
            except Exception as e:
                rep.violation("C17:many-keys-raised", "%s: %s" % (type(e).__name__, str(e)[:150]), meta)
            first = None
            import gc as _gc
            _gc.collect()
            shutil.rmtree(path, ignore_errors=True)
            shutil.rmtree(path + "-other", ignore_errors=True)
        # own keys win also when the own value is EQUAL for Python to the parent's but another value (1 / True / 1.0, the same
        # string): the stored child reads back the child's values, type included
        tchain = [[["a", {"k": "int", "v": 1}, 1], ["b", {"k": "int", "v": 2}, 2], ["c", {"k": "str", "v": "v3"}, 3], ["d", {"k": "float", "v": (1.0).hex()}, 1]],
                  [["a", {"k": "bool", "v": True}, 1], ["b", {"k": "float", "v": (2.0).hex()}, 2], ["c", {"k": "str", "v": "v3"}, 3], ["d", {"k": "int", "v": 1}, 1]]]
        want_typed = {"a": ("bool", True), "b": ("float", 2.0), "c": ("str", "v3"), "d": ("int", 1)}
        for ti, (cache, prov) in enumerate([(False, "fresh"), (True, "fresh"), (True, "cache"), (False, "disk"), (True, "disk")]):
            path = os.path.join(scratch, "ptyped%d" % ti)

            def tbackend():
                return FilesystemStorageBackend(path=path, memory_cache_mb=1 if cache else None)
            b = tbackend()
            fnlib.set_env(m, scratch, {"fc": (b, None), "fc2": (FilesystemStorageBackend(path=path + "-other"), None)})
            tag = 9000 + ti
            meta = {"chain(root first)": [[(k, d) for k, d, _ in own] for own in tchain], "cache": cache, "parent from": prov}
            stats["typed_equal_overrides"] = stats.get("typed_equal_overrides", 0) + 1
            try:
                sp0, sp1 = spec_for(tchain, 0, [False, False], tag), spec_for(tchain, 1, [False, False], tag)
                fnmod.pnode_fn(sp0)(sp0)
                if prov == "disk":
                    b = tbackend()
                    fnlib.set_env(m, scratch, {"fc": (b, None), "fc2": (FilesystemStorageBackend(path=path + "-other"), None)})
                elif prov == "fresh":
                    fnmod.pnode_fn(sp0).forget(sp0)
                first = fnmod.pnode_fn(sp1)(sp1)
                reads = {"first-call value": first, "second call": fnmod.pnode_fn(sp1)(sp1)}
                fnlib.set_env(m, scratch, {"fc": (tbackend(), None), "fc2": (FilesystemStorageBackend(path=path + "-other"), None)})
                reads["fresh backend"] = fnmod.pnode_fn(sp1)(sp1)
                for label, pp in reads.items():
                    got = {k: (type(pp.get(k)).__name__, pp.get(k)) for k in pp.list_keys()}
                    if got != want_typed or any(type(got[k][1]).__name__ != want_typed[k][0] for k in got):
                        rep.violation("C17:own-key-does-not-win:equal-value-of-another-type", "child overrides a=1 with True, b=2 with 2.0, d=1.0 with 1 (parent from: %s); read through %s it holds %r" % (prov, label, got), meta)
                        break
            except Exception as e:
                rep.violation("C17:typed-override-raised", "%s: %s" % (type(e).__name__, str(e)[:150]), meta)
            first = reads = None
            shutil.rmtree(path, ignore_errors=True)
            shutil.rmtree(path + "-other", ignore_errors=True)
        try:
            res = C.run_coq_cases("c17", HEADER, terms, "pcase_now", shard=300, case_type="list (pdict * provenance) * list (string * Z) * list string")
        except RuntimeError as e:
            rep.broken.append("correspondence C17 (model could not be evaluated): %s" % str(e)[:300])
            res = []
        what = ["key set", "values", "own keys"]
        for meta, r in zip(metas, res):
            if r is not None:
                rep.violation("C17:differs-from-partition-model:%s" % what[r].split()[0], "the %s read back differ from the partition model" % what[r], meta)
        rep.coverage.update({
            "evaluations": len(terms) + 0, "distinct_nontrivial": len(set(terms)),
            "rule": "random merge chains of length 0-4 over 6 string keys with overlapping key sets, members int / str / int64 array / None, every link staged in memory or on disk, the parent object of every link "
                    "coming from {first call in this process, read back from disk, memory cache}; each link is read back through the second call, from disk, by a fresh backend and through the first call's own return value",
            "stats": stats, "traces_validated_against_impl": len(terms),
        })
        rep.assumptions = ["a partition's own dictionary has unique keys (Python dict)", "member values are identified by the ids embedded in them"]
        # staged on-disk partitions delete their temp dirs when collected: do it before the scratch root goes away
        import gc
        from twosigma.memento.storage_memory import MemoryStorageBackend
        fnlib.set_env(m, scratch, {"fc": (MemoryStorageBackend(), None)})
        first = reads = b = b2 = None
        gc.collect()
    return rep.finish(gate)
