"""C06 — memory cache bounded / LRU / honest accounts.
Correspondence: random and probing histories on the real MemoryCache vs the Coq model
(Storage/Cache.v), compared after every operation inside Coq; plus direct checks of the
property's own observables on the implementation."""
import gc
import os
import shutil
import random
import struct
import sys

from . import common as C

KEY_FNS = ["f#1", "f#10", "f1#1", "g#1", "p#1"]
N_ARGS = 3


class Impl:
    """Drives twosigma.memento.storage_base.MemoryCache; records one observation per op."""

    def __init__(self, m, budget):
        import datetime
        from twosigma.memento.storage_base import MemoryCache
        from twosigma.memento.reference import FunctionReference, FunctionReferenceWithArguments, \
            FunctionReferenceWithArgHash
        from twosigma.memento.metadata import Memento, InvocationMetadata, ResultType
        from twosigma.memento.types import VersionedDataSourceKey
        from . import vmod
        self.m = m
        self.budget = budget
        self.cache = MemoryCache(budget / (1024.0 * 1024.0))
        assert self.cache.memory_cache_bytes == budget
        self.FRH = FunctionReferenceWithArgHash
        self.FRA = FunctionReferenceWithArguments
        self.Memento, self.IM, self.RT, self.VK = Memento, InvocationMetadata, ResultType, VersionedDataSourceKey
        self.dt = datetime
        base = {"f": vmod.f, "f1": vmod.f1, "g": vmod.g, "p": vmod.g}
        self.frefs = {}
        for name in KEY_FNS:
            fn, ver = name.split("#")
            if fn == "p":
                # qualified name is taken from the function object; a distinct name by version
                self.frefs[name] = FunctionReference(base[fn], cluster_name="vc", version="p" + ver)
            else:
                self.frefs[name] = FunctionReference(base[fn], cluster_name="vc", version=ver)
        self.fra = {}
        self.alive = {}
        self.size_of_put = {}     # model key -> size of the latest fitting put (direct accounting check)
        self.estimator = getattr(MemoryCache, "_estimate_object_size", None)

    # --- keys
    def qn(self, fname):
        return self.frefs[fname].qualified_name

    def key(self, fname, arg):
        fra = self._fra(fname, arg)
        return self.qn(fname) + "/" + fra.arg_hash[:8]

    def _fra(self, fname, arg):
        k = (fname, arg)
        if k not in self.fra:
            self.fra[k] = self.FRA(self.frefs[fname], (arg,), {})
        return self.fra[k]

    def model_key(self, real_key):
        i = real_key.rfind("/")
        return real_key[:i] + "/" + real_key[i + 1:i + 9]

    def memento(self, fname, arg, mid):
        return self.Memento(
            time=self.dt.datetime(2020, 1, 1, tzinfo=self.dt.timezone.utc),
            invocation_metadata=self.IM(runtime=self.dt.timedelta(seconds=1.0),
                                        fn_reference_with_args=self._fra(fname, arg),
                                        result_type=self.RT.binary, invocations=[], resources=[]),
            function_dependencies={self.frefs[fname]}, runner={}, correlation_id=str(mid),
            content_key=self.VK("key", "v"))

    # --- values
    def make_value(self, kind, vid, n):
        import numpy as np
        tag = struct.pack("<q", vid)
        if kind == "b":
            v = tag + b"x" * max(0, n - 8)
        elif kind == "n":
            v = np.frombuffer(tag + b"\0" * max(0, n - 8), dtype=np.uint8).copy()
        elif kind == "d":
            import pandas as pd
            v = pd.DataFrame({"a": [vid] + [0] * max(0, n)})
        else:
            raise ValueError(kind)
        self.alive[vid] = v
        return v

    @staticmethod
    def value_id(v):
        import numpy as np
        if isinstance(v, bytes):
            return struct.unpack("<q", v[:8])[0]
        if isinstance(v, np.ndarray):
            return struct.unpack("<q", v[:8].tobytes())[0]
        return int(v["a"].iloc[0])

    def size(self, v):
        if self.estimator is not None:
            return int(self.estimator(v))
        return sys.getsizeof(v)

    def observe(self):
        c = self.cache
        return int(c.memory_usage), [self.model_key(k) for k in c.cache.keys()]

    # --- one operation; returns (model_op_term, out_term, usage, resident, info)
    def apply(self, op):
        c = self.cache
        kind = op[0]
        info = {}
        if kind == "put":
            _, fname, arg, mid, vkind, vid, n, has = op
            k = self.key(fname, arg)
            mem = self.memento(fname, arg, mid)
            if has:
                v = self.make_value(vkind, vid, n)
                sz = self.size(v)
                wr = {"n": "Weak", "d": "WeakCopy", "b": "NoWeak"}[vkind]
            else:
                v, sz, wr, vid = None, self.size(None), "NoWeak", 0
            c.put(mem, v, has_result=has)
            del v
            term = "Put %s %d %d %s %s %s" % (C.coq_str(k), mid, vid, C.coq_z(sz), C.coq_bool(has), wr)
            out = "ONone"
            info = {"size": sz, "oversize": sz > self.budget, "key": k}
            if sz <= self.budget:
                self.size_of_put[k] = sz
            op[:] = list(op)
        elif kind == "read":
            _, fname, arg = op
            k = self.key(fname, arg)
            try:
                v = c.read_result(self.memento(fname, arg, 0))
                out = "OVal %d" % self.value_id(v)
                del v
            except KeyError:
                out = "OKeyError"
            term = "Read %s" % C.coq_str(k)
        elif kind == "ismem":
            _, fname, arg = op
            k = self.key(fname, arg)
            out = "OBool %s" % C.coq_bool(bool(c.is_memoized(self.frefs[fname], self._fra(fname, arg).arg_hash)))
            term = "IsMem %s" % C.coq_str(k)
        elif kind == "getm":
            _, fname, arg = op
            k = self.key(fname, arg)
            r = c.get_mementos([self.FRH(self.frefs[fname], self._fra(fname, arg).arg_hash)])[0]
            out = "OMem None" if r is None else "OMem (Some %s)" % r.correlation_id
            term = "GetM %s" % C.coq_str(k)
        elif kind == "fcall":
            _, fname, arg = op
            k = self.key(fname, arg)
            c.forget_call(self.FRH(self.frefs[fname], self._fra(fname, arg).arg_hash))
            out, term = "ONone", "ForgetCall %s" % C.coq_str(k)
        elif kind == "ffn":
            _, fname = op
            c.forget_function(self.frefs[fname])
            out, term = "ONone", "ForgetFn %s" % C.coq_str(self.qn(fname))
        elif kind == "fall":
            c.forget_everything()
            out, term = "ONone", "ForgetAll"
        elif kind == "gc":
            self.alive.clear()
            gc.collect()
            out, term = "ONone", "GcAll"
        else:
            raise ValueError(op)
        usage, resident = self.observe()
        return term, out, usage, resident, info


def step_term(term, out, usage, resident):
    return "(%s, (%s, %s, %s))" % (term, out, C.coq_z(usage), C.coq_list([C.coq_str(k) for k in resident]))


HEADER = """From Coq Require Import List ZArith String Bool.
From Memento Require Import Storage.Cache Gen.SourceFacts.
Import ListNotations. Open Scope Z_scope. Open Scope string_scope.
Definition ob (o : option bool) := match o with Some b => b | None => false end.
Definition ef := {| p_evict_first := ob put_evicts_first; p_clear_ref := ob put_clears_ref |}.
"""


def gen_history(rng, budget, length, ids):
    """random, mostly-valid operation specs (sizes by class)"""
    ops = []
    fns = KEY_FNS[:4]

    def size_class():
        r = rng.random()
        if r < 0.35:
            return rng.randint(8, 120)                    # tiny
        if r < 0.6:
            return rng.randint(budget // 4, budget // 2)  # quarter..half
        if r < 0.72:
            return budget - 33                            # bytes: exact fit (33 = bytes header)
        if r < 0.8:
            return budget - 33 - rng.randint(1, 40)       # just under
        if r < 0.92:
            return budget - 33 + rng.randint(1, 60)       # oversize
        return rng.randint(budget // 2, budget)           # more than half
    for _ in range(length):
        r = rng.random()
        fname, arg = rng.choice(fns), rng.randrange(N_ARGS)
        if r < 0.36:
            ids[0] += 1
            vk = rng.choice("bbbn" if rng.random() < 0.97 else "d")
            n = size_class()
            if vk == "d":
                n = rng.randint(0, 20)
            ops.append(["put", fname, arg, ids[0], vk, ids[0], n, True])
        elif r < 0.43:
            ids[0] += 1
            ops.append(["put", fname, arg, ids[0], "b", 0, 0, False])
        elif r < 0.63:
            ops.append(["read", fname, arg])
        elif r < 0.73:
            ops.append(["ismem", fname, arg])
        elif r < 0.78:
            ops.append(["getm", fname, arg])
        elif r < 0.86:
            ops.append(["fcall", fname, arg])
        elif r < 0.92:
            ops.append(["ffn", fname])
        elif r < 0.94:
            ops.append(["fall"])
        else:
            ops.append(["gc"])
    return ops


def run_history(m, budget, ops, probe=True, ids=None):
    """returns (steps, stats, direct_violations) ; appends probe ops to [ops] when probe=True"""
    imp = Impl(m, budget)
    steps, stats, bad = [], {"evictions": 0, "oversize": 0, "reput_resident": 0, "hits": 0, "miss": 0,
                             "ops": {}}, []
    prev_res = []

    def do(op):
        nonlocal prev_res
        before = set(prev_res)
        term, out, usage, resident, info = imp.apply(op)
        steps.append((term, out, usage, resident))
        stats["ops"][op[0]] = stats["ops"].get(op[0], 0) + 1
        if op[0] == "put":
            if info["oversize"]:
                stats["oversize"] += 1
            if info["key"] in before:
                stats["reput_resident"] += 1
            gone = before - set(resident) - {info["key"]}
            stats["evictions"] += len(gone)
        if op[0] == "read":
            stats["hits" if out != "OKeyError" else "miss"] += 1
        # direct checks of the property's observables
        i = len(steps) - 1
        if usage > budget:
            bad.append(("usage-exceeds-budget", i, "memory_usage %d > budget %d" % (usage, budget)))
        expected = sum(imp.size_of_put.get(k, 0) for k in resident)
        if usage != expected and all(k in imp.size_of_put for k in resident):
            bad.append(("usage-not-sum-of-residents", i, "memory_usage %d but residents account for %d" % (usage, expected)))
        if op[0] == "put" and info["oversize"] and info["key"] in resident:
            bad.append(("oversize-key-resident", i, "key still resident after an oversize put"))
        if op[0] == "fall" and usage != 0:
            bad.append(("usage-nonzero-after-forget-everything", i, "memory_usage %d" % usage))
        if not resident and usage != 0:
            bad.append(("usage-nonzero-when-empty", i, "memory_usage %d with nothing resident" % usage))
        prev_res = resident
        return usage, resident

    for op in ops:
        do(op)
    if probe:
        # probe suffix: force one eviction at a time with fresh keys; the order in which the old
        # keys leave the resident set is the recency order (no internal attribute is read)
        usage, resident = imp.observe()
        old = set(resident)
        n = 0
        while old & set(resident) and n < 30:
            n += 1
            ids[0] += 1
            need = budget - usage + 1            # smallest size that does not fit as is
            need = max(need, 41)
            if need > budget:
                break
            op = ["put", "p#1", n, ids[0], "b", ids[0], need - 33, True]
            ops.append(op)
            usage, resident = do(op)
        # then forget everything by a mixed sequence and require zero
        usage, resident = imp.observe()
        fnames = sorted({k.split("/")[0] for k in resident})
        inv = {imp.qn(f): f for f in KEY_FNS}
        for qn in fnames:
            op = ["ffn", inv[qn]]
            ops.append(op)
            usage, resident = do(op)
        if usage != 0 or resident:
            bad.append(("usage-nonzero-after-forgetting-all", len(steps) - 1,
                        "after forgetting every function usage=%d resident=%r" % (usage, resident)))
    return steps, stats, bad


def case_term(budget, steps):
    return "(%s, %s)" % (C.coq_z(budget), C.coq_list([step_term(*s) for s in steps]))


def shrink(m, budget, ops, rep_note):
    """greedy one-op-removal shrinking of a history whose trace disagrees with the model"""
    cur = [list(o) for o in ops]

    def disagree(cands):
        terms = []
        for c in cands:
            steps, _, bad = run_history(m, budget, [list(o) for o in c], probe=False)
            terms.append(case_term(budget, steps))
        return C.run_coq_cases("c06shrink", HEADER, terms, "check_case ef", case_type="Z * list rec_step")
    for _ in range(12):
        cands = [cur[:i] + cur[i + 1:] for i in range(len(cur))]
        if not cands:
            break
        res = disagree(cands)
        hit = [i for i, r in enumerate(res) if r is not None]
        if not hit:
            break
        cur = cands[hit[0]]
        # cut after the first differing step
        cur = cur[:res[hit[0]] + 1]
    return cur


def run(tier, seed):
    rep = C.Report("C06", tier, seed)
    gate = C.proof_gate("C06")
    with C.Scratch("c06") as scratch:
        from . import implenv
        m = implenv.setup(scratch)
        rng = random.Random(seed)
        n_hist, length = (120, 40) if tier == "quick" else (1500, 80)
        budgets = [4096, 4096, 2048, 8192, 1000]
        ids = [0]
        cases, metas = [], []
        agg = {"evictions": 0, "oversize": 0, "reput_resident": 0, "hits": 0, "miss": 0, "ops": {}}
        nontrivial = set()
        corpus = load_corpus()
        for ci, item in enumerate(corpus + [None] * n_hist):
            if item is not None:
                budget, ops = item["budget"], [list(o) for o in item["ops"]]
                ids[0] = max([ids[0]] + [o[3] for o in ops if o[0] == "put"])
                steps, stats, bad = run_history(m, budget, ops, probe=False)
            else:
                budget = rng.choice(budgets)
                ops = gen_history(rng, budget, rng.randint(5, length), ids)
                steps, stats, bad = run_history(m, budget, ops, probe=True, ids=ids)
            for k in agg:
                if k == "ops":
                    for o, c in stats["ops"].items():
                        agg["ops"][o] = agg["ops"].get(o, 0) + c
                else:
                    agg[k] += stats[k]
            if stats["evictions"] > 0:
                nontrivial.add(hash(tuple(s[0] for s in steps)))
            for sig, i, what in bad:
                rep.violation("C06:" + sig, what, {"budget": budget, "ops": ops, "step": i,
                                                  "trace": [list(s) for s in steps[:i + 1]]})
            cases.append(case_term(budget, steps))
            metas.append((budget, ops, steps))
            if len(rep.samples) < 3 and stats["evictions"] > 0:
                rep.samples.append({"budget": budget, "ops": ops[:12], "evictions": stats["evictions"]})
        # the same invariants through a storage backend: single calls, batches with repeated elements, warm store with a
        # cold cache (backend re-opened), forgetting; after every step the cache's accounts must be honest and every resident
        # entry listed exactly once in the LRU list (the invariant of the model, theorem C06_invariant)
        from . import fnlib, fnmod
        from twosigma.memento.storage_filesystem import FilesystemStorageBackend
        agg["backend_level_steps"] = 0
        for bi in range(8 if tier == "quick" else 120):
            path = os.path.join(scratch, "bb%d" % bi)
            budget_mb = rng.choice([2048, 4096, 20000]) / (1024.0 * 1024.0)

            def mkb():
                bk = FilesystemStorageBackend(path=path, memory_cache_mb=budget_mb)
                fnlib.set_env(m, scratch, {"fc": (bk, None)})
                return bk
            bk = mkb()
            specs = [{"id": 600000 + bi * 100 + k, "ret": {"k": "bytes", "v": "ab" * rng.choice([100, 300, 700, 1500])}} for k in range(5)]
            hist = []
            for si in range(rng.randint(4, 14)):
                kind = rng.choice(["call", "batch", "batch", "reopen", "forget"])
                try:
                    if kind == "call":
                        k = rng.randrange(5)
                        hist.append(["call", k])
                        fnmod.n0(specs[k])
                    elif kind == "batch":
                        ks = [rng.randrange(5) for _ in range(rng.randint(2, 4))]
                        if rng.random() < 0.6:
                            ks.append(rng.choice(ks))       # a repeated element
                        hist.append(["batch", ks])
                        fnmod.n0.call_batch([{"spec": specs[k]} for k in ks])
                    elif kind == "reopen":
                        hist.append(["reopen"])
                        bk = mkb()
                    else:
                        k = rng.randrange(5)
                        hist.append(["forget", k])
                        fnmod.n0.forget(specs[k])
                except Exception as e:
                    rep.violation("C06:backend-level-step-raised", "%s: %s" % (type(e).__name__, str(e)[:150]), {"history": hist})
                    break
                agg["backend_level_steps"] += 1
                c = bk._memory_cache
                acc = sum(e.obj_size for e in c.cache.values())
                meta = {"budget_bytes": c.memory_cache_bytes, "history(call k / batch ks / reopen / forget k)": hist, "result_bytes": [len(sp["ret"]["v"]) // 2 for sp in specs],
                        "memory_usage": c.memory_usage, "resident": sorted(c.cache), "lru_list": list(c.lru_deque)}
                if c.memory_usage != acc:
                    rep.violation("C06:usage-not-sum-of-residents", "through the storage backend: memory_usage %d, resident entries account for %d" % (c.memory_usage, acc), meta)
                    break
                if c.memory_usage > c.memory_cache_bytes:
                    rep.violation("C06:usage-exceeds-budget", "through the storage backend: memory_usage %d > budget %d" % (c.memory_usage, c.memory_cache_bytes), meta)
                    break
                if sorted(c.lru_deque) != sorted(c.cache):
                    rep.violation("C06:lru-list-differs-from-resident-set", "through the storage backend: the LRU list %r does not list every resident entry exactly once" % (list(c.lru_deque),), meta)
                    break
            else:
                for sp in specs:
                    fnmod.n0.forget(sp)
                c = bk._memory_cache
                if c.memory_usage != 0 or len(c.cache) != 0 or len(c.lru_deque) != 0:
                    rep.violation("C06:usage-not-zero-after-forgetting-everything", "after forgetting every call one by one: memory_usage=%d resident=%d lru=%d" % (c.memory_usage, len(c.cache), len(c.lru_deque)),
                                  {"history": hist})
            shutil.rmtree(path, ignore_errors=True)
        try:
            results = C.run_coq_cases("c06", HEADER, cases, "check_case ef", case_type="Z * list rec_step")
        except RuntimeError as e:
            rep.broken.append("correspondence C06 (model could not be evaluated): %s" % str(e)[:500])
            results = [None] * len(cases)
        mism = [(i, r) for i, r in enumerate(results) if r is not None]
        for i, r in mism[:3]:
            budget, ops, steps = metas[i]
            small = shrink(m, budget, ops[:r + 1] if r < len(ops) else ops, None)
            ssteps, _, _ = run_history(m, budget, [list(o) for o in small], probe=False)
            model = C.coq_eval(HEADER, "final_state ef %s" % case_term(budget, ssteps))
            last = ssteps[-1] if ssteps else None
            kind = small[-1][0] if small else "?"
            rep.violation("C06:cache-differs-from-lru-model:" + kind,
                          "the cache's answers / usage / resident set differ from the verified LRU model at the last step of this history",
                          {"budget": budget, "ops": small, "implementation_last_step": last,
                           "model_final_state(usage,resident,lru)": " ".join(model.split())[-600:]})
        rep.coverage.update({
            "evaluations": len(cases), "distinct_nontrivial": len(nontrivial),
            "rule": "random histories (put value/put memento-only/read/is-memoized/get-memento/forget call,function,everything/gc) "
                    "over 4 function references (f#1,f#10,f1#1,g#1) x 3 argument hashes, sizes in classes tiny/quarter-half/exact-fit/just-under/oversize, "
                    "budgets %s, each followed by a probe suffix forcing one eviction at a time and a forget-by-function sweep; "
                    "non-trivial = history with at least one eviction; compared with the Coq model after every operation" % budgets,
            "distribution": agg, "model_mismatches": len(mism), "corpus_cases": len(corpus),
            "traces_validated_against_impl": len(cases),
        })
        rep.assumptions = ["size estimator returns non-negative sizes (hypothesis op_ok of the theorems; recorded sizes were all checked >= 0)",
                           "resident set and usage are read from MemoryCache.cache / memory_usage, the attributes the test-suite inspects",
                           "weak-reference collection is modelled by an explicit GcAll environment operation"]
    return rep.finish(gate)


def load_corpus():
    import json
    import os
    d = os.path.join(C.VERIF, "corpus", "C06")
    out = []
    if os.path.isdir(d):
        for fn in sorted(os.listdir(d)):
            if fn.endswith(".json"):
                out.append(json.load(open(os.path.join(d, fn))))
    return out
