"""Generated programs for the version properties (C01 / C03 / C13 / C14): packages of memento
functions, plain helper functions and module-level variables that refer to each other by
name (bare, through a module attribute, through an alias, with cycles), with defaults,
keyword-only defaults, set / tuple constants, nested code objects and hidden dynamic calls.
A program is a spec (plain data); [render] turns it into source files; [edit] changes the spec."""
import copy
import random
import json
import os
import subprocess

from . import common as C

CL = "vc1"


def modpath(spec, mod):
    """import path of module a / b (package spec["pkg"]) or c (a second package, spec["pkg"] + "2")"""
    return (spec["pkg"] + "2.c") if mod == "c" else (spec["pkg"] + "." + mod)


def modules_of(spec):
    return ["a", "b"] + (["c"] if any(n["module"] == "c" for n in spec["nodes"]) else [])


def gen_spec(rng, n_m=4, n_p=3, n_v=3, pkg="vpk", p_hidden=0.15, p_explicit=0.2, allow_cycles=True, n_u=1, pkg2=False, outside_helpers=False, lambdas=False, twins=False, hdr=False, vdef=False):
    nodes = []
    names = []
    unames = ["U%d" % i for i in range(n_u)]
    if n_u and rng.random() < 0.5:
        unames[-1] = rng.choice(["divmod", "format", "round"])        # a name that is a builtin until the module defines it
    for nm in unames:
        nodes.append({"name": nm, "kind": "u", "module": rng.choice("ab")})
    for i in range(n_v):
        kind = rng.choice(["int", "int", "str", "list", "dict", "float", "unsupported", "tuplist", "mixedset"])
        val = {"int": rng.randint(1, 9), "str": "s%d" % rng.randint(1, 9), "list": [rng.randint(1, 5), rng.randint(1, 5)],
               "dict": {"k": rng.randint(1, 9)}, "float": rng.choice([0.5, 1.5, 2.25]), "unsupported": None,
               "tuplist": [rng.randint(1, 9), [rng.randint(1, 5), rng.randint(1, 5)]],     # rendered as a tuple holding a list
               "mixedset": None}[kind]
        nodes.append({"name": "G%d" % i, "kind": "v", "module": rng.choice("ab"), "vkind": kind, "value": val})
    for i in range(n_p):
        nodes.append({"name": "h%d" % i, "kind": "p", "module": rng.choice("ab")})
    if lambdas:
        # two helpers written as module-level lambdas (they share the qualified name "<lambda>")
        lm = rng.choice("ab")
        for i in range(2):
            nodes.append({"name": "lam%d" % i, "kind": "p", "module": lm, "lam": True})
    for i in range(n_m):
        nodes.append({"name": "m%d" % i, "kind": "m", "module": rng.choice("ab")})
    if pkg2:
        # a second package with one module: a memento function there, its plain helper and a variable
        for n in nodes:
            if n["kind"] != "u" and not n.get("lam") and rng.random() < 0.3:
                n["module"] = "c"
        for kind, prefix in (("m", "m"), ("p", "h")):
            if not any(n["kind"] == kind and n["module"] == "c" for n in nodes):
                cands = [n for n in nodes if n["kind"] == kind and not n.get("lam")]
                if len(cands) > 1:
                    rng.choice(cands[1:] if kind == "m" else cands)["module"] = "c"
    if pkg2 and outside_helpers:
        # a plain function of the second package that only functions of the first package use directly: outside their package scope
        nodes.append({"name": "hx", "kind": "p", "module": "c", "outside": True})
    fns = [n for n in nodes if n["kind"] in "mp"]
    for n in fns:
        n["const"] = rng.randint(1, 50)
        n["default"] = rng.randint(1, 9) if rng.random() < 0.4 else None
        n["kwdefault"] = rng.randint(1, 9) if rng.random() < 0.25 else None
        n["setconst"] = sorted(rng.sample(range(1, 9), 3)) if rng.random() < 0.35 else None
        n["tupconst"] = [rng.randint(1, 5), rng.randint(1, 5)] if rng.random() < 0.35 else None
        n["sset"] = rng.sample(["0", "1", "2", "3", "4", "aa", "bcd", "e"], 4) if rng.random() < 0.35 else None
        n["nested"] = rng.randint(1, 4) if rng.random() < 0.35 else None
        n["pair"] = rng.sample(range(101, 140), 2) if rng.random() < 0.5 else None
        n["objdefault"] = rng.random() < 0.25           # a default value of a type memento cannot encode (described by its type only)
        n["explicit"] = None
        n["hidden"] = None
        n["refs"] = []
        cands = [c for c in nodes if c is not n and (c["kind"] != "u" or c["module"] == n["module"])]
        if n["module"] == "c":
            cands = [c for c in cands if c["module"] == "c" and not c.get("outside")]
        else:
            cands = [c for c in cands if not (c["module"] == "c" and c["kind"] == "p" and not c.get("outside"))]   # plain helpers are used within their package
        for c in rng.sample(cands, rng.randint(0, min(4, len(cands)))):
            if not allow_cycles and c["kind"] in "mp" and fns.index(c) >= fns.index(n):
                continue
            form = "bare"
            if c["kind"] == "u":
                form = "dead"
            elif c["module"] != n["module"]:
                form = "attr"
            elif rng.random() < 0.15 and c["kind"] in "mp":
                form = "alias"
            n["refs"].append([c["name"], form])
    for n in fns:
        if n.get("lam"):
            n["refs"] = []
            for f_ in ("default", "kwdefault", "setconst", "tupconst", "sset", "pair", "nested"):
                n[f_] = None
            n["objdefault"] = False
    lams = [n for n in fns if n.get("lam")]
    if lams:
        users = [n for n in fns if not n.get("lam") and n["module"] == lams[0]["module"]] or [n for n in fns if not n.get("lam") and n["module"] in "ab"]
        u = rng.choice(users) if users else None
        for l_ in (lams if u is not None else []):
            if l_["name"] not in [r[0] for r in u["refs"]]:
                u["refs"].append([l_["name"], "bare" if u["module"] == l_["module"] else "attr"])
    for n in fns:
        # a nested scope (lambda parameter) named like a module variable the function reads
        vrefs = [r[0] for r in n["refs"] if r[1] == "bare" and node({"nodes": nodes}, r[0])["kind"] == "v"]
        n["shadow"] = rng.choice(vrefs) if vrefs and rng.random() < 0.6 else None
    for n in fns:
        if n["kind"] == "m" and rng.random() < p_explicit:
            n["explicit"] = rng.choice(["1", "2", "12", "v1"])
        if rng.random() < p_hidden:
            ms = [c["name"] for c in nodes if c["kind"] == "m" and c is not n and (n["module"] != "c" or c["module"] == "c")]
            if ms:
                n["hidden"] = rng.choice(ms)
    # features added later draw from a generator derived from the program itself, so the caller's stream is unchanged
    r2 = random.Random(json.dumps(nodes, sort_keys=True, default=str))
    for n in fns:
        # a string literal that is the first constant of a generator expression's code object
        n["gstr"] = r2.choice(["k", "id:", "item-"]) if (not n.get("lam") and r2.random() < 0.4) else None
    if hdr:
        # a plain helper that is only named in the HEADER of its user (as the default value of a parameter)
        for n in fns:
            if n.get("lam") or n.get("outside") or r2.random() >= 0.35:
                continue
            cands = [c for c in fns if c["kind"] == "p" and c["module"] == n["module"] and not c.get("lam") and not c.get("outside")
                     and fns.index(c) < fns.index(n) and c["name"] not in [r[0] for r in n["refs"]]]
            if cands:
                n["refs"].append([r2.choice(cands)["name"], "hdr"])
    if vdef:
        # a mutable module variable used as the DEFAULT VALUE of a parameter (the function object keeps that very object)
        for n in fns:
            if n.get("lam") or n.get("outside") or r2.random() >= 0.4:
                continue
            cands = [c for c in nodes if c["kind"] == "v" and c.get("vkind") in ("list", "dict") and c["module"] == n["module"]
                     and c["name"] not in [r[0] for r in n["refs"]]]
            if cands:
                n["refs"].append([r2.choice(cands)["name"], "vdef" if r2.random() < 0.6 else "vkdef"])
    if twins:
        # two module variables with the same symbol in different modules, each read by a function of its own module,
        # both reachable from one memento function
        fa = [n for n in fns if n["module"] == "a" and not n.get("lam")]
        fb = [n for n in fns if n["module"] == "b" and not n.get("lam")]
        roots = [n for n in fns if n["kind"] == "m" and n["module"] in "ab" and n["explicit"] is None]
        if fa and fb and roots:
            root = roots[-1]
            ua, ub = r2.choice(fa), r2.choice(fb)
            if fns.index(ua) <= fns.index(root) and fns.index(ub) <= fns.index(root):
                nodes.append({"name": "T0", "kind": "v", "module": "a", "vkind": "int", "value": r2.randint(1, 9), "sym": "SCALE"})
                nodes.append({"name": "T1", "kind": "v", "module": "b", "vkind": "int", "value": r2.randint(11, 19), "sym": "SCALE"})
                ua["refs"].append(["T0", "bare"])
                ub["refs"].append(["T1", "bare"])
                for u in (ua, ub):
                    if u is not root and u["name"] not in [r[0] for r in root["refs"]]:
                        root["refs"].append([u["name"], "bare" if u["module"] == root["module"] else "attr"])
    return {"pkg": pkg, "nodes": nodes}


def node(spec, name):
    return next(n for n in spec["nodes"] if n["name"] == name)


def sym(n):
    """the symbol a node is written as in the source (two variables of different modules may share one)"""
    return n.get("sym", n["name"])


def def_lines(spec, n):
    """source lines of one function definition, and the alias assignments it needs"""
    mod = n["module"]
    out, aliases = [], []
    if n.get("lam"):
        return ["%s = lambda x: x * 3 + %d if x > 0 else %d" % (n["name"], n["const"], n["const"]), ""], []
    params = ["x"]
    if n["default"] is not None:
        params.append("d=%d" % n["default"])
    for rf in n["refs"]:
        if rf[1] == "hdr":
            params.append("kf_%s=%s" % (rf[0], sym(node(spec, rf[0]))))
        elif rf[1] == "vdef":
            params.append("vd_%s=%s" % (rf[0], sym(node(spec, rf[0]))))
    if n.get("objdefault"):
        params.append("o=_CFG")
    kwp = ["vd_%s=%s" % (rf[0], sym(node(spec, rf[0]))) for rf in n["refs"] if rf[1] == "vkdef"]       # keyword-only, default = the variable's object
    if n["kwdefault"] is not None:
        kwp.append("kd=%d" % n["kwdefault"])
    if kwp:
        params.append("*")
        params.extend(kwp)
    if n["kind"] == "m":
        args = ["cluster=%r" % CL]
        if n["explicit"] is not None:
            args.append("version=%r" % n["explicit"])
        out.append("@memento_function(%s)" % ", ".join(args))
    out.append("def %s(%s):" % (n["name"], ", ".join(params)))
    out.append("    _vt(('exec', %r, x))" % n["name"])
    out.append("    if x <= 0:")
    out.append("        return %d" % n["const"])
    out.append("    r = %d" % n["const"])
    if n["default"] is not None:
        out.append("    r += d * 7")
    if n["kwdefault"] is not None:
        out.append("    r += kd * 11")
    if n["setconst"] is not None:
        out.append("    if x in {%s}:" % ", ".join(map(str, n["setconst"])))
        out.append("        r += 13")
    if n["tupconst"] is not None:
        out.append("    r += (%d, %d)[x %% 2]" % tuple(n["tupconst"]))
    if n["nested"] is not None:
        out.append("    r += sum(v * %d for v in (1, 2))" % n["nested"])
    if n.get("gstr") is not None:
        out.append("    r += sum(len(%r + str(v)) for v in (x, 10))" % n["gstr"])
    if n.get("shadow"):
        out.append("    r += (lambda %s: %s + 1)(0)" % (sym(node(spec, n["shadow"])), sym(node(spec, n["shadow"]))))
    if n.get("pair") is not None:
        out.append("    r += x * %d + %d" % tuple(n["pair"]))
    if n.get("sset") is not None:
        out.append("    if str(x %% 5) in {%s}:" % ", ".join(repr(v) for v in n["sset"]))
        out.append("        r += 17")
    for rf in n["refs"]:
        tname, form = rf[0], rf[1]
        t = node(spec, tname)
        if form == "attr":
            ref = "%s.%s" % (t["module"], sym(t))
        elif form == "alias":
            ref = rf[2] if len(rf) > 2 else "al_%s_%s" % (n["name"], tname)
            aliases.append("%s = %s" % (ref, tname))
        elif form in ("pwrap", "lwrap"):
            # a plain helper reached through a functools wrapper object (not a function)
            ref = "%s_%s_%s" % ("pw" if form == "pwrap" else "lw", n["name"], tname)
            aliases.append("%s = %s" % (ref, ("functools.partial(%s)" if form == "pwrap" else "functools.lru_cache(maxsize=None)(%s)") % tname))
        else:
            ref = sym(t)
        if form == "hdr":
            out.append("    r += kf_%s(x - 1)" % tname)
        elif form in ("vdef", "vkdef"):
            out.append("    r += _num(vd_%s)" % tname)
        elif form == "live":
            out.append("    r += int(%s(x + 0.5))" % ref)
        elif t["kind"] == "u" or form == "dead":
            out.append("    r += 0 if x > -5 else %s" % ref)
        elif t["kind"] == "v":
            out.append("    r += _num(%s)" % ref)
        else:
            out.append("    r += %s(x - 1)" % ref)
    if n["hidden"] is not None:
        h = node(spec, n["hidden"])
        where = "globals()" if h["module"] == mod else "vars(%s)" % h["module"]
        out.append("    r += %s[%r](x - 1)" % (where, n["hidden"]))
    out.append("    return r")
    out.append("")
    return out, aliases


def import_lines(spec, mod):
    if mod == "c":
        return []
    lines = ["from . import %s" % ("b" if mod == "a" else "a")]
    if "c" in modules_of(spec):
        lines.append("from %s2 import c" % spec["pkg"])
    return lines


def render_module(spec, mod, order_rng=None, plain=False):
    imp = "def memento_function(**kw):\n    return lambda f: f" if plain else "from twosigma.memento import memento_function"
    out = ["import builtins", "import functools", imp] + import_lines(spec, mod) + [""]
    mine = [n for n in spec["nodes"] if n["module"] == mod]
    if order_rng is not None:
        mine = list(mine)
        order_rng.shuffle(mine)
    for n in mine:
        if n["kind"] == "v":
            if n["vkind"] == "unsupported":
                out.append("%s = object()" % sym(n))
            elif n["vkind"] == "mixedset":
                # a set whose members cannot be ordered against each other: not a type memento tracks
                out.append("%s = {\"\", \"NA\", \"n/a\", \"null\", \"-\", None, 0.5}" % sym(n))
            elif n["vkind"] == "tuplist":
                out.append("%s = (%r, %r)" % (sym(n), n["value"][0], n["value"][1]))
            else:
                out.append("%s = %r" % (sym(n), n["value"]))
    out.append("")
    out.append("import dataclasses")
    out.append("@dataclasses.dataclass(frozen=True)")
    out.append("class _Cfg:")
    out.append("    fn: object = print")
    out.append("    names: frozenset = frozenset({'a', 'bb', 'ccc', 'dddd'})")
    out.append("    fmt: object = dataclasses.field(default_factory=lambda: (lambda v: v))")
    out.append("_CFG = _Cfg()")
    out.append("")
    out.append("def _vt(ev):")
    out.append("    t = getattr(builtins, '_vt', None)")
    out.append("    if t is not None:")
    out.append("        t(ev)")
    out.append("")
    out.append("def _num(v):")
    out.append("    if isinstance(v, (int, float)): return v")
    out.append("    if isinstance(v, str): return len(v) + ord(v[-1])")
    out.append("    if isinstance(v, list): return sum(v) * 3 + v[0]")
    out.append("    if isinstance(v, tuple): return v[0] * 2 + sum(v[1])")
    out.append("    if isinstance(v, dict): return sum(v.values()) * 5")
    out.append("    return 0")
    out.append("")
    # a function named in the header of another one is defined before it
    mine = list(mine)
    moved = True
    while moved:
        moved = False
        for u_ in list(mine):
            for rf in (u_.get("refs") or []):
                if rf[1] == "hdr":
                    t_ = node(spec, rf[0])
                    if t_ in mine and mine.index(t_) > mine.index(u_):
                        mine.remove(t_)
                        mine.insert(mine.index(u_), t_)
                        moved = True
    aliases = []
    for n in mine:
        if n["kind"] not in "mp":
            continue
        lines, als = def_lines(spec, n)
        out += lines
        aliases += als
    out += aliases
    return "\n".join(out) + "\n"


def render(spec, root, order_rng=None, plain=False):
    d = os.path.join(root, spec["pkg"])
    os.makedirs(d, exist_ok=True)
    with open(os.path.join(d, "__init__.py"), "w") as f:
        f.write("")
    for mod in "ab":
        with open(os.path.join(d, mod + ".py"), "w") as f:
            f.write(render_module(spec, mod, order_rng, plain))
    if "c" in modules_of(spec):
        d2 = os.path.join(root, spec["pkg"] + "2")
        os.makedirs(d2, exist_ok=True)
        with open(os.path.join(d2, "__init__.py"), "w") as f:
            f.write("")
        with open(os.path.join(d2, "c.py"), "w") as f:
            f.write(render_module(spec, "c", order_rng, plain))
    return d


EDITS = ["swap-pair", "swap-pair", "sset", "gstr", "twin", "const", "default", "kwdefault", "setconst", "tupconst", "nested", "var", "explicit", "add-ref", "drop-ref", "helper-const", "add-default"]


def edit(rng, spec):
    """returns (new spec, description) — one edit of the kinds the property lists"""
    s = copy.deepcopy(spec)
    fns = [n for n in s["nodes"] if n["kind"] in "mp"]
    for _ in range(20):
        kind = rng.choice(EDITS)
        n = rng.choice(fns)
        if n.get("lam") and kind not in ("const", "helper-const"):
            continue                      # a lambda helper has a body constant and nothing else to edit
        if kind == "const" or (kind == "helper-const" and n["kind"] == "p"):
            n["const"] += rng.randint(1, 5)
            return s, "%s: body constant of %s" % (kind, n["name"])
        if kind == "default" and n["default"] is not None:
            n["default"] += 1
            return s, "default value of %s" % n["name"]
        if kind == "add-default" and n["default"] is None:
            n["default"] = rng.randint(1, 9)
            return s, "new defaulted parameter on %s" % n["name"]
        if kind == "kwdefault" and n["kwdefault"] is not None:
            n["kwdefault"] += 1
            return s, "keyword-only default of %s" % n["name"]
        if kind == "setconst" and n["setconst"] is not None:
            n["setconst"] = sorted(set(n["setconst"]) ^ {rng.randint(1, 9)}) or [1]
            return s, "set constant of %s" % n["name"]
        if kind == "swap-pair" and n.get("pair") is not None:
            n["pair"] = n["pair"][::-1]
            return s, "swapped constants of %s" % n["name"]
        if kind == "sset" and n.get("sset") is not None:
            n["sset"] = sorted(set(n["sset"]) ^ {rng.choice(["0", "1", "2", "3", "4"])}) or ["0"]
            return s, "string set constant of %s" % n["name"]
        if kind == "gstr" and n.get("gstr") is not None:
            n["gstr"] += "z"
            return s, "string literal inside a generator expression of %s" % n["name"]
        if kind == "twin":
            tw = [v for v in s["nodes"] if v["kind"] == "v" and v.get("sym")]
            if tw:
                v = rng.choice(tw)
                v["value"] += 1
                return s, "value of variable %s (%s.%s)" % (v["name"], v["module"], v["sym"])
        if kind == "tupconst" and n["tupconst"] is not None:
            n["tupconst"][rng.randrange(2)] += 1
            return s, "tuple constant of %s" % n["name"]
        if kind == "nested" and n["nested"] is not None:
            n["nested"] += 1
            return s, "constant inside nested code of %s" % n["name"]
        if kind == "var":
            vs = [v for v in s["nodes"] if v["kind"] == "v" and v["vkind"] not in ("unsupported", "mixedset")]
            if vs:
                v = rng.choice(vs)
                if v["vkind"] == "int":
                    v["value"] += 1
                elif v["vkind"] == "float":
                    v["value"] += 0.5
                elif v["vkind"] == "str":
                    v["value"] += "z"
                elif v["vkind"] == "list":
                    v["value"] = v["value"] + [rng.randint(1, 5)]
                elif v["vkind"] == "tuplist":
                    v["value"] = [v["value"][0], v["value"][1] + [rng.randint(1, 5)]]
                else:
                    v["value"]["k"] += 1
                return s, "value of variable %s" % v["name"]
        if kind == "explicit" and n["kind"] == "m" and n["explicit"] is not None:
            n["explicit"] = {"1": "2", "2": "12", "12": "3", "v1": "v2"}.get(n["explicit"], n["explicit"] + "x")
            n["const"] += 1
            return s, "explicit version and body of %s" % n["name"]
        if kind == "add-ref":
            cands = [c for c in s["nodes"] if c is not n and c["kind"] != "u" and c["name"] not in [r[0] for r in n["refs"]]
                     and ((c["module"] == "c") if n["module"] == "c" else not (c["module"] == "c" and c["kind"] == "p"))]
            if cands:
                c = rng.choice(cands)
                n["refs"].append([c["name"], "attr" if c["module"] != n["module"] else "bare"])
                return s, "new call edge %s -> %s" % (n["name"], c["name"])
        if kind == "drop-ref" and n["refs"]:
            r = n["refs"].pop(rng.randrange(len(n["refs"])))
            if n.get("shadow") == r[0]:
                n["shadow"] = None
            return s, "removed call edge %s -> %s" % (n["name"], r[0])
    fns[0]["const"] += 1
    return s, "body constant of %s" % fns[0]["name"]


# ---- running an edition in a fresh interpreter ---------------------------------------------

RUNNER = r'''
import builtins, importlib, json, os, sys
cfg = json.loads(sys.argv[1])
sys.path.insert(0, cfg["repo"]); sys.path.insert(0, cfg["root"])
os.environ["HOME"] = cfg["root"]
import logging; logging.disable(logging.CRITICAL)
import warnings; warnings.filterwarnings("ignore")
import twosigma.memento as m
from twosigma.memento.storage_filesystem import FilesystemStorageBackend
from twosigma.memento.storage_null import NullStorageBackend
storage = NullStorageBackend() if cfg["store"] is None else FilesystemStorageBackend(path=cfg["store"])
m.Environment.set(m.Environment(name="e", base_dir=cfg["root"], repos=[m.ConfigurationRepository(name="r", clusters={cfg["cluster"]: m.FunctionCluster(name=cfg["cluster"], storage=storage)})]))
events = []
builtins._vt = events.append
mods = {}
MODS = {"a": cfg["pkg"] + ".a", "b": cfg["pkg"] + ".b"}
if os.path.isdir(os.path.join(cfg["root"], cfg["pkg"] + "2")):
    MODS["c"] = cfg["pkg"] + "2.c"
order = cfg.get("import_order", ["a", "b"])
for mod in order:
    mods[mod] = importlib.import_module(MODS[mod])
for mod in MODS:
    mods.setdefault(mod, importlib.import_module(MODS[mod]))
out = {"versions": {}, "calls": [], "deps": {}}
def fn(name):
    for mod in MODS:
        f = getattr(mods[mod], name, None)
        if f is not None and getattr(f, "__module__", "") == MODS[mod]:
            return f
for name in cfg.get("version_order", []):
    f = fn(name)
    try:
        out["versions"][name] = f.version()
    except Exception as e:
        out["versions"][name] = "ERR:" + type(e).__name__ + ":" + str(e)[:80]
for name in cfg.get("deps_of", []):
    f = fn(name)
    try:
        g = f.dependencies()
        out["deps"][name] = {"transitive": sorted(x.qualified_name_without_version for x in g.transitive_memento_fn_dependencies()),
                             "direct": sorted(x.qualified_name_without_version for x in g.direct_memento_fn_dependencies()),
                             "rules": sorted(r.key for r in f.hash_rules()),
                             "rule_hashes": [[r.key, r.rule_hash] for r in f.hash_rules()]}
        try:
            df = g.df()
            out["deps"][name]["df"] = sorted([str(a), str(b)] for a, b in zip(df["src"], df["target"])) if "src" in df else None
        except Exception as e:
            out["deps"][name]["df"] = "ERR:" + type(e).__name__
    except Exception as e:
        out["deps"][name] = "ERR:" + type(e).__name__ + ":" + str(e)[:80]
for name, x in cfg.get("calls", []):
    del events[:]
    try:
        r = ["val", fn(name)(x)]
    except Exception as e:
        r = ["exc", type(e).__name__]
    out["calls"].append({"fn": name, "x": x, "result": r, "execs": [e[1] for e in events if e[0] == "exec"]})
print("@@RESULT@@" + json.dumps(out))
'''


def run_edition(root, spec, store, calls=(), version_order=(), deps_of=(), hashseed="0", import_order=("a", "b"), timeout=120):
    cfg = {"repo": C.REPO, "root": root, "pkg": spec["pkg"], "store": store, "cluster": CL, "calls": list(calls),
           "version_order": list(version_order), "deps_of": list(deps_of), "import_order": list(import_order)}
    env = dict(os.environ, PYTHONHASHSEED=str(hashseed), PYTHONDONTWRITEBYTECODE="1")
    p = subprocess.run([C.PY, "-c", RUNNER, json.dumps(cfg)], capture_output=True, text=True, timeout=timeout, env=env)
    for line in p.stdout.splitlines():
        if line.startswith("@@RESULT@@"):
            return json.loads(line[len("@@RESULT@@"):])
    raise RuntimeError("edition run failed: %s" % (p.stderr[-800:] or p.stdout[-400:]))


def mnames(spec):
    return [n["name"] for n in spec["nodes"] if n["kind"] == "m"]


# ---- plain (un-memoized, undecorated) execution: the reference ------------------------------

PLAIN = r'''
import importlib, json, sys
cfg = json.loads(sys.argv[1])
sys.path.insert(0, cfg["root"])
import os
MODS = {"a": cfg["pkg"] + ".a", "b": cfg["pkg"] + ".b"}
if os.path.isdir(os.path.join(cfg["root"], cfg["pkg"] + "2")):
    MODS["c"] = cfg["pkg"] + "2.c"
mods = {m: importlib.import_module(p) for m, p in MODS.items()}
out = []
for name, x in cfg["calls"]:
    f = [getattr(mods[m], name) for m in MODS if getattr(getattr(mods[m], name, None), "__module__", "") == MODS[m]][0]
    try:
        out.append(["val", f(x)])
    except Exception as e:
        out.append(["exc", type(e).__name__])
print("@@RESULT@@" + json.dumps(out))
'''


def run_plain(root, spec, calls, timeout=60):
    """root must hold a plain rendering of the spec"""
    cfg = {"root": root, "pkg": spec["pkg"], "calls": list(calls)}
    env = dict(os.environ, PYTHONDONTWRITEBYTECODE="1")
    p = subprocess.run([C.PY, "-c", PLAIN, json.dumps(cfg)], capture_output=True, text=True, timeout=timeout, env=env)
    for line in p.stdout.splitlines():
        if line.startswith("@@RESULT@@"):
            return json.loads(line[len("@@RESULT@@"):])
    raise RuntimeError("plain run failed: %s" % (p.stderr[-800:] or p.stdout[-400:]))


# ---- a whole history inside one interpreter: editions delivered by reload / setattr ----------

INPROC = r'''
import builtins, importlib, json, os, sys
cfg = json.loads(sys.argv[1])
sys.path.insert(0, cfg["repo"]); sys.path.insert(0, cfg["root"])
os.environ["HOME"] = cfg["root"]
import logging; logging.disable(logging.CRITICAL)
import warnings; warnings.filterwarnings("ignore")
import twosigma.memento as m
from twosigma.memento.storage_filesystem import FilesystemStorageBackend
from twosigma.memento.storage_memory import MemoryStorageBackend
storage = MemoryStorageBackend() if cfg["store"] is None else FilesystemStorageBackend(path=cfg["store"])
m.Environment.set(m.Environment(name="e", base_dir=cfg["root"], repos=[m.ConfigurationRepository(name="r", clusters={cfg["cluster"]: m.FunctionCluster(name=cfg["cluster"], storage=storage)})]))
events = []
builtins._vt = events.append
def moddir(mod):
    return os.path.join(cfg["root"], cfg["pkg"] + ("2" if mod == "c" else ""))
mods = {}
MODS = {}
def fn(name):
    for mod in MODS:
        f = getattr(mods[mod], name, None)
        if f is not None and getattr(f, "__module__", "") == MODS[mod]:
            return f
out = []
for k, ed in enumerate(cfg["editions"]):
    for mod, src in ed["files"].items():
        os.makedirs(moddir(mod), exist_ok=True)
        init = os.path.join(moddir(mod), "__init__.py")
        if not os.path.exists(init):
            open(init, "w").close()
        with open(os.path.join(moddir(mod), mod + ".py"), "w") as f:
            f.write(src)
    importlib.invalidate_caches()
    if k == 0:
        MODS = {mod: cfg["pkg"] + ("2.c" if mod == "c" else "." + mod) for mod in sorted(ed["files"])}
        for mod in MODS:
            mods[mod] = importlib.import_module(MODS[mod])
    else:
        for mod in sorted(ed["files"]):
            if ed.get("how") == "exec":
                import linecache
                fname = os.path.join(moddir(mod), mod + ".py")
                linecache.checkcache(fname)
                exec(compile(ed["files"][mod], fname, "exec"), mods[mod].__dict__)
            else:
                importlib.reload(mods[mod])
        for sa in ed.get("setattrs", []):
            mod, name, value = sa[0], sa[1], sa[2]
            cur = getattr(mods[mod], name, None)
            if len(sa) > 3 and sa[3] == "mutate" and type(cur) is type(value) and isinstance(cur, (list, dict)):
                # the edit is made IN PLACE: the name stays bound to the same object
                if isinstance(cur, list):
                    cur[:] = value
                else:
                    cur.clear()
                    cur.update(value)
            else:
                setattr(mods[mod], name, value)
        for si, (mod, src) in enumerate(ed.get("snippets", [])):
            # a new definition executed on its own in the module's namespace (nothing else is re-executed)
            import linecache
            fname = os.path.join(cfg["root"], "snippet_%d_%d.py" % (k, si))
            with open(fname, "w") as f:
                f.write(src)
            linecache.checkcache(fname)
            exec(compile(src, fname, "exec"), mods[mod].__dict__)
    res = {"versions": {}, "calls": []}
    for name in ed.get("version_order", []):
        try:
            res["versions"][name] = fn(name).version()
        except Exception as e:
            res["versions"][name] = "ERR:" + type(e).__name__ + ":" + str(e)[:80]
    for name, x in ed["calls"]:
        del events[:]
        try:
            r = ["val", fn(name)(x)]
        except Exception as e:
            r = ["exc", type(e).__name__]
        res["calls"].append({"fn": name, "x": x, "result": r, "execs": [e[1] for e in events if e[0] == "exec"]})
    out.append(res)
print("@@RESULT@@" + json.dumps(out))
'''


def run_inproc(root, pkg, editions, store=None, hashseed="0", timeout=180):
    os.makedirs(os.path.join(root, pkg), exist_ok=True)
    open(os.path.join(root, pkg, "__init__.py"), "w").close()
    cfg = {"repo": C.REPO, "root": root, "pkg": pkg, "store": store, "cluster": CL, "editions": editions}
    env = dict(os.environ, PYTHONHASHSEED=str(hashseed), PYTHONDONTWRITEBYTECODE="1")
    p = subprocess.run([C.PY, "-c", INPROC, json.dumps(cfg)], capture_output=True, text=True, timeout=timeout, env=env)
    for line in p.stdout.splitlines():
        if line.startswith("@@RESULT@@"):
            return json.loads(line[len("@@RESULT@@"):])
    raise RuntimeError("in-process run failed: %s" % (p.stderr[-800:] or p.stdout[-400:]))


# ---- event histories inside one interpreter (C13) ---------------------------------------------

EVENTS = r'''
import builtins, importlib, json, linecache, os, sys
cfg = json.loads(sys.argv[1])
sys.path.insert(0, cfg["repo"]); sys.path.insert(0, cfg["root"])
os.environ["HOME"] = cfg["root"]
import logging; logging.disable(logging.CRITICAL)
import warnings; warnings.filterwarnings("ignore")
import twosigma.memento as m
from twosigma.memento.memento import MementoFunction
from twosigma.memento.storage_memory import MemoryStorageBackend
m.Environment.set(m.Environment(name="e", base_dir=cfg["root"], repos=[m.ConfigurationRepository(name="r", clusters={cfg["cluster"]: m.FunctionCluster(name=cfg["cluster"], storage=MemoryStorageBackend())})]))
builtins._vt = [].append
MODS = {"a": cfg["pkg"] + ".a", "b": cfg["pkg"] + ".b"}
if os.path.isdir(os.path.join(cfg["root"], cfg["pkg"] + "2")):
    MODS["c"] = cfg["pkg"] + "2.c"
mods = {mod: importlib.import_module(MODS[mod]) for mod in cfg.get("import_order", ["a", "b"])}
for mod in MODS:
    mods.setdefault(mod, importlib.import_module(MODS[mod]))
extra = {}
def fn(name):
    if name in extra:
        return extra[name]
    for mod in MODS:
        f = getattr(mods[mod], name, None)
        if f is not None and getattr(f, "__module__", "") == MODS[mod]:
            return f
out = []
snip = 0
for ev in cfg["events"]:
    op = ev["op"]
    try:
        if op == "exec":
            snip += 1
            fname = os.path.join(cfg["root"], "snip%d.py" % snip)
            with open(fname, "w") as f:
                f.write(ev["src"])
            linecache.checkcache(fname)
            exec(compile(ev["src"], fname, "exec"), mods[ev["mod"]].__dict__)
        elif op == "setattr":
            setattr(mods[ev["mod"]], ev["name"], ev["value"])
        elif op == "alias":
            setattr(mods[ev["mod"]], ev["name"], fn(ev["target"]))
        elif op == "mutate":
            v = getattr(mods[ev["mod"]], ev["name"])
            if isinstance(v, tuple):
                v[1].append(ev["value"])
            elif isinstance(v, list):
                v.append(ev["value"])
            else:
                v["k"] = ev["value"]
        elif op == "clone":
            f = fn(ev["fn"])
            extra[ev["as"]] = {"partial": lambda: f.partial(), "force_local": lambda: f.force_local(), "ignore_result": lambda: f.ignore_result(),
                               "with_context_args": lambda: f.with_context_args({"q": 1})}[ev["how"]]()
        elif op == "wrapper":
            f = fn(ev["fn"])
            extra[ev["as"]] = MementoFunction(fn=f.fn, cluster_name=f.cluster_name, version=f.explicit_version, register_fn=False)
        elif op == "query":
            res = {}
            for name in ev["names"]:
                try:
                    res[name] = fn(name).version()
                except Exception as e:
                    res[name] = "ERR:" + type(e).__name__ + ":" + str(e)[:80]
            out.append(res)
    except Exception as e:
        out.append({"__event_failed__": op + ":" + type(e).__name__ + ":" + str(e)[:200]})
print("@@RESULT@@" + json.dumps(out))
'''


def run_events(root, spec, events, hashseed="0", timeout=180):
    """root holds a rendering of the initial spec"""
    cfg = {"repo": C.REPO, "root": root, "pkg": spec["pkg"], "cluster": CL, "events": events}
    env = dict(os.environ, PYTHONHASHSEED=str(hashseed), PYTHONDONTWRITEBYTECODE="1")
    p = subprocess.run([C.PY, "-c", EVENTS, json.dumps(cfg)], capture_output=True, text=True, timeout=timeout, env=env)
    for line in p.stdout.splitlines():
        if line.startswith("@@RESULT@@"):
            return json.loads(line[len("@@RESULT@@"):])
    raise RuntimeError("event run failed: %s" % (p.stderr[-800:] or p.stdout[-400:]))
