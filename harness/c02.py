"""C02 — memoization is transparent: same outcome, body runs once per distinct call.
Theorems: Runner/RunProofs.v (runner logic) + Storage/LayerProofs.v (every cache size).
Correspondence: (a) call DAGs on every backend vs the Coq runner model; (b) a recursive generator
over the documented result domain x backends x call modifiers with type-aware equality:
first call runs the body once, later calls return an equal value of the same type without
running it, the first call's value stays usable, the recorded result type matches the value
read back, exceptions are recorded and replayed, forgetting a call makes exactly it run again."""
import datetime
import math
import gc
import json
import os
import random
import shutil

from . import common as C
from . import runner_cases as R

BACKENDS = ["mem", "fs", "fs_cache", "fs_tinycache"]


def gen_desc(rng, depth=0):
    x = rng.random()
    if depth >= 2:
        x *= 0.55
    if x < 0.05:
        return {"k": "none"}
    if x < 0.12:
        return {"k": "bool", "v": rng.choice([True, False])}
    if x < 0.22:
        return {"k": "int", "v": rng.choice([0, 1, -1, 255, 2**40, -2**63, 10**30])}
    if x < 0.32:
        return {"k": "float", "v": rng.choice([0.0, -0.0, 1.5, 1e300, float("nan"), float("inf"), 5e-324]).hex()}
    if x < 0.40:
        return {"k": "str", "v": rng.choice(["", "a", "é日本\U0001F600", "line\nbreak\x00", "x" * 500, "dos\r\nmac\rend"])}
    if x < 0.46:
        return {"k": "bytes", "v": rng.choice(["", "00ff", "0a0d1a", "ab" * 300])}
    if x < 0.50:
        return {"k": "date", "v": rng.choice(["2020-02-29", "0001-01-01", "9999-12-31"])}
    if x < 0.55:
        return {"k": "ts", "v": rng.choice(["2021-03-04T05:06:07", "2021-03-04T05:06:07.123456", "2021-03-04T05:06:07+00:00", "2021-03-04T05:06:07-05:30"])}
    if x < 0.63:
        return {"k": "list", "v": [gen_desc(rng, depth + 1) for _ in range(rng.randint(0, 3))]}
    if x < 0.71:
        return {"k": "dict", "v": [[k, gen_desc(rng, depth + 1)] for k in rng.sample(["a", "b", "é", ""], rng.randint(0, 3))]}
    if x < 0.81:
        dt = rng.choice(["bool", "int8", "int16", "int32", "int64", "float32", "float64"])
        shape = rng.choice([(0,), (3,), (2, 2), (1, 3)])
        n = 1
        for s in shape:
            n *= s
        if dt == "bool":
            vals = [rng.random() < 0.5 for _ in range(n)]
        elif dt.startswith("int"):
            vals = [rng.randint(-100, 100) for _ in range(n)]
        else:
            vals = [rng.choice([0.5, -1.25, 3.0]) for _ in range(n)]
        return {"k": "nd", "v": vals, "dtype": dt, "shape": list(shape)}
    if x < 0.85:
        return {"k": "index", "v": rng.choice([[1, 2, 3], ["a", "b"], [], [1.5, 2.5]])}
    if x < 0.91:
        return {"k": "series", "v": rng.choice([[1, 2, 3], [1.5, None, 3.0], ["x", "y"], []]), "index": None, "dtype": rng.choice([None, "float32"]) if rng.random() < 0.3 else None}
    if x < 0.97:
        return {"k": "df", "v": [["a", [1, 2]], ["b", ["x", "é"]]] if rng.random() < 0.7 else [["a", []]], "index": rng.choice([None, ["r1", "r2"]])}
    return {"k": rng.choice(["part", "part", "odpart"]), "v": [[k, gen_desc(rng, 2)] for k in rng.sample(["k1", "k2", "k3"], rng.randint(0, 3))]}


def fix_desc(d):
    """make index lengths consistent"""
    if d["k"] == "df" and d.get("index") is not None:
        n = len(d["v"][0][1])
        d["index"] = d["index"][:n] if n <= len(d["index"]) else None
    if d["k"] == "series" and d.get("dtype") == "float32" and any(isinstance(x, str) for x in d["v"]):
        d["dtype"] = None
    return d


def deep_equal(a, b):
    import numpy as np
    import pandas as pd
    from twosigma.memento.partition import Partition
    if isinstance(a, Partition) or isinstance(b, Partition):
        if not (isinstance(a, Partition) and isinstance(b, Partition)):
            return False
        ka, kb = list(a.list_keys()), list(b.list_keys())
        return ka == kb and all(deep_equal(a.get(k), b.get(k)) for k in ka)
    if isinstance(a, pd.DataFrame) or isinstance(b, pd.DataFrame):
        return isinstance(a, pd.DataFrame) and isinstance(b, pd.DataFrame) and a.equals(b) and list(a.dtypes) == list(b.dtypes) and a.index.equals(b.index)
    if isinstance(a, pd.Series) or isinstance(b, pd.Series):
        return isinstance(a, pd.Series) and isinstance(b, pd.Series) and a.equals(b) and a.dtype == b.dtype
    if isinstance(a, pd.Index) or isinstance(b, pd.Index):
        return isinstance(a, pd.Index) and isinstance(b, pd.Index) and a.equals(b) and a.dtype == b.dtype
    if isinstance(a, np.ndarray) or isinstance(b, np.ndarray):
        # the same type: an array class of its own (a memory map, a matrix, a masked array) is not "an equal value of the same type"
        return type(a) is type(b) and a.dtype == b.dtype and a.shape == b.shape and np.array_equal(a, b, equal_nan=a.dtype.kind == "f")
    if type(a) is not type(b):
        return False
    if isinstance(a, float):
        return (math.isnan(a) and math.isnan(b)) or (a == b and math.copysign(1, a) == math.copysign(1, b))
    if isinstance(a, list):
        return len(a) == len(b) and all(deep_equal(x, y) for x, y in zip(a, b))
    if isinstance(a, dict):
        return list(a) == list(b) and all(deep_equal(a[k], b[k]) for k in a)
    if isinstance(a, datetime.datetime):
        return a == b and (a.tzinfo is None) == (b.tzinfo is None) and a.utcoffset() == b.utcoffset()
    return a == b


def expected_result_type(ResultType, v):
    """the documented classification of a value, written down independently of the library's own classifier"""
    import numpy as np
    import pandas as pd
    from twosigma.memento.partition import Partition
    if v is None:
        return ResultType.null
    if isinstance(v, bool):
        return ResultType.boolean
    if isinstance(v, str):
        return ResultType.string
    if isinstance(v, bytes):
        return ResultType.binary
    if isinstance(v, (int, float)):
        return ResultType.number
    if isinstance(v, datetime.datetime):          # includes pandas.Timestamp: an instant, not a calendar date
        return ResultType.timestamp
    if isinstance(v, datetime.date):
        return ResultType.date
    if isinstance(v, list):
        return ResultType.list_result
    if isinstance(v, dict):
        return ResultType.dictionary
    if isinstance(v, pd.Index):
        return ResultType.index
    if isinstance(v, pd.Series):
        return ResultType.series
    if isinstance(v, pd.DataFrame):
        return ResultType.data_frame
    if isinstance(v, np.ndarray):
        return {"bool": ResultType.array_boolean, "int8": ResultType.array_int8, "int16": ResultType.array_int16, "int32": ResultType.array_int32,
                "int64": ResultType.array_int64, "float32": ResultType.array_float32, "float64": ResultType.array_float64}.get(str(v.dtype))
    if isinstance(v, Partition):
        return ResultType.partition
    return None


EXC_KINDS = ["ValueError", "KeyError", "ZeroDivisionError", "LocalOnly", "NonMemoized", "FnLocal", "Nested", "Decorated"]


def run(tier, seed):
    rep = C.Report("C02", tier, seed)
    gate = C.proof_gate("C02")
    rng = random.Random(seed)
    nprog, nval = (16, 70) if tier == "quick" else (150, 1200)
    with C.Scratch("c02") as scratch:
        from . import implenv
        m = implenv.setup(scratch)
        from twosigma.memento.metadata import ResultType
        from twosigma.memento.exception import MementoException
        from . import fnmod
        terms, metas = [], []
        total = 0
        kinds = {}
        # (a) runner logic on every backend vs the model
        for pi in range(nprog):
            prog = R.gen_program(rng, rng.randint(2, 6))
            root = max(prog)
            kind = BACKENDS[pi % len(BACKENDS)]
            r = R.Runner(m, scratch, R.make_storage(kind, scratch, "g%d" % pi))
            out, execs = r.call(prog, root, 0)
            out2, execs2 = r.call(prog, root, 0)
            mem = r.memento(prog, root, 0)
            total += 1
            meta = {"program": prog, "root": root, "backend": kind, "outcome": list(out), "executed": execs}
            if out != R.ref_value(prog, root, 0) or out2 != out:
                rep.violation("C02:outcome-differs-from-unmemoized", "calls returned %r then %r, an un-memoized execution gives %r" % (out, out2, R.ref_value(prog, root, 0)), meta)
            if execs2:
                rep.violation("C02:later-call-ran-a-body", "the second identical call executed %r" % (execs2,), meta)
            if mem is not None:
                terms.append("(%s, [], (%d, 0), (%s, %s, %s, %s))" % (R.coq_prog(prog), root, R.coq_outcome(out), C.coq_list([str(x) for x in execs]),
                                                                      R.coq_keys(mem["invocations"]), C.coq_list([str(x) for x in mem["deps"]])))
                metas.append(meta)
            shutil.rmtree(os.path.join(scratch, "store-g%d" % pi), ignore_errors=True)
        # (b) the value domain
        # results larger than a tiny cache and weak-referenceable (kept alive by the caller): the cache serves
        # them from its weak-reference side table only
        targeted = [({"k": "nd", "v": [1.5] * 150, "dtype": "float64", "shape": [150]}, "fs_tinycache", "normal"),
                    ({"k": "nd", "v": [1] * 600, "dtype": "int8", "shape": [20, 30]}, "fs_tinycache", "force_local"),
                    ({"k": "series", "v": [float(i) for i in range(90)], "index": None, "dtype": None}, "fs_tinycache", "normal"),
                    ({"k": "df", "v": [["a", list(range(60))], ["b", ["x"] * 60]], "index": None}, "fs_tinycache", "normal"),
                    ({"k": "index", "v": list(range(200))}, "fs_tinycache", "normal"),
                    ({"k": "part", "v": [["k1", {"k": "str", "v": "y" * 300}], ["k2", {"k": "int", "v": 3}]]}, "fs_tinycache", "normal"),
                    ({"k": "part", "v": [["k1", {"k": "nd", "v": [2.5] * 80, "dtype": "float64", "shape": [80]}]]}, "fs_cache", "normal"),
                    ({"k": "str", "v": "z" * 2000}, "fs_tinycache", "normal"),
                    ({"k": "str", "v": "one\r\ntwo\rthree\n\r\n\u2028end\r"}, "fs", "normal"),          # every kind of line ending, read back from the files
                    ({"k": "str", "v": "\r\n" * 40 + "\x85\x1c tail "}, "fs_tinycache", "normal"),
                    ({"k": "dict", "v": [["a\r\nb", {"k": "str", "v": "c\rd"}]]}, "fs", "normal"),
                    ({"k": "npscalar", "v": 3.5, "dtype": "float64"}, "fs", "normal"),
                    ({"k": "tsz", "v": "2021-03-04T05:06:07", "zone": "Europe/Paris"}, "fs", "normal"),
                    ({"k": "pdtsz", "v": "2021-03-04T05:06:07", "zone": "America/New_York"}, "fs", "normal"),
                    ({"k": "list", "v": [{"k": "tsz", "v": "2021-07-04T05:06:07", "zone": "Asia/Tokyo"}, {"k": "int", "v": 1}]}, "fs_cache", "normal"),
                    ({"k": "pdts", "v": "2021-03-04T05:06:07"}, "fs", "normal"),
                    ({"k": "pdts", "v": "2021-03-04T05:06:07+02:00"}, "mem", "normal"),
                    ({"k": "part", "v": [["k1", {"k": "pdts", "v": "2020-01-02T03:04:05"}]]}, "fs_cache", "normal"),
                    ({"k": "npscalar", "v": 3.5, "dtype": "float64"}, "mem", "normal"),
                    ({"k": "list", "v": [{"k": "npscalar", "v": 1.5, "dtype": "float64"}, {"k": "int", "v": 2}]}, "fs", "normal"),
                    ({"k": "part", "v": [["k1", {"k": "npscalar", "v": 4.5, "dtype": "float64"}]]}, "fs", "normal"),
                    ({"k": "odpart", "v": [["k1", {"k": "str", "v": "w" * 40}], ["k2", {"k": "int", "v": 5}]]}, "mem", "normal"),
                    ({"k": "odpart", "v": [["k1", {"k": "nd", "v": [0.5] * 30, "dtype": "float64", "shape": [30]}]]}, "fs", "normal"),
                    ({"k": "odpart", "v": [["k1", {"k": "str", "v": "w" * 400}]]}, "fs_tinycache", "normal"),
                    ({"k": "odpart", "v": [["k1", {"k": "int", "v": 1}], ["k2", {"k": "int", "v": 2}]]}, "fs_cache", "force_local"),
                    ({"k": "nd", "v": [1.5] * 150, "dtype": "float64", "shape": [150]}, "mem", "ignore_result")]
        for vi in range(nval + len(targeted)):
            if vi < len(targeted):
                desc, kind, mod = targeted[vi]
            else:
                desc = fix_desc(gen_desc(rng))
                kind = rng.choice(BACKENDS)
                mod = rng.choice(["normal", "normal", "ignore_result", "force_local"])
            kinds[desc["k"]] = kinds.get(desc["k"], 0) + 1
            r = R.Runner(m, scratch, R.make_storage(kind, scratch, "v%d" % vi))
            spec = {"id": 5000 + vi, "ret": desc}
            other = {"id": 6000 + vi, "ret": {"k": "int", "v": 7}}
            meta = {"value": desc, "backend": kind, "modifier": mod}
            total += 1
            try:
                expected = fnmod.make_value(desc)
            except Exception as e:      # generator produced something pandas rejects: not a memento matter
                continue
            f = fnmod.n0
            g = {"normal": f, "ignore_result": f.ignore_result(), "force_local": f.force_local()}[mod]
            try:
                r.trace.clear()
                v1 = g(spec)
                n1 = len(r.trace.execs())
                f(other)
                r.trace.clear()
                v2 = f(spec)
                v3 = g(spec)
                n2 = len(r.trace.execs())
            except Exception as e:
                rep.violation("C02:call-raised:%s" % desc["k"], "a call returning a %s raised %s: %s" % (desc["k"], type(e).__name__, str(e)[:150]), meta)
                continue
            if n1 != 1 or n2 != 0:
                rep.violation("C02:body-count:%s" % desc["k"], "body ran %d times on the first call and %d times on later calls" % (n1, n2), meta)
            first_ok = (v1 is None) if mod == "ignore_result" else deep_equal(v1, expected)
            if not first_ok:
                rep.violation("C02:first-call-value:%s" % desc["k"], "the first call returned %r (%s), the body computed %r" % (v1, type(v1).__name__, expected), meta)
            if not deep_equal(v2, expected):
                rep.violation("C02:read-back-differs:%s" % desc["k"], "a later call returned %r (%s) instead of an equal %s %r" % (v2, type(v2).__name__, type(expected).__name__, expected), meta)
            if mod != "ignore_result" and not deep_equal(v3, expected):
                rep.violation("C02:read-back-differs:%s" % desc["k"], "a later call through the modifier returned %r" % (v3,), meta)
            # results handed out by later calls are dropped and collected: what is stored, and what the first call
            # returned, must stay readable
            try:
                v2 = v3 = None
                gc.collect()
                v4 = f(spec)
                if not deep_equal(v4, expected):
                    rep.violation("C02:read-back-differs:%s" % desc["k"], "after the results of later calls were dropped and collected, a call returned %r instead of %r" % (v4, expected), meta)
                if mod != "ignore_result" and not deep_equal(v1, expected):
                    rep.violation("C02:first-call-value:%s" % desc["k"], "after the results of later calls were dropped and collected, the value the first call returned reads %r" % (v1,), meta)
                v2 = v4
            except Exception as e:
                rep.violation("C02:read-raised-after-collect:%s" % desc["k"], "after the results of later calls were dropped and collected: %s: %s" % (type(e).__name__, str(e)[:150]), meta)
                v2 = expected
            mm = f.memento(spec)
            if mm is None:
                rep.violation("C02:no-memento:%s" % desc["k"], "no memento after the call", meta)
            else:
                rt = mm.invocation_metadata.result_type
                want_rt = expected_result_type(ResultType, v2)
                if rt != want_rt:
                    rep.violation("C02:result-type-mismatch:%s" % desc["k"], "recorded result type %s, the value read back is a %s" % (rt, want_rt), meta)
            # forgetting the call makes exactly it run again
            try:
                f.forget(spec)
                r.trace.clear()
                f(spec)
                f(spec)
                f(other)
                ex = [e[2] for e in r.trace.execs()]
                if ex != [spec["id"]]:
                    rep.violation("C02:forget-not-exact", "after forgetting one call the executed bodies were %r" % (ex,), meta)
            except Exception as e:
                rep.violation("C02:forget-raised", "%s: %s" % (type(e).__name__, str(e)[:100]), meta)
            # the same, forgetting right after the first call (nothing read back in between), the caller still
            # holding the first result
            try:
                spec_f = {"id": 5500 + vi, "ret": desc}
                held = f(spec_f)
                f.forget(spec_f)
                r.trace.clear()
                f(spec_f)
                f(spec_f)
                ex = [e[2] for e in r.trace.execs()]
                if ex != [spec_f["id"]]:
                    rep.violation("C02:forget-then-recall", "first call, forget, two more calls: the body ran %d more times (expected exactly once)" % len(ex), meta)
                del held
            except Exception as e:
                rep.violation("C02:forget-raised", "%s: %s" % (type(e).__name__, str(e)[:100]), meta)
            shutil.rmtree(os.path.join(scratch, "store-v%d" % vi), ignore_errors=True)
            if len(rep.samples) < 3:
                rep.samples.append(meta)
        # (c) exceptions
        for ei, cls in enumerate(EXC_KINDS * (1 if tier == "quick" else 6)):
            kind = BACKENDS[ei % len(BACKENDS)]
            r = R.Runner(m, scratch, R.make_storage(kind, scratch, "e%d" % ei))
            spec = {"id": 8000 + ei, "raise": {"cls": cls, "msg": "msg-%d" % ei}}
            meta = {"exception": cls, "backend": kind}
            total += 1
            kinds["exc:" + cls] = kinds.get("exc:" + cls, 0) + 1
            outs = []
            r.trace.clear()
            for _ in range(2):
                try:
                    fnmod.n0(spec)
                    outs.append(("returned", None, None))
                except Exception as e:
                    outs.append(("raised", type(e), str(e)))
                    last_exc = e
            n = len(r.trace.execs())
            if any(o[0] != "raised" for o in outs):
                rep.violation("C02:exception-lost:%s" % cls, "a raising call returned normally: %r" % (outs,), meta)
                continue
            (_, t1, m1), (_, t2, m2) = outs
            # the first call is an execution of the body: the caller sees the body's own exception (class and message)
            own = {"LocalOnly": "LocalOnlyError", "FnLocal": "FnLocalError", "Nested": "NestedError", "NonMemoized": "NonMemoizedException", "Decorated": "DecoratedError"}.get(cls, cls)
            if t1.__name__ not in (own, "OSError" if own == "IOError" else own) or ("msg-%d" % ei) not in m1:
                rep.violation("C02:first-call-exception-differs:%s" % cls, "the body raised %s('msg-%d'...); the first (computing) call raised %s: %r" % (own, ei, t1.__name__, m1[:80]), meta)
            if cls == "NonMemoized":
                if n != 2 or fnmod.n0.memento(spec) is not None:
                    rep.violation("C02:non-memoized-exception-recorded", "not-to-be-memoized exception: body ran %d times for two calls, memento=%r" % (n, fnmod.n0.memento(spec)), meta)
                continue
            if n != 1:
                rep.violation("C02:exception-body-count:%s" % cls, "body ran %d times for two raising calls" % n, meta)
            rebuildable = cls in ("ValueError", "KeyError", "ZeroDivisionError", "Nested")
            if rebuildable and t2 is not t1:
                rep.violation("C02:replayed-exception-class:%s" % cls, "replayed as %s instead of %s" % (t2.__name__, t1.__name__), meta)
            if not rebuildable and not issubclass(t2, MementoException):
                rep.violation("C02:replayed-exception-class:%s" % cls, "an exception that cannot be rebuilt from its message was replayed as %s, not as the memoized-exception type" % t2.__name__, meta)
            if ("msg-%d" % ei) not in m2:
                rep.violation("C02:replayed-exception-message:%s" % cls, "original message lost: %r" % m2, meta)
            elif not rebuildable and m1 not in (getattr(last_exc, "message", None) or m2.split(". Original stack trace")[0]):
                # the memoized-exception type carries the original exception's text (what str() of it gave), not a part of it
                rep.violation("C02:replayed-exception-message:%s" % cls, "the body's exception read %r; the replayed one carries the message %r" % (m1, (getattr(last_exc, "message", None) or m2)[:160]), meta)
            mm = fnmod.n0.memento(spec)
            if mm is None or mm.invocation_metadata.result_type != ResultType.exception:
                rep.violation("C02:exception-result-type", "memento %r" % (mm,), meta)
            shutil.rmtree(os.path.join(scratch, "store-e%d" % ei), ignore_errors=True)
        # (d) an exception recorded by one process and replayed in another, where the module that defines the class has not
        # been imported yet (the body that would import it does not run on a hit)
        xroot = os.path.join(scratch, "xproc")
        os.makedirs(xroot, exist_ok=True)
        with open(os.path.join(xroot, "lazyerr_mod.py"), "w") as f:
            f.write("class QuotaError(Exception):\n    pass\n")
        with open(os.path.join(xroot, "lazyfn_mod.py"), "w") as f:
            f.write("import builtins\nfrom twosigma.memento import memento_function\n\n"
                    "@memento_function(cluster='fc', version='1')\ndef lazy_fail(x):\n"
                    "    t = getattr(builtins, '_vt', None)\n    if t is not None:\n        t(('exec', 'lazy_fail', x, None))\n"
                    "    import lazyerr_mod\n    raise lazyerr_mod.QuotaError('quota %d exceeded' % x)\n")
        script = (
            "import builtins, json, os, sys\n"
            "root, store, cache = sys.argv[1], sys.argv[2], sys.argv[3] == '1'\n"
            "sys.path.insert(0, root)\nos.environ['HOME'] = root\n"
            "import logging; logging.disable(logging.CRITICAL)\n"
            "import twosigma.memento as m\n"
            "from twosigma.memento.storage_filesystem import FilesystemStorageBackend\n"
            "st = FilesystemStorageBackend(path=store, memory_cache_mb=(4 if cache else None))\n"
            "m.Environment.set(m.Environment(name='x', base_dir=root, repos=[m.ConfigurationRepository(name='r', clusters={'fc': m.FunctionCluster(name='fc', storage=st)})]))\n"
            "ev = []\nbuiltins._vt = ev.append\n"
            "import lazyfn_mod\n"
            "out = {'loaded_before': 'lazyerr_mod' in sys.modules}\n"
            "try:\n    lazyfn_mod.lazy_fail(3)\n    out['raised'] = None\n"
            "except Exception as e:\n    out['raised'] = [type(e).__module__, type(e).__qualname__, str(e)]\n"
            "out['execs'] = len(ev)\n"
            "print('@@' + json.dumps(out))\n")
        with open(os.path.join(xroot, "xrun.py"), "w") as f:
            f.write(script)
        import subprocess
        for cache in (False, True):
            store = os.path.join(xroot, "store%d" % cache)
            outs = []
            for _ in range(2):
                pr = subprocess.run([C.PY, os.path.join(xroot, "xrun.py"), xroot, store, "1" if cache else "0"], capture_output=True, text=True, timeout=120,
                                    env=dict(os.environ, PYTHONPATH=C.REPO, PYTHONHASHSEED="0"))
                line = [l for l in pr.stdout.splitlines() if l.startswith("@@")]
                outs.append(json.loads(line[0][2:]) if line else {"error": (pr.stderr or pr.stdout)[-300:]})
            total += 1
            kinds["exc:cross-process"] = kinds.get("exc:cross-process", 0) + 1
            meta = {"exception": "lazyerr_mod.QuotaError (module imported only inside the body)", "backend": "fs_cache" if cache else "fs", "first process": outs[0], "second process": outs[1]}
            if any("error" in o for o in outs):
                rep.violation("C02:cross-process-replay-raised", "the replay script failed: %r" % (outs,), meta)
            elif outs[0]["raised"] is None or outs[0]["raised"][:2] != ["lazyerr_mod", "QuotaError"] or outs[0]["execs"] != 1:
                rep.violation("C02:exception-lost:cross-process", "the first process saw %r" % (outs[0],), meta)
            elif outs[1]["execs"] != 0:
                rep.violation("C02:exception-body-count:cross-process", "the second process executed the body %d times" % outs[1]["execs"], meta)
            elif outs[1]["raised"] is None or outs[1]["raised"][:2] != ["lazyerr_mod", "QuotaError"]:
                rep.violation("C02:replayed-exception-class:cross-process", "recorded as lazyerr_mod.QuotaError, replayed in a later process as %r" % (outs[1]["raised"],), meta)
            elif "quota 3 exceeded" not in outs[1]["raised"][2]:
                rep.violation("C02:replayed-exception-message:cross-process", "original message lost: %r" % outs[1]["raised"][2], meta)
        try:
            res = C.run_coq_cases("c02", R.HEADER, terms, "run_case", shard=200,
                                  case_type="list (nat * ndef) * list (nat * nat) * (nat * nat) * (outcome * list nat * list key * list nat)")
        except RuntimeError as e:
            rep.broken.append("correspondence C02 (model could not be evaluated): %s" % str(e)[:300])
            res = []
        what = ["outcome", "executed bodies", "invocations", "dependency set"]
        for meta, r0 in zip(metas, res):
            if r0 is not None:
                rep.violation("C02:differs-from-runner-model:%s" % what[r0].split()[0], "the %s differ from the runner model" % what[r0], meta)
        # staged on-disk partitions remove their directories when collected: do that before the scratch root goes away
        expected = v1 = v2 = v3 = v4 = held = mm = r = None
        from twosigma.memento.storage_memory import MemoryStorageBackend
        from . import fnlib
        fnlib.set_env(m, scratch, {"fc": (MemoryStorageBackend(), None)})
        gc.collect()
        rep.coverage.update({
            "evaluations": total, "distinct_nontrivial": len(set(terms)) + sum(1 for k in kinds),
            "rule": "(a) random call DAGs on memory / filesystem / filesystem+cache (1 MB and 400 B) vs the Coq runner model; (b) recursively generated result values (null, bool, ints incl. 10**30, floats incl. -0.0/NaN/inf, "
                    "str incl. non-ASCII, bytes, dates, naive/aware timestamps, nested lists/dicts, numpy arrays of 7 dtypes and 4 shapes, pandas Index/Series/DataFrame, partitions) x 4 backends x "
                    "{normal, ignore_result, force_local} with type-aware equality, result-type check and forget; (c) exception classes rebuildable / not rebuildable / not-to-be-memoized",
            "value_kinds": kinds, "traces_validated_against_impl": len(terms),
        })
        rep.assumptions = ["pickle / pandas / numpy serialization fidelity is an oracle for the model and is what part (b) samples", "type-aware equality as defined in harness/c02.py: deep_equal"]
    return rep.finish(gate)
