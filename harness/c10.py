"""C10 — provenance is exact and independent of what was already memoized.
Theorems: Runner/RunProofs.v. Correspondence: generated call DAGs (repeated, batched, failing
sub-calls, context overrides) x subsets of sub-calls memoized beforehand (all subsets when there
are few, sampled otherwise) x backends; the root's recorded invocations / dependency set /
outcome / executed bodies are compared with the Coq model and checked directly (exact call
tree, identical across subsets)."""
import itertools
import os
import random

from . import common as C
from . import runner_cases as R


def expected_prov(prog, root, ctx):
    invs = [(k, R.eff(ctx, ov)) for k, ov in prog[root]["kids"]]
    below = {prog[root]["fn"]} | {prog[k]["fn"] for k, _ in R.subcalls(prog, root, ctx)}
    return invs, sorted(below)


def concurrent_provenance(m, scratch, rep, max_runs):
    """the sub-call is being computed by another thread: the caller misses in its pre-check, waits for the
    per-call mutex and then finds the result inside it; its recorded provenance must still be exact"""
    import builtins
    import shutil
    from twosigma.memento.storage_filesystem import FilesystemStorageBackend
    from . import fnlib, fnmod
    from .sched import Scheduler, PointProxy
    from .c09 import explore
    prog = {1: {"fn": 2, "fails": False, "batch": False, "kids": []},
            2: {"fn": 1, "fails": False, "batch": False, "kids": [(1, None)]},
            3: {"fn": 0, "fails": False, "batch": False, "kids": [(2, None)]}}
    want_inv, want_deps = expected_prov(prog, 3, 0)
    n = [0]

    class Once:
        def __init__(self):
            root = os.path.join(scratch, "c10conc")
            shutil.rmtree(root, ignore_errors=True)
            self.backend = FilesystemStorageBackend(path=os.path.join(root, "data"))
            fnlib.set_env(m, root, {"fc": (self.backend, None)})
            self.sched = Scheduler(set(), ("memento/runner_local.py",))
            for attr, label in (("_metadata_source", "meta"), ("_data_source", "data")):
                setattr(self.backend, attr, PointProxy(getattr(self.backend, attr), label, self.sched))
            sched = self.sched
            builtins._vt = lambda e: sched.point("body") if e[0] == "exec" else None

        def go(self, chooser):
            fns = [lambda: fnmod.n1(R.spec_of(prog, 2)), lambda: fnmod.n0(R.spec_of(prog, 3))]
            return self.sched.run(fns, chooser)

        def verdicts(self, deadlock):
            builtins._vt = lambda e: None
            n[0] += 1
            out = []
            r = R.Runner.__new__(R.Runner)
            r.m, r.fnmod = m, fnmod
            mem = R.Runner.memento(r, prog, 3, 0)
            if mem is None:
                out.append(("no-memento", "no memento for the caller after both threads finished"))
            else:
                if mem["invocations"] != want_inv:
                    out.append(("invocations-not-exact", "recorded invocations %r, the body made %r" % (mem["invocations"], want_inv)))
                if mem["deps"] != want_deps:
                    out.append(("dependencies-not-exact", "recorded function dependencies %r, functions invoked beneath the call %r" % (mem["deps"], want_deps)))
            return out
    results, _ = explore(lambda: Once(), 1, max_runs)
    for trace, verdicts, choices in results:
        for sig, what in verdicts:
            rep.violation("C10:concurrent:%s" % sig, "sub-call computed concurrently by another thread: %s" % what,
                          {"program": prog, "threads": ["n1(spec 2)", "n0(spec 3)"], "choices": choices, "schedule(thread, point)": trace[:120]})
    return n[0]


def run(tier, seed):
    rep = C.Report("C10", tier, seed)
    gate = C.proof_gate("C10")
    rng = random.Random(seed)
    nprog, max_subsets = (40, 6) if tier == "quick" else (300, 64)
    with C.Scratch("c10") as scratch:
        from . import implenv
        m = implenv.setup(scratch)
        terms, metas = [], []
        total = 0
        stats = {"programs": 0, "subsets": 0, "batch_nodes": 0, "failing_nodes": 0, "ctx_edges": 0}
        for pi in range(nprog):
            prog = R.gen_program(rng, rng.randint(3, 7))
            root = max(prog)
            ctx = rng.choice([0, 0, 1])
            subs = R.subcalls(prog, root, ctx)
            stats["programs"] += 1
            stats["batch_nodes"] += sum(1 for d in prog.values() if d["batch"])
            stats["failing_nodes"] += sum(1 for d in prog.values() if d["fails"])
            stats["ctx_edges"] += sum(1 for d in prog.values() for _, ov in d["kids"] if ov is not None)
            if len(subs) <= 3 or (tier != "quick" and len(subs) <= 6):
                subsets = [list(c) for r in range(len(subs) + 1) for c in itertools.combinations(subs, r)]
            else:
                subsets = [[], list(subs)] + [[s for s in subs if rng.random() < 0.5] for _ in range(max_subsets - 2)]
            want_inv, want_deps = expected_prov(prog, root, ctx)
            want_out = R.ref_value(prog, root, ctx)
            seen_mementos = []
            for si, subset in enumerate(subsets[:max_subsets]):
                kind = rng.choice(["mem", "fs", "fs_cache", "fs_tinycache"])
                storage = R.make_storage(kind, scratch, "p%d_%d" % (pi, si))
                r = R.Runner(m, scratch, storage)
                order = list(subset)
                rng.shuffle(order)
                for (k, c) in order:
                    r.call(prog, k, c)
                out, execs = r.call(prog, root, ctx)
                mem = r.memento(prog, root, ctx)
                total += 1
                stats["subsets"] += 1
                meta = {"program": prog, "root": [root, ctx], "pre_memoized": order, "backend": kind,
                        "outcome": list(out), "executed": execs, "memento": mem}
                if mem is None:
                    rep.violation("C10:no-memento", "no memento recorded for the root call", meta)
                    continue
                if out != want_out:
                    rep.violation("C10:wrong-outcome", "root returned %r, an un-memoized execution gives %r" % (out, want_out), meta)
                if mem["invocations"] != want_inv:
                    rep.violation("C10:invocations-not-exact", "recorded invocations %r, the body made %r" % (mem["invocations"], want_inv), meta)
                if mem["deps"] != want_deps:
                    rep.violation("C10:dependencies-not-exact", "recorded function dependencies %r, functions invoked beneath the call %r" % (mem["deps"], want_deps), meta)
                seen_mementos.append((mem["invocations"], mem["deps"]))
                terms.append("(%s, %s, (%d, %d), (%s, %s, %s, %s))" % (
                    R.coq_prog(prog), R.coq_keys(order), root, ctx, R.coq_outcome(out), C.coq_list([str(x) for x in execs]),
                    R.coq_keys(mem["invocations"]), C.coq_list([str(x) for x in mem["deps"]])))
                metas.append(meta)
                import shutil
                import os
                shutil.rmtree(os.path.join(scratch, "store-p%d_%d" % (pi, si)), ignore_errors=True)
            if len({repr(x) for x in seen_mementos}) > 1:
                rep.violation("C10:provenance-depends-on-store", "the recorded provenance differs between subsets of pre-memoized sub-calls", {"program": prog, "root": [root, ctx]})
            if len(rep.samples) < 2:
                rep.samples.append({"program": prog, "root": [root, ctx], "subcalls": subs, "subsets_tried": len(subsets[:max_subsets])})
        nconc = concurrent_provenance(m, scratch, rep, 45 if tier == "quick" else 400)
        total += nconc
        # sub-calls made with ignore_result() (singly and as a batch): the caller's record lists them and what lies beneath
        # them exactly as for ordinary sub-calls, whatever subset of them was memoized beforehand
        from . import fnmod as _fm
        from . import fnlib as _fl
        stats["ignore_result_cases"] = 0
        for ii in range(4 if tier == "quick" else 40):
            nk = rng.randint(1, 3)
            form = rng.choice(["single", "batch"])
            base = 500000 + 100 * ii
            grand = {"id": base + 50}
            leaves = [{"id": base + k, "calls": [{"fn": "n2", "spec": grand, "catch": True}]} if k == 0 else {"id": base + k} for k in range(nk)]
            # every other case: the sub-calls are ordinary calls, and some of them fail WITHOUT leaving a memento (an exception
            # that is not to be memoized, a result of a type that cannot be stored); the caller catches the failure
            failing = ii % 2 == 1
            if failing:
                form = "single"
                for k, lf in enumerate(leaves):
                    if k == 1:
                        lf["raise"] = {"cls": "NonMemoized", "msg": "transient"}
                    elif k == 2:
                        lf["ret"] = {"k": "unstorable"}
                if nk == 1:
                    leaves[0]["raise"] = {"cls": "NonMemoized", "msg": "transient"}
            if form == "batch":
                calls = [{"fn": "n1", "batch": leaves, "ignore": True, "catch": True}]
            else:
                calls = [{"fn": "n1", "spec": lf, "ignore": not failing, "catch": True} for lf in leaves]
            # resources (files a body declares it read): the record of a call lists the handles ITS body obtained, whatever
            # was memoized before; here the first leaf and the root each obtain one
            rdir = os.path.join(scratch, "resfiles")
            os.makedirs(rdir, exist_ok=True)
            rfiles = [os.path.join(rdir, "leaf%d.txt" % ii), os.path.join(rdir, "root%d.txt" % ii)]
            for rf_ in rfiles:
                with open(rf_, "w") as fh_:
                    fh_.write("x")
            leaves[0].setdefault("calls", []).append({"resource": rfiles[0]})
            calls = calls + [{"resource": rfiles[1]}]
            rspec = {"id": base + 99, "calls": calls}
            want_inv = [base + k for k in range(nk)]
            want_deps = sorted(["n0", "n1", "n2"])
            subsets = [list(c) for r in range(nk + 1) for c in itertools.combinations(range(nk), r)]
            for si, subset in enumerate(subsets):
                kind = rng.choice(["mem", "fs", "fs_cache"])
                storage = R.make_storage(kind, scratch, "ig%d_%d" % (ii, si))
                _fl.set_env(m, scratch, {"fc": (storage, None)})
                meta = {"root": rspec, "form": form, "pre_memoized": [leaves[k]["id"] for k in subset], "backend": kind, "sub-calls": "some fail without a memento" if failing else "made with ignore_result()"}
                try:
                    for k in subset:
                        try:
                            _fm.n1(leaves[k])
                        except Exception:
                            pass            # a failing leaf leaves nothing behind
                    _fm.n0(rspec)
                    mm = _fm.n0.memento(rspec)
                    total += 1
                    stats["ignore_result_cases"] += 1
                    if mm is None:
                        rep.violation("C10:no-memento", "no memento recorded for the root call", meta)
                        continue
                    inv = []
                    for x in mm.invocation_metadata.invocations:
                        kw = x.effective_kwargs if hasattr(x, "effective_kwargs") else x.kwargs
                        inv.append((kw.get("spec") or (x.args[0] if x.args else {})).get("id"))
                    deps = sorted({d.qualified_name.split(":")[-1].split("#")[0] for d in mm.function_dependencies})
                    meta["memento"] = {"invocations": inv, "deps": deps}
                    got_res = sorted(os.path.basename(h.url) for h in (mm.invocation_metadata.resources or []))
                    meta["memento"]["resources"] = got_res
                    if got_res != [os.path.basename(rfiles[1])]:
                        rep.violation("C10:resources-not-exact", "the root's record lists the resources %r; its body obtained %r" % (got_res, [os.path.basename(rfiles[1])]), meta)
                    if inv != want_inv:
                        rep.violation("C10:invocations-not-exact:ignore-result", "recorded invocations %r, the body made (with ignore_result) %r" % (inv, want_inv), meta)
                    if deps != want_deps:
                        rep.violation("C10:dependencies-not-exact:ignore-result", "recorded function dependencies %r, functions invoked beneath the call %r" % (deps, want_deps), meta)
                except Exception as e:
                    rep.violation("C10:ignore-result-raised", "%s: %s" % (type(e).__name__, str(e)[:200]), meta)
                import shutil as _sh
                _sh.rmtree(os.path.join(scratch, "store-ig%d_%d" % (ii, si)), ignore_errors=True)
        # recorded argument hashes when the arguments are dates / times: each hash the parent's record lists must be the
        # hash of the call the body made and must name that call's memento, also after the record is re-read from disk
        import datetime
        import shutil
        from twosigma.memento.storage_filesystem import FilesystemStorageBackend
        from . import fnlib, fnmod
        zones = [None, datetime.timezone.utc, datetime.timezone(datetime.timedelta(hours=5, minutes=30)), datetime.timezone(datetime.timedelta(hours=-3))]
        stats["datetime_argument_cases"] = 0
        for di in range(6 if tier == "quick" else 60):
            whens = [datetime.datetime(2021, 1 + di % 12, 1 + rng.randrange(28), rng.randrange(24), rng.randrange(60), tzinfo=rng.choice(zones)) for _ in range(rng.randint(1, 4))]
            if rng.random() < 0.3:
                whens.append(datetime.date(2020, 2, 1 + di % 28))
            batch = rng.random() < 0.5
            path = os.path.join(scratch, "dstore%d" % di)
            fnlib.set_env(m, scratch, {"fc": (FilesystemStorageBackend(path=path, memory_cache_mb=rng.choice([None, 1])), None)})
            pre = [i for i in range(len(whens)) if rng.random() < 0.4]
            meta = {"arguments": [w.isoformat() for w in whens], "batch": batch, "pre_memoized": pre}
            try:
                for i in pre:
                    fnmod.dchild(whens[i], tag=i)
                fnmod.dparent(whens, batch=batch)
                want = [fnmod.dchild.fn_reference().with_args(w, tag=i).arg_hash for i, w in enumerate(whens)]
                for label in ("same process", "re-read from disk"):
                    if label != "same process":
                        fnlib.set_env(m, scratch, {"fc": (FilesystemStorageBackend(path=path), None)})
                    mm = fnmod.dparent.memento(whens, batch=batch)
                    got = [x.arg_hash for x in mm.invocation_metadata.invocations] if mm is not None else None
                    if got != want:
                        rep.violation("C10:recorded-argument-hash-wrong:datetime-arguments", "%s: the record lists argument hashes %r, the calls made have %r" % (label, got, want), meta)
                        break
                    missing = [i for i, w in enumerate(whens) if fnmod.dchild.memento(w, tag=i) is None]
                    if missing:
                        rep.violation("C10:recorded-call-names-no-memento", "%s: sub-calls %r have no memento" % (label, missing), meta)
                        break
            except Exception as e:
                rep.violation("C10:datetime-case-raised", "%s: %s" % (type(e).__name__, str(e)[:150]), meta)
            total += 1
            stats["datetime_argument_cases"] += 1
            shutil.rmtree(path, ignore_errors=True)
        try:
            res = C.run_coq_cases("c10", R.HEADER, terms, "run_case", shard=200,
                                  case_type="list (nat * ndef) * list (nat * nat) * (nat * nat) * (outcome * list nat * list key * list nat)")
        except RuntimeError as e:
            rep.broken.append("correspondence C10 (model could not be evaluated): %s" % str(e)[:300])
            res = []
        what = ["outcome", "executed bodies", "invocations", "dependency set"]
        for meta, r in zip(metas, res):
            if r is not None:
                rep.violation("C10:differs-from-runner-model:%s" % what[r].split()[0], "the %s differ from the runner model for this program / pre-memoized subset" % what[r], meta)
        rep.coverage.update({
            "evaluations": total, "distinct_nontrivial": len(set(terms)),
            "rule": "random call DAGs of 3-7 nodes over 4 memento functions (repeated sub-calls, batched sub-calls, failing sub-calls, context overrides on edges), root called under a context; "
                    "all subsets of its transitive sub-calls memoized beforehand when there are few (sampled otherwise), in random order, on memory / filesystem / filesystem+cache backends; "
                    "distinct = distinct (program, subset) cases", "stats": stats, "traces_validated_against_impl": len(terms),
        })
        rep.assumptions = ["bodies make their calls in a fixed order and catch failing sub-calls (the generated bodies do)", "resource handles are covered by a fixed scenario only"]
    return rep.finish(gate)
