"""C05 — every storage backend behaves like one dictionary of memoized calls.
Theorem: the cache layer over a dictionary-like store refines the dictionary (Storage/LayerProofs.v).
Correspondence: generated storage histories on the real filesystem backend (with / without
cache, shared / separate metadata path) and the memory backend; every answer is compared with
the dictionary specification (and, with a cache, with the layer model: usage, residents, store
touches) inside Coq."""
import random

from . import common as C
from . import backend_driver as BD

MKEYS = ["log", "a.b"]
OVERRIDES = ["ov/a", "ov/b", "ovc"]


def gen_history(rng, budget, length, ids, allow_meta=True, with_data_prob=0.0, meta_any=False):
    ops = []
    fns = BD.KEY_FNS
    memoized = set()
    pool = []

    def size_class():
        r = rng.random()
        if r < 0.45:
            return rng.randint(8, 120)
        if r < 0.7:
            return rng.randint(budget // 4, budget // 2)
        if r < 0.85:
            return budget + rng.randint(1, 200)
        return rng.randint(budget // 2, budget)
    for _ in range(length):
        r = rng.random()
        fname, arg = rng.choice(fns), rng.randrange(BD.N_ARGS)
        if memoized and rng.random() < 0.6 and r >= 0.30:
            fname, arg = rng.choice(sorted(memoized))
        if r < 0.30:
            ids[0] += 1
            vk = rng.choice("bbbsnnez")
            ov = rng.choice(OVERRIDES) if rng.random() < 0.15 else None
            if pool and rng.random() < 0.25:
                vk, vid, n = rng.choice(pool)            # the same bytes again, for this or another call
            else:
                vid, n = ids[0], size_class()
                if vk in "bsn":
                    pool.append((vk, vid, n))
            ops.append(["memoize", fname, arg, ids[0], vk, vid, n, ov])
            memoized.add((fname, arg))
        elif r < 0.50:
            ops.append(["read", fname, arg])
        elif r < 0.58:
            ops.append(["getm", fname, arg])
        elif r < 0.66:
            ops.append(["ismem", fname, arg])
        elif r < 0.72:
            ops.append(["fcall", fname, arg])
            memoized.discard((fname, arg))
            if rng.random() < 0.5:
                ops.append([rng.choice(["ismem", "read", "getm"]), fname, arg])
        elif r < 0.76:
            ops.append(["ffn", fname])
            gone = sorted(k for k in memoized if k[0] == fname)
            memoized = {k for k in memoized if k[0] != fname}
            if gone and rng.random() < 0.6:
                ops.append([rng.choice(["ismem", "read", "getm"])] + list(rng.choice(gone)))
        elif r < 0.775:
            ops.append(["fall"])
            memoized = set()
        elif r < 0.83:
            ops.append(["lfns"])
        elif r < 0.89:
            ops.append(["lmems", fname])
        elif r < 0.94 and allow_meta:
            if (fname, arg) in memoized or meta_any:
                ids[0] += 1
                ops.append(["wmeta", fname, arg, rng.choice(MKEYS), ids[0], rng.random() < with_data_prob])
            else:
                ops.append(["rmeta", fname, arg, rng.choice(MKEYS)])
        elif r < 0.97 and allow_meta:
            ops.append(["rmeta", fname, arg, rng.choice(MKEYS)])
        else:
            ops.append(["gc"])
    return ops


# deterministic scenarios, run first on every configuration and compared with the dictionary
# only (metadata stored with the data object makes the backend fetch the memento itself)
SCENARIOS = {
    "meta-plain-then-with-data": [["memoize", "f#1", 0, 9001, "b", 9001, 40, None], ["wmeta", "f#1", 0, "log", 9002, False],
                                  ["rmeta", "f#1", 0, "log"], ["wmeta", "f#1", 0, "log", 9003, True], ["rmeta", "f#1", 0, "log"],
                                  ["wmeta", "f#1", 0, "log", 9004, False], ["rmeta", "f#1", 0, "log"]],
    "meta-with-data-forget": [["memoize", "f#1", 0, 9011, "b", 9011, 40, None], ["wmeta", "f#1", 0, "log", 9012, True],
                              ["rmeta", "f#1", 0, "log"], ["rmeta", "f1#1", 0, "log"], ["fcall", "f#1", 0], ["rmeta", "f#1", 0, "log"]],
    "meta-with-data-rememoize-same-result": [["memoize", "f#1", 0, 9091, "b", 9091, 40, None], ["wmeta", "f#1", 0, "log", 9092, True], ["rmeta", "f#1", 0, "log"],
                                             ["memoize", "f#1", 0, 9093, "b", 9091, 40, None], ["rmeta", "f#1", 0, "log"], ["wmeta", "f#1", 0, "a.b", 9094, False],
                                             ["memoize", "f#1", 0, 9095, "b", 9091, 40, None], ["rmeta", "f#1", 0, "a.b"], ["rmeta", "f#1", 0, "log"]],
    "sibling-calls-equal-metadata-forget-one": [["memoize", "f#1", 0, 9101, "b", 9101, 40, None], ["memoize", "f#1", 1, 9102, "b", 9102, 40, None],
                                                ["wmeta", "f#1", 0, "log", 9103, True], ["wmeta", "f#1", 1, "log", 9104, True],
                                                ["wmeta", "f#1", 0, "a.b", 9105, False], ["wmeta", "f#1", 1, "a.b", 9105, False],
                                                ["fcall", "f#1", 0], ["rmeta", "f#1", 1, "log"], ["rmeta", "f#1", 1, "a.b"], ["read", "f#1", 1], ["rmeta", "f#1", 0, "a.b"],
                                                ["wmeta", "f#1", 1, "a.b", 9106, True], ["rmeta", "f#1", 1, "a.b"], ["lmems", "f#1"]],
    "sibling-calls-shared-override-metadata": [["memoize", "f#1", 0, 9111, "b", 9111, 40, "ov/a"], ["memoize", "f#1", 1, 9112, "b", 9111, 40, "ov/a"],
                                               ["wmeta", "f#1", 0, "log", 9113, True], ["wmeta", "f#1", 1, "log", 9114, True],
                                               ["rmeta", "f#1", 0, "log"], ["rmeta", "f#1", 1, "log"], ["fcall", "f#1", 1], ["rmeta", "f#1", 0, "log"],
                                               ["read", "f#1", 0], ["rmeta", "f#1", 1, "log"], ["lmems", "f#1"]],
    "rememoize-identical-object": [["memoize", "f#1", 0, 9121, "B", 9121, 40, None], ["getm", "f#1", 0], ["read", "f#1", 0],
                                   ["memoize", "f#1", 0, 9122, "B", 9121, 40, "ov/a"], ["getm", "f#1", 0], ["lmems", "f#1"], ["read", "f#1", 0],
                                   ["memoize", "f#1", 0, 9123, "B", 9121, 40, None], ["getm", "f#1", 0], ["wmeta", "f#1", 0, "log", 9124, True], ["rmeta", "f#1", 0, "log"],
                                   ["memoize", "g#1", 1, 9125, "B", 9121, 40, None], ["getm", "g#1", 1], ["getm", "f#1", 0]],
    "metadata-keys-that-are-prefixes": [["memoize", "f#1", 0, 9131, "b", 9131, 40, None], ["wmeta", "f#1", 0, "log", 9132, False], ["wmeta", "f#1", 0, "logs", 9133, False],
                                        ["wmeta", "f#1", 0, "log.x", 9134, False], ["wmeta", "f#1", 0, "lo", 9135, True], ["wmeta", "f#1", 0, "log", 9136, True],
                                        ["rmeta", "f#1", 0, "logs"], ["rmeta", "f#1", 0, "log.x"], ["rmeta", "f#1", 0, "lo"], ["rmeta", "f#1", 0, "log"],
                                        ["wmeta", "f#1", 0, "lo", 9137, False], ["rmeta", "f#1", 0, "log"], ["rmeta", "f#1", 0, "logs"], ["rmeta", "f#1", 0, "log.x"],
                                        ["wmeta", "f#1", 0, "logs", 9138, True], ["rmeta", "f#1", 0, "log"], ["rmeta", "f#1", 0, "logs"], ["rmeta", "f#1", 0, "lo"]],
    "oversize-rememoize": [["memoize", "f#1", 0, 9021, "b", 9021, 100, None], ["read", "f#1", 0],
                           ["memoize", "f#1", 0, 9022, "b", 9022, 9000, None], ["read", "f#1", 0]],
    "stale-weakref": [["memoize", "f#1", 0, 9031, "n", 9031, 200, None], ["memoize", "f#1", 0, 9032, "b", 9032, 200, None],
                      ["memoize", "g#1", 0, 9033, "b", 9033, 3900, None], ["read", "f#1", 0]],
    "lookup-then-list": [["read", "g#1", 2], ["lfns"], ["memoize", "g#1", 2, 9041, "b", 9041, 30, None], ["fcall", "g#1", 2], ["lfns"],
                         ["memoize", "f#1", 1, 9042, "b", 9042, 30, None], ["ffn", "f#1"], ["lfns"], ["lmems", "f#1"]],
    "forget-fn-weakref-oversize": [["memoize", "f#1", 0, 9061, "n", 9061, 9000, None], ["ffn", "f#1"], ["ismem", "f#1", 0], ["read", "f#1", 0]],
    "forget-call-weakref-oversize": [["memoize", "f#1", 0, 9062, "n", 9062, 9000, None], ["fcall", "f#1", 0], ["ismem", "f#1", 0], ["read", "f#1", 0]],
    "forget-all-weakref-oversize": [["memoize", "f#1", 0, 9063, "n", 9063, 9000, None], ["fall"], ["ismem", "f#1", 0], ["read", "f#1", 0]],
    "forget-fn-weakref-evicted": [["memoize", "f#1", 0, 9064, "n", 9064, 2000, None], ["memoize", "g#1", 0, 9065, "b", 9065, 3000, None],
                                  ["ffn", "f#1"], ["ismem", "f#1", 0], ["read", "f#1", 0], ["read", "g#1", 0]],
    "forget-call-weakref-evicted": [["memoize", "f#1", 0, 9066, "n", 9066, 2000, None], ["memoize", "g#1", 0, 9067, "b", 9067, 3000, None],
                                    ["fcall", "f#1", 0], ["ismem", "f#1", 0], ["read", "f#1", 0]],
    "same-bytes-after-forget-everything": [["memoize", "f#1", 1, 9071, "b", 9071, 9000, None], ["fall"], ["memoize", "f#10", 2, 9072, "b", 9071, 9000, None],
                                           ["ismem", "f#10", 2], ["read", "f#10", 2], ["memoize", "g#1", 0, 9073, "s", 9074, 60, None], ["fall"],
                                           ["memoize", "g#1", 1, 9075, "s", 9074, 60, None], ["gc"], ["read", "g#1", 1]],
    "same-bytes-after-forget-function": [["memoize", "f#1", 1, 9081, "b", 9081, 9000, None], ["ffn", "f#1"], ["memoize", "f1#1", 2, 9082, "b", 9081, 9000, None],
                                         ["read", "f1#1", 2], ["fcall", "f1#1", 2], ["memoize", "f#1", 0, 9083, "b", 9081, 9000, None], ["read", "f#1", 0]],
    "prefix-names": [["memoize", "f#1", 0, 9051, "b", 9051, 30, None], ["memoize", "f#10", 0, 9052, "b", 9052, 30, None],
                     ["memoize", "f1#1", 0, 9053, "b", 9053, 30, None], ["ffn", "f#1"], ["read", "f#10", 0], ["read", "f1#1", 0],
                     ["read", "f#1", 0], ["lfns"], ["fcall", "f#10", 0], ["read", "f1#1", 0], ["lmems", "f1#1"]],
}


def sweep_ops():
    ops = [["lfns"]]
    for f in BD.KEY_FNS:
        ops.append(["lmems", f])
        for a in range(BD.N_ARGS):
            ops += [["ismem", f, a], ["getm", f, a], ["read", f, a]]
            for mk in MKEYS:
                ops.append(["rmeta", f, a, mk])
    return ops


def run_history(m, scratch, config, budget, ops, tag):
    d = BD.Driver(m, scratch, config, budget, tag=tag)
    recs = []
    for op in ops:
        r = d.apply(list(op))
        if r is None:
            continue
        recs.append(r)
    # listings with a limit: exactly min(limit, live entries) entries of the function, whatever else (custom metadata ...)
    # lives next to them
    d.limited_listing_problems = []
    if not any(r["exc"] for r in recs):
        try:
            for fname in BD.KEY_FNS:
                full = len(d.b.list_mementos(d.frefs[fname]))
                for k in (1, 2, 3):
                    got = len(d.b.list_mementos(d.frefs[fname], limit=k))
                    if got != min(k, full):
                        d.limited_listing_problems.append("list_mementos(%s, limit=%d) returned %d entries; %d are live" % (fname, k, got, full))
        except Exception as e:
            d.limited_listing_problems.append("list_mementos with a limit raised %s: %s" % (type(e).__name__, str(e)[:100]))
    import shutil
    shutil.rmtree(d.root, ignore_errors=True)
    return d, recs


def case_term(config, budget, nsz, recs, dict_only=False):
    if "cache" in config and not dict_only:
        return "(%s, %s, %s)" % (C.coq_z(budget), C.coq_z(nsz), C.coq_list([BD.step_term_layer(r) for r in recs]))
    return C.coq_list([BD.step_term_dict(r) for r in recs])


def checker(config):
    return "lcase" if "cache" in config else "dcase"


def evaluate(m, scratch, config, budget, oplists, tagbase, dict_only=False):
    """run implementation on each op list and the model on the traces; returns list of
    (failure or None, recs)"""
    out = []
    terms = []
    for i, ops in enumerate(oplists):
        d, recs = run_history(m, scratch, config, budget, ops, "%s%d" % (tagbase, i))
        exc = next((j for j, r in enumerate(recs) if r["exc"]), None)
        if exc is None and d.limited_listing_problems:
            out.append([("limited-listing", len(recs) - 1, d.limited_listing_problems[0]), recs, d.nsz])
            terms.append(case_term(config, budget, d.nsz, recs, dict_only))
            continue
        if exc is not None:
            out.append([("exception", exc, recs[exc]["exc"]), recs, d.nsz])
            recs_for_model = recs[:exc]
        else:
            out.append([None, recs, d.nsz])
            recs_for_model = recs
        terms.append(case_term(config, budget, d.nsz, recs_for_model, dict_only))
    layer = "cache" in config and not dict_only
    res = C.run_coq_cases("c05" + tagbase, BD.HEADER, terms, "lcase" if layer else "dcase",
                          case_type="Z * Z * list lrec" if layer else "list (bop * bout)")
    for o, r in zip(out, res):
        if r is not None:
            if layer:
                i, why = divmod(r, 3)
                kind = ["answer", "cache-accounting", "store-touched-on-cached-read"][why]
            else:
                i, kind = r, "answer"
            if o[0] is None or i <= o[0][1]:
                o[0] = (kind, i, None)
    return out


def classify(config, kind, recs, i):
    op = recs[i]["op"][0] if i < len(recs) else "?"
    return "C05:%s:%s:%s" % ("cache" if "cache" in config else ("mem" if config == "mem" else "fs"), kind, op)


def run(tier, seed, prop="C05"):
    rep = C.Report(prop, tier, seed)
    gate = C.proof_gate(prop)
    rng = random.Random(seed)
    n_hist, length = (40, 30) if tier == "quick" else (400, 70)
    with C.Scratch("c05") as scratch:
        from . import implenv
        m = implenv.setup(scratch)
        ids = [0]
        total, nontriv = 0, set()
        dist = {}
        fails = []
        for config in BD.Driver.CONFIGS:
            budgets = [4096, 2048, 16384] if "cache" in config else [4096]
            names = sorted(SCENARIOS)
            res = evaluate(m, scratch, config, 4096, [SCENARIOS[n] + sweep_ops() for n in names], config + "sc", dict_only=True)
            for n, (fail, recs, nsz) in zip(names, res):
                total += 1
                if fail is not None:
                    kind, i, msg = fail
                    rep.violation("C05:scenario:%s:%s" % (n, "cache" if "cache" in config else ("mem" if config == "mem" else "fs")),
                                  "backend %s, scenario %s: %s at step %d%s" % (config, n, kind, i, (" (%s)" % msg) if msg else ""),
                                  {"config": config, "budget": 4096, "ops": SCENARIOS[n], "dict_only": True,
                                   "implementation_trace": [(r["term"], r["out"], r.get("exc")) for r in recs[:i + 1]][-6:]})
            oplists, metas = [], []
            for h in range(n_hist if config in ("fs_cache", "fs", "mem") else max(8, n_hist // 3)):
                budget = rng.choice(budgets)
                ops = gen_history(rng, budget, rng.randint(5, length), ids) + sweep_ops()
                oplists.append(ops)
                metas.append(budget)
            # all histories of one config share a budget per evaluate() call: group by budget
            for budget in sorted(set(metas)):
                idx = [i for i, b in enumerate(metas) if b == budget]
                res = evaluate(m, scratch, config, budget, [oplists[i] for i in idx], config)
                for i, (fail, recs, nsz) in zip(idx, res):
                    total += 1
                    for r in recs:
                        dist[r["op"][0]] = dist.get(r["op"][0], 0) + 1
                    if sum(1 for r in recs if r["op"][0] in ("fcall", "ffn", "fall")) >= 1 and \
                            sum(1 for r in recs if r["op"][0] == "memoize") >= 2:
                        nontriv.add(hash(tuple(r["term"] for r in recs)))
                    if len(rep.samples) < 3:
                        rep.samples.append({"config": config, "budget": budget, "ops": oplists[i][:10]})
                    if fail is not None:
                        fails.append((config, budget, oplists[i], fail, recs))
        seen = set()
        for config, budget, ops, fail, recs in fails:
            kind, i, msg = fail
            sig = classify(config, kind, recs, i)
            if sig in seen:
                continue
            seen.add(sig)
            # shrink: keep the failing prefix, then remove operations while the same kind of failure remains
            prefix = [r["op"] for r in recs[:i + 1]]

            def still(cands):
                res = evaluate(m, scratch, config, budget, cands, "shr")
                return [f is not None and classify(config, f[0], rc, f[1]) == sig for (f, rc, _) in res]
            small = C.shrink_ops(prefix, still)
            (f2, rc2, _), = evaluate(m, scratch, config, budget, [small], "fin")
            rep.violation(sig, "backend %s: %s at the last step of this history%s" % (
                config, kind, (" (%s)" % msg) if msg else ""),
                {"config": config, "budget": budget, "ops": small,
                 "implementation_trace": [(r["term"], r["out"], r.get("exc")) for r in rc2][-6:]})
        rep.coverage.update({
            "evaluations": total, "distinct_nontrivial": len(nontriv),
            "rule": "random storage histories (memoize with/without key override, read via fresh memento, get memento, is-memoized, forget call/function/everything, "
                    "list functions/mementos, write/read custom metadata incl. stored-with-data, gc) over function references f#1,f#10,f1#1,g#1 x 3 argument hashes, "
                    "values bytes/str/int8-array/exception/None in size classes small/medium/oversize, each followed by a sweep over the whole key alphabet; "
                    "configurations %s; non-trivial = at least two memoizes and one forget; every answer compared inside Coq with the dictionary spec "
                    "(and with the cache-layer model: usage, resident set, store touches)" % (list(BD.Driver.CONFIGS),),
            "distribution": dist, "failing_histories": len(fails), "traces_validated_against_impl": total,
        })
        rep.assumptions = ["pickle round-trip preserves the value identifiers embedded in the generated values",
                           "qualified names contain no '/' (hypothesis wfop of the theorem; true of module:function#version names over the C12 alphabet)",
                           "the data-source stack under the cache is represented by its dictionary specification in the theorem; its behaviour is checked here by differential execution"]
    return rep.finish(gate)
