"""C14 — the static dependency closure is exact and calls outside it are refused.
Theorems: Version/RulesProofs.v (collect = reachability; transitive / direct exact).
Correspondence: reference graphs over N nodes of kinds {memento, pinned memento, plain}, exhaustively for small
N (every kind assignment x every edge set incl. self loops and cycles) and randomly beyond, with
reference forms {bare name, module attribute, alias, decorator-wrapped} and hidden dynamic call
edges; the reported transitive / direct sets, the function rule keys and the dependency data
frame are compared with the Coq model and with plain reachability; hidden calls must raise the
undeclared-dependency error, invoked directly and through each modifier."""
import importlib
import itertools
import os
import random
import sys

from . import common as C

HEADER = """From Coq Require Import List Arith Bool.
From Memento Require Import Version.Rules.
Import ListNotations.
"""

CL = "g14"
FORMS = ["bare", "attr", "alias", "wrapped", "inarg", "inarg-attr", "wrapped-class", "wrapped-lru"]


def render_graph(pkg, name, kinds, edges, forms, hidden):
    """kinds: list of 'm'/'p'; edges: set of (i, j); node i lives in module <name> unless form 'attr' targets,
    which are re-exported through the sibling module <name>_x"""
    lines = ["import functools", "from twosigma.memento import memento_function", "from . import %s_x" % name, "", "def _idn(v):", "    return v", "",
             "class _Wrap:", "    \"\"\"a class-based decorator: an object (not a function) that carries __wrapped__\"\"\"", "    def __init__(self, f):",
             "        functools.update_wrapper(self, f)", "        self._f = f", "    def __call__(self, *a, **k):", "        return self._f(*a, **k)", ""]
    n = len(kinds)
    # definitions first, bodies refer to names resolved at call time
    for i, k in enumerate(kinds):
        if k == "m":
            lines.append("@memento_function(cluster=%r)" % CL)
        elif k == "v":
            lines.append("@memento_function(cluster=%r, version='pin%d')" % (CL, i))
        lines.append("def n%d(x, fa=None):" % i)
        lines.append("    if x <= 0:")
        lines.append("        return %d" % (i + 1))
        lines.append("    r = %d" % (i + 1))
        for j in range(n):
            if (i, j) in edges:
                form = forms.get((i, j), "bare")
                if form in ("inarg", "inarg-attr"):
                    # the reference sits in the argument of a call whose result is then dereferenced: _idn(n(x - 1)).real
                    inner = ("n%d" % j) if form == "inarg" else ("%s_x.n%d" % (name, j))
                    lines.append("    r += _idn(%s(x - 1)).real" % inner)
                    continue
                if form in ("wrapped-class", "wrapped-lru") and kinds[j] == "p":
                    form = "bare"          # these wrappers are used around memento functions
                ref = {"bare": "n%d" % j, "attr": "%s_x.n%d" % (name, j), "alias": "al%d_%d" % (i, j), "wrapped": "wr%d_%d" % (i, j),
                       "wrapped-class": "wc%d_%d" % (i, j), "wrapped-lru": "wl%d_%d" % (i, j)}[form]
                lines.append("    r += %s(x - 1)" % ref)
        lines.append("    if fa is not None:")
        lines.append("        r += (fa[0] if isinstance(fa, list) else fa['k'] if isinstance(fa, dict) else fa)(0)")
        if i in hidden:
            lines.append("    if fa is None:")
            # the hidden edge is exercised through one of the three call forms (chosen by the node number, so that all occur)
            hform = (i + hidden[i]) % 3
            if hform == 0:
                lines.append("        r += globals()['n%d'](x - 1)" % hidden[i])
            elif hform == 1:
                lines.append("        r += globals()['n%d'].call_batch([{'x': x - 1}])[0]" % hidden[i])
            else:
                lines.append("        r += globals()['n%d'].map_over_range(x=[x - 1])[x - 1]" % hidden[i])
        lines.append("    return r")
        lines.append("")
    for (i, j), form in sorted(forms.items()):
        if (i, j) in edges:
            if form == "alias":
                lines.append("al%d_%d = n%d" % (i, j, j))
            elif form == "wrapped":
                lines.append("wr%d_%d = functools.wraps(n%d)(lambda *a, **k: n%d(*a, **k))" % (i, j, j, j))
            elif form == "wrapped-class" and kinds[j] != "p":
                lines.append("wc%d_%d = _Wrap(n%d)" % (i, j, j))
            elif form == "wrapped-lru" and kinds[j] != "p":
                lines.append("wl%d_%d = functools.lru_cache(maxsize=None)(n%d)" % (i, j, j))
    lines.append("for _i in range(%d):" % n)
    lines.append("    setattr(%s_x, 'n%%d' %% _i, globals()['n%%d' %% _i])" % name)
    return "\n".join(lines) + "\n"


def reach(kinds, edges, root):
    """nodes reachable from root through any function node (all plain helpers are in package scope)"""
    seen, todo = {root}, [root]
    while todo:
        a = todo.pop()
        for (i, j) in edges:
            if i == a and j not in seen:
                seen.add(j)
                todo.append(j)
    return seen


def expected(kinds, edges, root):
    r = reach(kinds, edges, root)
    # a node is in the closure if some edge leads to it from a reached node
    targets = {j for (i, j) in edges if i in r}
    trans = sorted(j for j in targets if kinds[j] in "mv" and j != root)
    direct = sorted(j for (i, j) in edges if i == root and kinds[j] in "mv" and j != root)
    return trans, direct


def name_to_id(qn):
    base = qn.split(":")[-1]
    return int(base[1:]) if base.startswith("n") and base[1:].isdigit() else None


def parse_rule_key(key):
    kind, parent, target = key.split(";")
    if kind not in ("MementoFunction", "Function"):
        return None
    t = name_to_id(target)
    if t is None:
        return None
    if parent == "None":
        par = None
    else:
        par = name_to_id(parent)
        if par is None:
            return None
    return ("KM" if kind == "MementoFunction" else "KF", par, t)


def coq_case(kinds, edges, root, trans, direct, rules):
    tab = []
    for i, k in enumerate(kinds):
        refs = C.coq_list([str(j) for j in range(len(kinds)) if (i, j) in edges])
        sk = "SMemento None" if k == "m" else "SMemento (Some %d)" % i if k == "v" else "SPlain true"
        tab.append("(%d, {| s_kind := %s; s_code := %d; s_defaults := 0; s_refs := %s |})" % (i, sk, i + 1, refs))
    rk = C.coq_list(["(%s, %s, %d)" % (k, "None" if p is None else "Some %d" % p, t) for (k, p, t) in rules])
    return "(%s, %d, (%s, %s, %s))" % (C.coq_list(tab), root, C.coq_list(map(str, trans)), C.coq_list(map(str, direct)), rk)


def run(tier, seed):
    rep = C.Report("C14", tier, seed)
    gate = C.proof_gate("C14")
    rng = random.Random(seed)
    with C.Scratch("c14") as scratch:
        from . import implenv
        m = implenv.setup(scratch)
        from twosigma.memento.exception import UndeclaredDependencyError
        from twosigma.memento.storage_memory import MemoryStorageBackend
        from . import fnlib
        fnlib.set_env(m, scratch, {CL: (MemoryStorageBackend(), None)})
        pkg = "g14pkg"
        pdir = os.path.join(scratch, pkg)
        os.makedirs(pdir)
        open(os.path.join(pdir, "__init__.py"), "w").close()
        sys.path.insert(0, scratch)
        graphs = []
        exhaustive_n = 2 if tier == "quick" else 3
        for n in range(1, exhaustive_n + 1):
            pairs = [(i, j) for i in range(n) for j in range(n)]
            for kinds in itertools.product("mpv" if n <= 2 else "mp", repeat=n):
                if "m" not in kinds and "v" not in kinds:
                    continue
                for mask in range(1 << len(pairs)):
                    edges = {pairs[b] for b in range(len(pairs)) if mask >> b & 1}
                    graphs.append((list(kinds), edges, {}, {}))
        n_exh = len(graphs)
        for _ in range(120 if tier == "quick" else 1500):
            n = rng.randint(3, 6)
            kinds = [rng.choice("mmmppv") for _ in range(n)]
            if "m" not in kinds:
                kinds[0] = "m"
            edges = {(i, j) for i in range(n) for j in range(n) if rng.random() < 0.28}
            forms = {e: rng.choice(FORMS) for e in edges if rng.random() < 0.5}
            hidden = {}
            for i in range(n):
                if kinds[i] == "m" and rng.random() < 0.3:
                    ms = [j for j in range(n) if kinds[j] in "mv" and j != i]
                    if ms:
                        hidden[i] = rng.choice(ms)
            graphs.append((kinds, edges, forms, hidden))
        terms, metas = [], []
        stats = {"graphs": len(graphs), "exhaustive_graphs": n_exh, "roots": 0, "cyclic": 0, "hidden_edges": 0, "hidden_refused": 0, "hidden_allowed_in_closure": 0}
        for gi, (kinds, edges, forms, hidden) in enumerate(graphs):
            name = "g%d" % gi
            with open(os.path.join(pdir, name + "_x.py"), "w") as f:
                f.write("")
            with open(os.path.join(pdir, name + ".py"), "w") as f:
                f.write(render_graph(pkg, name, kinds, edges, forms, hidden))
            try:
                importlib.invalidate_caches()
                mod = importlib.import_module("%s.%s" % (pkg, name))
            except Exception as e:
                rep.violation("C14:import-failed", "%s: %s" % (type(e).__name__, str(e)[:200]), {"kinds": kinds, "edges": sorted(edges)})
                continue
            eff_edges = set(edges)
            if any(i in reach(kinds, edges, i) - {i} or (i, i) in edges for i in range(len(kinds))):
                stats["cyclic"] += 1
            for root in range(len(kinds)):
                if kinds[root] == "p":
                    continue
                stats["roots"] += 1
                fn = getattr(mod, "n%d" % root)
                meta = {"kinds": kinds, "edges": sorted(edges), "forms": {"%d->%d" % k: v for k, v in forms.items()}, "hidden": hidden, "root": root}
                try:
                    g = fn.dependencies()
                    trans = sorted(name_to_id(x.qualified_name_without_version) for x in g.transitive_memento_fn_dependencies())
                    direct = sorted(name_to_id(x.qualified_name_without_version) for x in g.direct_memento_fn_dependencies())
                    rules = [r for r in (parse_rule_key(r.key) for r in fn.hash_rules()) if r is not None]
                except Exception as e:
                    rep.violation("C14:dependencies-raised", "%s: %s" % (type(e).__name__, str(e)[:200]), meta)
                    continue
                wt, wd = expected(kinds, eff_edges, root)
                if trans != wt:
                    rep.violation("C14:transitive-not-exact", "reported transitive memento dependencies %r, reachable memento functions %r" % (trans, wt), meta)
                if direct != wd:
                    rep.violation("C14:direct-not-exact", "reported direct memento dependencies %r, memento functions named in the body %r" % (direct, wd), meta)
                try:
                    df = g.df()
                    got_edges = sorted({(name_to_id(a), name_to_id(b)) for a, b in zip(df["src"], df["target"])}) if len(df) else []
                    want_edges = set()
                    for a in [root] + wt:
                        # memento functions reached from a without passing through another memento function
                        seen, todo = set(), [a]
                        while todo:
                            u = todo.pop()
                            for (i, j) in eff_edges:
                                if i == u and j not in seen:
                                    seen.add(j)
                                    if kinds[j] == "p":
                                        todo.append(j)
                        for j in seen:
                            if kinds[j] in "mv" and j != a:
                                want_edges.add((a, j))
                    if got_edges != sorted(want_edges):
                        rep.violation("C14:graph-edges-not-exact", "dependency graph edges %r, expected %r" % (got_edges, sorted(want_edges)), meta)
                except Exception as e:
                    rep.violation("C14:df-raised", "%s: %s" % (type(e).__name__, str(e)[:150]), meta)
                terms.append(coq_case(kinds, eff_edges, root, trans, direct, rules))
                metas.append(meta)
                # enforcement
                if root in hidden and kinds[root] == "m":
                    stats["hidden_edges"] += 1
                    tgt = hidden[root]
                    in_closure = tgt in wt
                    for hi, how in enumerate(("direct", "force_local", "ignore_result", "with_context_args", "partial")):
                        f2 = {"direct": fn, "force_local": fn.force_local(), "ignore_result": fn.ignore_result(),
                              "with_context_args": fn.with_context_args({"z": gi}), "partial": fn.partial(x=7)}[how]
                        for j, kj in enumerate(kinds):          # nothing is replayed from the store
                            if kj in "mv":
                                getattr(mod, "n%d" % j).forget_all()
                        try:
                            f2(hi + 1) if how != "partial" else f2()
                            raised = None
                        except UndeclaredDependencyError:
                            raised = "Undeclared"
                        except Exception as e:
                            raised = type(e).__name__
                        # an undeclared call somewhere beneath also refuses the whole call
                        expect_refusal = any((kinds[i] == "m" and i in hidden and hidden[i] not in expected(kinds, eff_edges, i)[0] and hidden[i] != i)
                                             for i in ({root} | set(wt)))
                        if not in_closure and raised != "Undeclared":
                            sig = "C14:hidden-call-not-refused:%s" % how
                            rep.violation(sig, "a call outside the static closure (n%d -> n%d), invoked %s, %s instead of raising the undeclared-dependency error" % (
                                root, tgt, how, "returned" if raised is None else "raised " + raised), meta)
                        elif in_closure and raised == "Undeclared" and not expect_refusal:
                            rep.violation("C14:declared-call-refused:%s" % how, "a call inside the static closure was refused", meta)
                        if how == "direct":
                            if not in_closure and raised == "Undeclared":
                                stats["hidden_refused"] += 1
                            if in_closure:
                                stats["hidden_allowed_in_closure"] += 1
                    # a memento function passed as an argument may be called; this must not license later calls
                    if not in_closure:
                        tfn = getattr(mod, "n%d" % tgt)
                        shape = rng.choice(["fn", "list", "dict"])
                        arg = {"fn": tfn, "list": [tfn], "dict": {"k": tfn}}[shape]
                        try:
                            for j, kj in enumerate(kinds):
                                if kj in "mv":
                                    getattr(mod, "n%d" % j).forget_all()
                            fn(1, fa=arg) if rng.random() < 0.5 else fn.with_context_args({"w": 1})(1, fa=arg)
                            r1 = None
                        except Exception as e:
                            r1 = type(e).__name__
                        if r1 is not None:
                            rep.violation("C14:function-argument-call-refused", "calling a memento function received as an argument (%s) raised %s" % (shape, r1), meta)
                        stats["argument_calls"] = stats.get("argument_calls", 0) + 1
                        try:
                            fn(1)
                            r2 = None
                        except UndeclaredDependencyError:
                            r2 = "Undeclared"
                        except Exception as e:
                            r2 = type(e).__name__
                        if r2 == "Undeclared":
                            # the same call again (nothing forgotten in between): the refusal is what the caller gets every time
                            try:
                                fn(1)
                                r3 = "returned"
                            except UndeclaredDependencyError:
                                r3 = None
                            except Exception as e:
                                r3 = "raised " + type(e).__name__
                            stats["repeated_refusals"] = stats.get("repeated_refusals", 0) + 1
                            if r3 is not None:
                                rep.violation("C14:hidden-call-not-refused:repeated-call", "the hidden call (n%d -> n%d) got the undeclared-dependency error on the first call; the same call repeated %s" % (root, tgt, r3), meta)
                        if r2 != "Undeclared":
                            rep.violation("C14:hidden-call-not-refused:after-argument-call", "after the target had once been passed as an argument, a later hidden call (n%d -> n%d) %s instead of raising the undeclared-dependency error" % (
                                root, tgt, "returned" if r2 is None else "raised " + r2), meta)
            if len(rep.samples) < 2 and len(kinds) > 2:
                rep.samples.append({"kinds": kinds, "edges": sorted(edges), "forms": {"%d->%d" % k: v for k, v in forms.items()}, "hidden": hidden})
        # a hidden call BACK to a function that is already executing further up the stack (outside the caller's closure):
        # the edge caller -> callee is what is validated, whoever else called the callee before
        BACK = [("mm", {(0, 1)}, {1: 0}, 0), ("mpm", {(0, 1), (1, 2)}, {2: 0}, 0), ("mmm", {(0, 1), (1, 2)}, {2: 0}, 0),
                ("mmm", {(0, 1), (1, 2)}, {2: 1}, 0), ("mvm", {(0, 1), (0, 2)}, {2: 0}, 0), ("mmm", {(0, 1), (1, 2), (2, 2)}, {2: 0}, 0)]
        for bi, (ks, edges, hidden, root) in enumerate(BACK):
            kinds = list(ks)
            name = "b%d" % bi
            with open(os.path.join(pdir, name + "_x.py"), "w") as f:
                f.write("")
            with open(os.path.join(pdir, name + ".py"), "w") as f:
                f.write(render_graph(pkg, name, kinds, edges, {}, hidden))
            meta = {"kinds": kinds, "edges": sorted(edges), "hidden": hidden, "root": root}
            stats["hidden_back_calls"] = stats.get("hidden_back_calls", 0) + 1
            try:
                importlib.invalidate_caches()
                mod = importlib.import_module("%s.%s" % (pkg, name))
                src = next(iter(hidden))
                assert hidden[src] not in expected(kinds, edges, src)[0]
                for form in ("direct", "batch"):
                    for j, kj in enumerate(kinds):
                        if kj in "mv":
                            getattr(mod, "n%d" % j).forget_all()
                    try:
                        fn = getattr(mod, "n%d" % root)
                        fn(5) if form == "direct" else fn.call_batch([{"x": 5}])
                        raised = None
                    except UndeclaredDependencyError:
                        raised = "Undeclared"
                    except Exception as e:
                        raised = type(e).__name__
                    if raised != "Undeclared":
                        rep.violation("C14:hidden-call-not-refused:back-to-ancestor", "n%d (automatic version) calls n%d, which is outside its closure and already executing further up the stack: the call %s instead of raising the undeclared-dependency error"
                                      % (src, hidden[src], "returned" if raised is None else "raised " + raised), meta)
            except Exception as e:
                rep.violation("C14:back-call-scenario-raised", "%s: %s" % (type(e).__name__, str(e)[:200]), meta)
        # memento functions defined in a package's __init__ module: the "same package" of their plain helpers is the package
        # itself (not its parent)
        try:
            base = os.path.join(scratch, "initpk")
            files = {
                "shop14/__init__.py": "from twosigma.memento import memento_function\nfrom . import helpers\n\n@memento_function(cluster=%r)\ndef front(x):\n    return helpers.assist(x)\n" % CL,
                "shop14/helpers.py": "from . import rates\n\ndef assist(x):\n    return rates.rate(x) + 1\n",
                "shop14/rates.py": "from twosigma.memento import memento_function\n\n@memento_function(cluster=%r)\ndef rate(x):\n    return 5\n" % CL,
                "corp14/__init__.py": "",
                "corp14/tools.py": "from . import data\n\ndef tool(x):\n    return data.dat(x)\n",
                "corp14/data.py": "from twosigma.memento import memento_function\n\n@memento_function(cluster=%r)\ndef dat(x):\n    return 7\n" % CL,
                "corp14/sub/__init__.py": "from twosigma.memento import memento_function\nfrom .. import tools\n\n@memento_function(cluster=%r)\ndef inner(x):\n    return tools.tool(x)\n" % CL,
            }
            for rel, body in files.items():
                os.makedirs(os.path.dirname(os.path.join(base, rel)), exist_ok=True)
                with open(os.path.join(base, rel), "w") as f:
                    f.write(body)
            sys.path.insert(0, base)
            importlib.invalidate_caches()
            shop = importlib.import_module("shop14")
            sub = importlib.import_module("corp14.sub")
            t1 = sorted(x.qualified_name_without_version.split(":")[-1] for x in shop.front.dependencies().transitive_memento_fn_dependencies())
            t2 = sorted(x.qualified_name_without_version.split(":")[-1] for x in sub.inner.dependencies().transitive_memento_fn_dependencies())
            meta = {"layout": sorted(files)}
            stats["init_module_cases"] = 2
            if t1 != ["rate"]:
                rep.violation("C14:transitive-not-exact:init-module", "a memento function in shop14/__init__.py uses a plain helper of its own package that uses shop14.rates.rate: reported transitive dependencies %r" % (t1,), meta)
            else:
                try:
                    if shop.front(1) != 6:
                        rep.violation("C14:declared-call-refused:init-module", "front(1) returned a wrong value", meta)
                except UndeclaredDependencyError:
                    rep.violation("C14:declared-call-refused:init-module", "a call inside the static closure (through a helper of the package's __init__ module) was refused", meta)
            if t2 != []:
                rep.violation("C14:transitive-not-exact:init-module", "a memento function in corp14/sub/__init__.py uses a plain helper of the PARENT package: reported transitive dependencies %r, expected none (the helper is outside its package)" % (t2,), meta)
            else:
                try:
                    sub.inner(1)
                    rep.violation("C14:hidden-call-not-refused:init-module", "a call outside the static closure (reached through a helper of another package) returned instead of raising the undeclared-dependency error", meta)
                except UndeclaredDependencyError:
                    pass
            # a memento function of ANOTHER package named through its module (`from libpkg14 import lib; lib.leaf(x)`), directly and
            # inside a plain helper of the caller's package, beside the bare-name form (`from libpkg14.lib import leaf`)
            files2 = {
                "libpkg14/__init__.py": "",
                "libpkg14/lib.py": "from twosigma.memento import memento_function\n\n@memento_function(cluster=%r)\ndef leaf(x):\n    return x + 1\n\n@memento_function(cluster=%r)\ndef leaf2(x):\n    return x + 2\n" % (CL, CL),
                "apppkg14/__init__.py": "",
                "apppkg14/main.py": ("from twosigma.memento import memento_function\nfrom libpkg14 import lib\nfrom libpkg14.lib import leaf2\nimport libpkg14.lib\n\n"
                                     "def helper(x):\n    return lib.leaf(x) * 2\n\n"
                                     "@memento_function(cluster=%r)\ndef by_module(x):\n    return lib.leaf(x)\n\n"
                                     "@memento_function(cluster=%r)\ndef by_name(x):\n    return leaf2(x)\n\n"
                                     "@memento_function(cluster=%r)\ndef by_helper(x):\n    return helper(x)\n\n"
                                     "@memento_function(cluster=%r)\ndef by_dotted(x):\n    return libpkg14.lib.leaf2(x)\n") % (CL, CL, CL, CL),
            }
            for rel, body in files2.items():
                os.makedirs(os.path.dirname(os.path.join(base, rel)), exist_ok=True)
                with open(os.path.join(base, rel), "w") as f:
                    f.write(body)
            importlib.invalidate_caches()
            app = importlib.import_module("apppkg14.main")
            stats["cross_package_module_attribute_cases"] = 4
            for fname, want, val in (("by_module", ["leaf"], 2), ("by_name", ["leaf2"], 3), ("by_helper", ["leaf"], 4), ("by_dotted", ["leaf2"], 3)):
                f_ = getattr(app, fname)
                got = sorted(x.qualified_name_without_version.split(":")[-1] for x in f_.dependencies().transitive_memento_fn_dependencies())
                meta2 = {"layout": sorted(files2), "function": fname}
                if got != want:
                    rep.violation("C14:transitive-not-exact:cross-package-module-attribute", "%s reaches %r of another package through its module; reported transitive dependencies %r" % (fname, want, got), meta2)
                    continue
                try:
                    if f_(1) != val:
                        rep.violation("C14:declared-call-refused:cross-package-module-attribute", "%s(1) returned a wrong value" % fname, meta2)
                except UndeclaredDependencyError:
                    rep.violation("C14:declared-call-refused:cross-package-module-attribute", "a call inside the static closure (%s) was refused" % fname, meta2)
        except Exception as e:
            rep.violation("C14:init-module-scenario-raised", "%s: %s" % (type(e).__name__, str(e)[:200]), {})
        try:
            res = C.run_coq_cases("c14", HEADER, terms, "deps_case", shard=600,
                                  case_type="list (nat * sym) * nat * (list nat * list nat * list rule)")
        except RuntimeError as e:
            rep.broken.append("correspondence C14 (model could not be evaluated): %s" % str(e)[:300])
            res = []
        what = ["saturation did not close (fuel)", "transitive set", "direct set", "function rule keys"]
        for meta, r in zip(metas, res):
            if r is not None:
                rep.violation("C14:differs-from-closure-model:%d" % r, "the %s differs from the dependency-closure model" % what[r], meta)
        rep.coverage.update({
            "evaluations": len(terms), "distinct_nontrivial": len(set(terms)), "exhaustive": True,
            "rule": "ALL reference graphs on 1..%d nodes (every kind assignment with at least one memento function x every edge set, self loops and cycles included), plus random graphs on 3-6 nodes with reference forms "
                    "{bare, module attribute, alias, decorator-wrapped, inside the argument of a dereferenced call} and hidden dynamic call edges; one case per memento root" % exhaustive_n,
            "stats": stats, "traces_validated_against_impl": len(terms),
        })
        rep.assumptions = ["plain helper functions live in the package of the memento functions (package scope)", "name resolution (bare / attribute / alias / wrapped) is performed by the implementation on live objects; the model receives resolved edges"]
    return rep.finish(gate)
