"""C16 — context arguments key results, flow to nested calls, stay out of parameters.
Theorems: Runner/RunProofs.v (context_flows, keys). Correspondence: context-heavy call DAGs
(overrides on inner edges incl. the empty override, batched edges) under root contexts vs the
Coq model (recorded keys carry the effective context); direct checks: results under different
contexts are stored and served separately, bodies never see context args, prevented calls fail."""
import os
import random
import shutil

from . import common as C
from . import runner_cases as R


def run(tier, seed):
    rep = C.Report("C16", tier, seed)
    gate = C.proof_gate("C16")
    rng = random.Random(seed)
    nprog = 30 if tier == "quick" else 1500
    with C.Scratch("c16") as scratch:
        from . import implenv
        m = implenv.setup(scratch)
        from . import fnmod
        terms, metas = [], []
        total = 0
        stats = {"ctx_edges": 0, "empty_overrides": 0, "batched_ctx_edges": 0, "prevent_cases": 0}
        for pi in range(nprog):
            prog = R.gen_program(rng, rng.randint(3, 7), p_ctx=0.7, p_fail=0.1)
            root = max(prog)
            stats["ctx_edges"] += sum(1 for d in prog.values() for _, ov in d["kids"] if ov is not None)
            stats["empty_overrides"] += sum(1 for d in prog.values() for _, ov in d["kids"] if ov == 0)
            stats["batched_ctx_edges"] += sum(1 for d in prog.values() if d["batch"] and d["kids"][0][1] is not None)
            kind = rng.choice(["mem", "fs", "fs_cache"])
            r = R.Runner(m, scratch, R.make_storage(kind, scratch, "p%d" % pi))
            c1, c2 = rng.sample([0, 1, 2, 3], 2)
            if pi % 3 == 2:
                c1, c2 = rng.sample([1, 4, 5], 2)        # context arguments equal for Python (1, True, 1.0), different once normalized
            subs = R.subcalls(prog, root, c1)
            pre = [s for s in subs if rng.random() < 0.3]
            for (k, c) in pre:
                r.call(prog, k, c)
            out1, ex1 = r.call(prog, root, c1)
            mem1 = r.memento(prog, root, c1)
            meta = {"program": prog, "root": [root, c1], "pre_memoized": pre, "backend": kind, "outcome": list(out1), "executed": ex1, "memento": mem1}
            total += 1
            if mem1 is not None:
                terms.append("(%s, %s, (%d, %d), (%s, %s, %s, %s))" % (
                    R.coq_prog(prog), R.coq_keys(pre), root, c1, R.coq_outcome(out1), C.coq_list([str(x) for x in ex1]),
                    R.coq_keys(mem1["invocations"]), C.coq_list([str(x) for x in mem1["deps"]])))
                metas.append(meta)
                want_inv = [(k, R.eff(c1, ov)) for k, ov in prog[root]["kids"]]
                if mem1["invocations"] != want_inv:
                    rep.violation("C16:nested-context-wrong", "nested calls were recorded under contexts %r, inheritance / override gives %r" % (mem1["invocations"], want_inv), meta)
            if out1 != R.ref_value(prog, root, c1):
                rep.violation("C16:wrong-outcome", "outcome %r under context %d, expected %r" % (out1, c1, R.ref_value(prog, root, c1)), meta)
            # separate storage per context: another context computes again, each context is then served
            out2, ex2 = r.call(prog, root, c2)
            total += 1
            if root not in ex2:
                rep.violation("C16:contexts-share-result", "a call under context %d was served the result stored under context %d" % (c2, c1), meta)
            for c in (c1, c2):
                o, ex = r.call(prog, root, c)
                if ex:
                    rep.violation("C16:not-served-under-own-context", "second call under context %d executed %r" % (c, ex), meta)
            # the nested calls made under c2 must be keyed under c2's effective contexts, not c1's
            mem2 = r.memento(prog, root, c2)
            if mem2 is not None and mem2["invocations"] != [(k, R.eff(c2, ov)) for k, ov in prog[root]["kids"]]:
                rep.violation("C16:nested-context-wrong", "under context %d nested calls were recorded as %r" % (c2, mem2["invocations"]), meta)
            shutil.rmtree(os.path.join(scratch, "store-p%d" % pi), ignore_errors=True)
            if len(rep.samples) < 2:
                rep.samples.append(meta)
        # prevented calls: every nested memento call fails with RuntimeError instead of executing,
        # whether or not it is already memoized
        for t in range(8 if tier == "quick" else 300):
            stats["prevent_cases"] += 1
            total += 1
            r = R.Runner(m, scratch, R.make_storage(rng.choice(["mem", "fs", "fs_cache"]), scratch, "v%d" % t))
            leaf = {"id": 7000 + t}
            mid = {"id": 7100 + t, "calls": [{"fn": "n1", "spec": leaf, "catch": True}]}
            ctx = rng.choice([None, {"c": 1}])
            pre_leaf = rng.random() < 0.5
            if pre_leaf:
                f = fnmod.n1.with_context_args(ctx) if ctx else fnmod.n1
                f(leaf)
            r.trace.clear()
            g = fnmod.n2.with_prevent_further_calls(True)
            if ctx:
                g = g.with_context_args(ctx)
            try:
                g(mid)
            except Exception as e:
                rep.violation("C16:prevent-escaped", "the preventing call itself raised %s" % type(e).__name__, {"leaf_memoized_before": pre_leaf})
            ev = r.trace.events
            leaf_ran = any(e[0] == "exec" and e[2] == leaf["id"] for e in ev)
            caught = [e for e in ev if e[0] == "caught"]
            if leaf_ran or not caught or caught[0][3] != "RuntimeError":
                rep.violation("C16:prevented-call-not-refused",
                              "nested call beneath a preventing call: executed=%s, caught=%r (expected RuntimeError, no execution)" % (leaf_ran, caught),
                              {"leaf_memoized_before": pre_leaf, "context": ctx})
            # the same with the preventing call on an INNER edge: outer -> (prevented) mid -> leaf, by single call or batch
            r.trace.clear()
            leaf2 = {"id": 7200 + t}
            how = rng.choice(["single", "batch"])
            mid2 = {"id": 7300 + t, "calls": [{"fn": "n1", "spec": leaf2, "catch": True}]}
            edge = {"fn": "n2", "prevent": True, "catch": True}
            if rng.random() < 0.5:
                edge["ctx"] = {"d": t}
            if how == "batch":
                edge["batch"] = [mid2]
                edge["raise_first"] = True
            else:
                edge["spec"] = mid2
            outer = {"id": 7400 + t, "calls": [edge]}
            if rng.random() < 0.5:
                (fnmod.n1.with_context_args(edge["ctx"]) if edge.get("ctx") else (fnmod.n1.with_context_args(ctx) if ctx else fnmod.n1))(leaf2)
                pre2 = True
            else:
                pre2 = False
            r.trace.clear()
            try:
                (fnmod.n3.with_context_args(ctx) if ctx else fnmod.n3)(outer)
            except Exception as e:
                rep.violation("C16:prevent-escaped", "a call tree with a preventing inner edge raised %s: %s" % (type(e).__name__, str(e)[:100]), {"edge": edge})
            ev = r.trace.events
            leaf_ran = any(e[0] == "exec" and e[2] == leaf2["id"] for e in ev)
            caught = [e for e in ev if e[0] == "caught" and e[1] == "n2"]
            if leaf_ran or not caught or caught[0][3] != "RuntimeError":
                rep.violation("C16:prevented-call-not-refused:inner-edge",
                              "outer -> mid called with further calls prevented (%s) -> leaf: leaf executed=%s, mid caught %r (expected RuntimeError, no execution)" % (how, leaf_ran, caught),
                              {"leaf_memoized_before": pre2, "root_context": ctx, "edge": edge})
            shutil.rmtree(os.path.join(scratch, "store-v%d" % t), ignore_errors=True)
        # re-attached context arguments: a function that already carries context arguments gets a new dictionary
        # (the documented idiom: clone the dictionary, change it, attach it again); the new arguments replace the old
        # ones entirely, also when the two dictionaries are equal for Python but not as typed arguments
        RE = [({"c": 1}, {"c": True}), ({"c": True}, {"c": 1.0}), ({"c": 1.0}, {"c": 1}), ({"c": 0}, {"c": False}),
              ({"c": 1}, {"c": 1}), ({"c": 1, "d": 2}, {"c": 1}), ({"c": [1, 2]}, {"c": [True, 2]}), ({"c": 2}, {"c": 3})]
        for t, (a, b) in enumerate(RE if tier == "quick" else RE * 8):
            stats["reattach_cases"] = stats.get("reattach_cases", 0) + 1
            total += 1
            kind = ["mem", "fs", "fs_cache"][t % 3]
            r = R.Runner(m, scratch, R.make_storage(kind, scratch, "ra%d" % t))
            leaf = {"id": 7500 + t}
            mid = {"id": 7600 + t, "calls": [{"fn": "n1", "spec": leaf, "catch": True}]}
            same = repr(a) == repr(b)
            meta = {"first_context": repr(a), "re_attached_context": repr(b), "backend": kind}
            f_a = fnmod.n2.with_context_args(dict(a))
            f_ab = f_a.with_context_args(dict(b))
            f_b = fnmod.n2.with_context_args(dict(b))
            try:
                r.trace.clear()
                f_a(mid)
                r.trace.clear()
                f_ab(mid)
                ex = sorted(e[2] for e in r.trace.execs())
                want = [] if same else [leaf["id"], mid["id"]]
                if ex != want:
                    rep.violation("C16:reattached-context-not-identity", "n2 under %r ran; the same function object re-attached with %r then executed %r (expected %r: %s)"
                                  % (a, b, ex, want, "same context" if same else "a different context is a different call, for the nested call too"), meta)
                r.trace.clear()
                f_b(mid)
                ex = sorted(e[2] for e in r.trace.execs())
                if ex:
                    rep.violation("C16:reattached-context-not-identity", "after the re-attached call under %r, a fresh attachment of %r executed %r (expected to be served)" % (b, b, ex), meta)
                mm = f_ab.memento(mid)
                got = None if mm is None else mm.invocation_metadata.fn_reference_with_args.context_args
                if mm is None or repr(got) != repr(f_b.memento(mid).invocation_metadata.fn_reference_with_args.context_args):
                    rep.violation("C16:reattached-context-not-identity", "memento of the re-attached call carries context %r" % (got,), meta)
                # the identity includes the context when the call is forgotten through its memento, too
                fnmod.n2(mid)
                f_b.memento(mid).forget()
                r.trace.clear()
                f_b(mid)
                ex1 = sorted(e[2] for e in r.trace.execs())
                r.trace.clear()
                fnmod.n2(mid)
                ex2 = sorted(e[2] for e in r.trace.execs())
                if ex1 != [mid["id"]] or ex2:
                    rep.violation("C16:forget-through-memento-ignores-context", "the memento of n2 under %r was forgotten: calling again under %r executed %r (expected the one forgotten call), "
                                  "the entry of the same arguments without context arguments then executed %r (expected to be served)" % (b, b, ex1, ex2), meta)
            except Exception as e:
                rep.violation("C16:reattach-raised", "%s: %s" % (type(e).__name__, str(e)[:120]), meta)
            shutil.rmtree(os.path.join(scratch, "store-ra%d" % t), ignore_errors=True)
        try:
            res = C.run_coq_cases("c16", R.HEADER, terms, "run_case", shard=200,
                                  case_type="list (nat * ndef) * list (nat * nat) * (nat * nat) * (outcome * list nat * list key * list nat)")
        except RuntimeError as e:
            rep.broken.append("correspondence C16 (model could not be evaluated): %s" % str(e)[:300])
            res = []
        what = ["outcome", "executed bodies", "invocations (keys with contexts)", "dependency set"]
        for meta, r in zip(metas, res):
            if r is not None:
                rep.violation("C16:differs-from-runner-model:%s" % what[r].split()[0], "the %s differ from the runner model" % what[r], meta)
        rep.coverage.update({
            "evaluations": total, "distinct_nontrivial": len(set(terms)),
            "rule": "context-heavy random call DAGs (70%% of edges override the context, incl. the explicit empty override and overrides on batched edges) called under two different root contexts on "
                    "memory / filesystem / filesystem+cache backends, with random pre-memoized sub-calls; recorded keys compared with the Coq model; plus prevented-call scenarios with memoized and unmemoized leaves",
            "stats": stats, "traces_validated_against_impl": len(terms),
        })
        rep.assumptions = ["bodies take only their declared parameter: receiving a context argument as a parameter would raise TypeError in every generated body"]
    return rep.finish(gate)
