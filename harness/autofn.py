"""Automatically versioned memento functions that call one another (their callers are checked
against their declared dependencies on every nested call); bodies report through builtins._vt."""
import builtins

from twosigma.memento import memento_function

CL = "fc"


def _trace(ev):
    t = getattr(builtins, "_vt", None)
    if t is not None:
        t(ev)


@memento_function(cluster=CL)
def a_leaf1(x):
    _trace(("exec", "a_leaf1", 1000 + x, None))
    return x + 1


@memento_function(cluster=CL)
def a_leaf2(x):
    _trace(("exec", "a_leaf2", 2000 + x, None))
    return x + 2


@memento_function(cluster=CL)
def a_leaf3(x):
    _trace(("exec", "a_leaf3", 3000 + x, None))
    return x + 3


@memento_function(cluster=CL)
def a_outer(x):
    _trace(("exec", "a_outer", x, None))
    return a_leaf1(x) + a_leaf2(x) + a_leaf3(x)


_LATE = [0]


def define_another(root):
    """a further memento function definition in the process (what happens whenever a module is imported late)"""
    import sys
    from . import c12
    if root not in sys.path:
        sys.path.insert(0, root)
    _LATE[0] += 1
    src = """
        from twosigma.memento import memento_function

        @memento_function(cluster=%r)
        def a_late(x):
            return x
        """ % CL
    return c12.write_module(root, "late_defs_%d" % _LATE[0], src)
