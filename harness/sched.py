"""Deterministic scheduler for real threads. Worker threads stop at *scheduling points*
(method calls on the storage backend's cache / metadata source / data source, the start of a
function body, and optionally every source line inside MemoryCache methods); the scheduler
grants one step at a time. A granted thread that does not reach its next point within a short
time is treated as blocked on a lock, and another thread is scheduled."""
import sys
import threading
import time


class Worker:
    def __init__(self, idx, fn):
        self.idx, self.fn = idx, fn
        self.arrived = threading.Event()
        self.go = threading.Event()
        self.done = False
        self.result = None
        self.exc = None
        self.at = None
        self.thread = None
        self.steps = 0


class Scheduler:
    STEP_TIMEOUT = 0.03

    def __init__(self, line_codes=None, call_files=()):
        self.workers = []
        self.by_thread = {}
        self.line_codes = line_codes or set()
        self.call_files = tuple(call_files)
        self.trace = []        # (thread idx, point name) in grant order
        self.active = False

    # ---- called from worker threads
    def point(self, name):
        w = self.by_thread.get(threading.get_ident())
        if w is None or not self.active:
            return
        w.at = name
        w.arrived.set()
        w.go.wait()
        w.go.clear()

    def _tracefn(self, frame, event, arg):
        code = frame.f_code
        if self.call_files and event == "call" and code.co_filename.endswith(self.call_files):
            self.point("call:%s" % code.co_name)
        if code in self.line_codes:
            return self._linefn
        return None

    def _linefn(self, frame, event, arg):
        if event == "line":
            self.point("line:%s:%d" % (frame.f_code.co_name, frame.f_lineno))
        return self._linefn

    def _body(self, w):
        self.by_thread[threading.get_ident()] = w
        if self.line_codes or self.call_files:
            sys.settrace(self._tracefn)
        try:
            self.point("start")
            w.result = w.fn()
        except BaseException as e:  # noqa
            w.exc = e
        finally:
            sys.settrace(None)
            w.done = True
            w.at = None
            w.arrived.set()

    # ---- driver
    def run(self, fns, chooser, max_steps=4000):
        """chooser(enabled indices, last index, step number) -> index to grant"""
        self.workers = [Worker(i, f) for i, f in enumerate(fns)]
        self.active = True
        for w in self.workers:
            w.thread = threading.Thread(target=self._body, args=(w,), daemon=True)
            w.thread.start()
        for w in self.workers:
            w.arrived.wait(5)
        last = None
        blocked = set()
        deadlock = False
        for step in range(max_steps):
            live = [w for w in self.workers if not w.done]
            if not live:
                break
            # threads marked blocked may have arrived meanwhile
            for w in live:
                if w.idx in blocked and w.arrived.is_set():
                    blocked.discard(w.idx)
            enabled = [w.idx for w in live if w.idx not in blocked and w.arrived.is_set()]
            if not enabled:
                # everybody is inside a step / blocked: wait for someone to arrive
                t0 = time.time()
                while time.time() - t0 < 8.0:     # generous: a loaded machine must not look like a deadlock
                    if any(w.arrived.is_set() for w in live):
                        break
                    time.sleep(0.002)
                else:
                    deadlock = True
                    break
                continue
            idx = chooser(enabled, last, step)
            if idx not in enabled:
                idx = enabled[0]
            w = self.workers[idx]
            self.trace.append((idx, w.at))
            w.steps += 1
            w.arrived.clear()
            w.go.set()
            if not w.arrived.wait(self.STEP_TIMEOUT):
                blocked.add(idx)        # waiting for a lock (bodies never sleep)
            last = idx
        self.active = False
        for w in self.workers:          # release anything still parked
            w.go.set()
        for w in self.workers:
            w.thread.join(2)
        return deadlock


class PointProxy:
    """wraps an object: every method call is a scheduling point"""

    def __init__(self, target, name, sched):
        object.__setattr__(self, "_t", target)
        object.__setattr__(self, "_n", name)
        object.__setattr__(self, "_s", sched)

    def __bool__(self):
        return True

    def __getattr__(self, attr):
        v = getattr(self._t, attr)
        if callable(v) and not attr.startswith("__"):
            sched, label = self._s, "%s.%s" % (self._n, attr)

            def call(*a, **kw):
                sched.point(label)
                return v(*a, **kw)
            return call
        return v

    def __setattr__(self, attr, value):
        setattr(self._t, attr, value)
