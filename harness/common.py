"""Shared machinery of the checks: Coq build / proof gate, running the model on generated
cases inside Coq (vm_compute), evidence, known findings, verdicts."""
import fcntl
import hashlib
import json
import os
import re
import shutil
import subprocess
import sys
import tempfile
import time

VERIF = os.path.dirname(os.path.dirname(os.path.abspath(__file__)))
REPO = os.environ.get("VERIF_REPO", "/repo")
COQ = os.path.join(VERIF, "coq")
PY = "/venv/bin/python"
GUARD = "TWOSIGMA_MEMENTO_VERIF"

ALLOWED_AXIOMS = {
    # standard-library axioms that may appear (none is expected; each use is reported)
    "functional_extensionality_dep",
    "Eqdep.Eq_rect_eq.eq_rect_eq",
}
FORBIDDEN = re.compile(
    r"\b(Admitted|admit|Axiom|Parameter|Conjecture|Abort All|Unset Guard Checking|bypass_check|"
    r"Admit Obligations|type-in-type|impredicative-set)\b"
)

TRUSTED_BASE = [
    "Coq 8.16.1 kernel (coqc); vm_compute used for generated cases, the Gen/Facts*.v obligations and refutation witnesses; no native_compute",
    "harness/srcfacts.py (ast-based source-fact translator, fail-closed)",
    "correspondence harness (generators, canonicalisation, fault injector, scheduler) in /verif/harness",
    "oracles named in DESIGN.md section I.4 / I.7 (sha256 treated as injective, pickle, repr, uuid4, OS file system, CPython scheduling)",
    "no axioms (Print Assumptions: closed under the global context; coqchk -o: Axioms <none>); no extraction",
]


def log(*a):
    print(*a, file=sys.stderr, flush=True)


class Scratch:
    """Scratch directory outside /repo and /verif, removed on exit."""

    def __init__(self, tag):
        base = os.environ.get("VERIF_SCRATCH") or "/var/tmp"
        os.makedirs(base, exist_ok=True)
        self.path = tempfile.mkdtemp(prefix="memento-verif-%s-" % tag, dir=base)

    def __enter__(self):
        return self.path

    def __exit__(self, *a):
        shutil.rmtree(self.path, ignore_errors=True)


def sh(cmd, timeout=600, cwd=None, env=None):
    e = dict(os.environ)
    if env:
        e.update(env)
    p = subprocess.run(cmd, shell=isinstance(cmd, str), cwd=cwd, env=e, stdout=subprocess.PIPE,
                       stderr=subprocess.STDOUT, timeout=timeout, text=True)
    out = "\n".join(l for l in p.stdout.splitlines() if "conda.cli.condarc" not in l)
    return p.returncode, out


# ---------------------------------------------------------------- Coq build / proof gate

def _lock():
    f = open(os.path.join(COQ, ".build.lock"), "w")
    fcntl.flock(f, fcntl.LOCK_EX)
    return f


def regenerate_source_facts():
    """Re-run the translator; rewrite Gen/SourceFacts.v only when its content changes."""
    from . import srcfacts
    text = srcfacts.generate(REPO)
    path = os.path.join(COQ, "Gen", "SourceFacts.v")
    old = open(path).read() if os.path.exists(path) else None
    if old != text:
        with open(path, "w") as f:
            f.write(text)
    return text


def coq_build(targets=None):
    """make (full .vo build, -k so that models still build when an obligation breaks).
    Returns (ok, output)."""
    lock = _lock()
    try:
        regenerate_source_facts()
        if not os.path.exists(os.path.join(COQ, "Makefile")):
            sh("coq_makefile -f _CoqProject -o Makefile", cwd=COQ)
        rc, out = sh("timeout 1500 make -k -j16 2>&1", cwd=COQ, timeout=1600)
        return rc == 0, out
    finally:
        lock.close()


def grep_gate():
    bad = []
    for root, _, files in os.walk(COQ):
        for fn in files:
            if fn.endswith(".v"):
                p = os.path.join(root, fn)
                for i, line in enumerate(open(p), 1):
                    code = re.sub(r"\(\*.*?\*\)", "", line)
                    if FORBIDDEN.search(code):
                        bad.append("%s:%d: %s" % (os.path.relpath(p, COQ), i, line.strip()))
    return bad


def proof_gate(prop):
    """Compile Props/<prop>.v (after make) and read what Print Assumptions says.
    Returns dict(ok, obligations, discharged, axioms, broken, detail)."""
    ok_build, out = coq_build()
    res = {"ok": True, "obligations": 0, "discharged": 0, "axioms": [], "broken": [], "detail": ""}
    vfile = os.path.join(COQ, "Props", prop + ".v")
    src = open(vfile).read()
    names = re.findall(r"^(?:Theorem|Lemma|Corollary|Example)\s+(\w+)", src, re.M)
    res["theorems"] = names
    res["obligations"] = len(names)
    bad = grep_gate()
    if bad:
        res["ok"] = False
        res["broken"].append("forbidden construct: " + "; ".join(bad[:5]))
    lock = _lock()
    try:
        rc, o = sh("timeout 900 coqc -Q . Memento Props/%s.v 2>&1" % prop, cwd=COQ, timeout=1000)
    finally:
        lock.close()
    res["detail"] = o[-3000:]
    if rc != 0:
        res["ok"] = False
        m = re.search(r'File "([^"]+)", line (\d+)', o)
        res["broken"].append("Props/%s.v does not check (%s)" % (prop, m.group(0) if m else "see detail"))
        # which upstream file is broken?
        for m2 in re.finditer(r'File "\./([^"]+)", line (\d+)[^\n]*\n(Error:[^\n]*(?:\n[^\n]+){0,3})', out):
            res["broken"].append("%s:%s %s" % (m2.group(1), m2.group(2), " ".join(m2.group(3).split())[:300]))
        return res
    closed = len(re.findall(r"Closed under the global context", o))
    axioms = []
    for blk in re.findall(r"Axioms:\n((?:.+\n?)+?)(?=\n\S|\Z)", o):
        for l in blk.splitlines():
            m = re.match(r"^(\S+)\s*:", l)
            if m:
                axioms.append(m.group(1))
    res["axioms"] = sorted(set(axioms))
    n_print = len(re.findall(r"^Print Assumptions", src, re.M))
    res["discharged"] = len(names)  # every statement in the file was accepted by coqc
    res["print_assumptions"] = n_print
    res["closed"] = closed
    if os.environ.get("VERIF_CURRENT_TIER") == "thorough":
        # independent re-check of the property file and everything it depends on
        lock = _lock()
        try:
            rc2, o2 = sh("timeout 1500 coqchk -silent -o -Q . Memento Memento.Props.%s 2>&1" % prop, cwd=COQ, timeout=1600)
        finally:
            lock.close()
        m2 = re.search(r"\* Axioms:\s*(.*?)\n\s*\n", o2, re.S)
        res["coqchk"] = {"exit": rc2, "axioms": " ".join(m2.group(1).split()) if m2 else "?"}
        if rc2 != 0 or not m2 or "<none>" not in m2.group(1):
            res["ok"] = False
            res["broken"].append("coqchk: exit %d, axioms: %s" % (rc2, res["coqchk"]["axioms"]))
    notallowed = [a for a in res["axioms"] if a.split(".")[-1] not in {x.split(".")[-1] for x in ALLOWED_AXIOMS}]
    if notallowed:
        res["ok"] = False
        res["broken"].append("axioms outside the whitelist: %s" % notallowed)
    return res


# ---------------------------------------------------------------- running the model in Coq

def coq_str(s):
    """Coq string literal for an ASCII python str."""
    assert all(32 <= ord(ch) < 127 for ch in s), repr(s)
    return '"' + s.replace('"', '""') + '"'


def coq_z(n):
    return "(%d)" % n if n < 0 else "%d" % n


def coq_bool(b):
    return "true" if b else "false"


def coq_list(items):
    return "[" + "; ".join(items) + "]"


def run_coq_cases(tag, header, case_terms, checker, shard=300, keep_dir=None, case_type=None):
    """Evaluate [checker case] for every case term with vm_compute inside Coq.
    [checker] must have type  case -> option nat  (None = model and implementation agree,
    Some i = first differing step).  Returns the list of results (None / int) in order.
    """
    results = [None] * len(case_terms)
    with Scratch("cases-" + tag) as d:
        jobs = []
        for si, start in enumerate(range(0, len(case_terms), shard)):
            chunk = case_terms[start:start + shard]
            name = "cases_%s_%d" % (tag, si)
            path = os.path.join(d, name + ".v")
            with open(path, "w") as f:
                f.write("From Coq Require Import ZArith List.\n" + header + "\n")
                f.write("Definition cases %s:= [\n" % ((": list (%s) " % case_type) if case_type else "") + ";\n".join(chunk) + "\n].\n")
                f.write("Definition results := Eval vm_compute in (map (%s) cases).\n" % checker)
                f.write("Definition render (r : option nat) : Z := match r with None => (-1)%Z | Some n => Z.of_nat n end.\n")
                f.write("Eval vm_compute in (map render results).\n")
            jobs.append((start, len(chunk), name, path))
        procs = []
        for start, n, name, path in jobs:
            p = subprocess.Popen("ulimit -s unlimited 2>/dev/null; timeout 900 coqc -Q %s Memento %s 2>&1" % (COQ, path),
                                 shell=True, cwd=d, stdout=subprocess.PIPE, stderr=subprocess.STDOUT, text=True)
            procs.append((start, n, name, path, p))
            if len(procs) % 12 == 0:
                for q in procs:
                    q[4].wait()
        for start, n, name, path, p in procs:
            out, _ = p.communicate()
            if p.returncode != 0:
                if keep_dir:
                    shutil.copy(path, keep_dir)
                raise RuntimeError("coqc failed on generated cases %s:\n%s" % (name, out[-2000:]))
            body = out[out.index("="):] if "=" in out else out
            nums = re.findall(r"\(?(-?\d+)\)?%Z|(?<![\w.])(-?\d+)(?![\w.%])", body.split(": list Z")[0])
            vals = [int(a or b) for a, b in nums]
            if len(vals) != n:
                raise RuntimeError("could not parse coqc output for %s: %r" % (name, out[-500:]))
            for i, v in enumerate(vals):
                results[start + i] = None if v < 0 else v
    return results


def coq_eval(header, term, timeout=300):
    """Evaluate one term with vm_compute and return Coq's printed answer (for diagnostics)."""
    with Scratch("eval") as d:
        path = os.path.join(d, "ev.v")
        with open(path, "w") as f:
            f.write(header + "\nEval vm_compute in (%s).\n" % term)
        rc, out = sh("timeout %d coqc -Q %s Memento %s 2>&1" % (timeout, COQ, path), cwd=d, timeout=timeout + 10)
        return out


# ---------------------------------------------------------------- findings / verdict / evidence

def load_known():
    path = os.path.join(VERIF, "KNOWN_FINDINGS.txt")
    known = []
    if os.path.exists(path):
        for line in open(path):
            line = line.strip()
            m = re.match(r"^finding:\s+property=(\S+)\s+id=(\S+)\s+(.*)$", line)
            if m:
                known.append({"property": m.group(1), "id": m.group(2), "text": m.group(3)})
    return known


class Report:
    def __init__(self, prop, tier, seed):
        self.prop, self.tier, self.seed = prop, tier, seed
        self.t0 = time.time()
        self.violations = []      # dicts: sig, what, replay(dict)
        self.known_hits = {}
        self.coverage = {}
        self.assumptions = []
        self.samples = []
        self.broken = []          # proof obligations / correspondences that no longer check
        self.notes = []
        import glob
        for f in glob.glob(os.path.join(VERIF, "replays", "%s-%s-*.json" % (prop, tier))):
            os.remove(f)

    def violation(self, sig, what, replay):
        self.violations.append({"sig": sig, "what": what, "replay": replay})

    def finish(self, gate):
        known = [k for k in load_known() if k["property"] == self.prop]
        known_ids = {k["id"]: k for k in known}
        unlisted = []
        for v in self.violations:
            if v["sig"] in known_ids:
                self.known_hits.setdefault(v["sig"], []).append(v)
            else:
                unlisted.append(v)
        os.makedirs(os.path.join(VERIF, "replays"), exist_ok=True)
        os.makedirs(os.path.join(VERIF, "evidence"), exist_ok=True)
        lines = []
        for sig, vs in sorted(self.known_hits.items()):
            lines.append("KNOWN-FINDING: property=%s %s [%s] (%d occurrence(s) this run)" % (
                self.prop, known_ids[sig]["text"], sig, len(vs)))
        rc = 0
        broken = list(self.broken) + ([] if gate["ok"] else gate["broken"])
        seen = set()
        n = 0
        for v in unlisted:
            if v["sig"] in seen:
                continue
            seen.add(v["sig"])
            n += 1
            path = os.path.join(VERIF, "replays", "%s-%s-%d.json" % (self.prop, self.tier, n))
            with open(path, "w") as f:
                json.dump({"property": self.prop, "signature": v["sig"], "what": v["what"], "seed": self.seed,
                           "replay": v["replay"], "broken_obligations": broken}, f, indent=1, default=str)
            lines.append("VIOLATION property=%s replay=%s" % (self.prop, path))
            rc = 1
        if broken and not unlisted:
            path = os.path.join(VERIF, "replays", "%s-%s-obligation.json" % (self.prop, self.tier))
            with open(path, "w") as f:
                json.dump({"property": self.prop, "no_failing_input_found": True, "seed": self.seed,
                           "no_longer_checks": broken, "detail": gate.get("detail", "")[-2000:],
                           "searched": self.coverage.get("evaluations", 0)}, f, indent=1, default=str)
            lines.append("VIOLATION property=%s replay=%s no-failing-input-found" % (self.prop, path))
            rc = 1
        cov = dict(self.coverage)
        cov.setdefault("evaluations", 0)
        cov.setdefault("distinct_nontrivial", 0)
        cov["obligations"] = max(1, gate["obligations"])
        cov["discharged"] = gate["discharged"] if gate["ok"] else 0
        cov["theorems"] = gate.get("theorems", [])
        cov["print_assumptions"] = {"closed_under_global_context": gate.get("closed", 0), "axioms": gate["axioms"]}
        if "coqchk" in gate:
            cov["coqchk"] = gate["coqchk"]
        cov["checker_cmd"] = "make -C coq (full .vo build) && coqc -Q coq Memento coq/Props/%s.v ; Print Assumptions under every theorem; grep gate" % self.prop
        cov["trusted_base"] = TRUSTED_BASE
        cov["samples"] = self.samples[:6] if self.samples else [{"note": "no generated cases"}]
        cov["known_findings_seen"] = sorted(self.known_hits)
        cov["broken_obligations"] = broken
        if self.notes:
            cov["notes"] = self.notes
        ev = {"property_id": self.prop, "tier": self.tier, "seed": self.seed, "level": "proof",
              "coverage": cov, "assumptions": self.assumptions, "wall_s": round(time.time() - self.t0, 2),
              "violations": len(seen) + (1 if broken and not unlisted else 0)}
        evdir = os.environ.get("VERIF_EVIDENCE_DIR") or os.path.join(VERIF, "evidence")
        os.makedirs(evdir, exist_ok=True)
        with open(os.path.join(evdir, self.prop + ".json"), "w") as f:
            json.dump(ev, f, indent=1, default=str)
        for l in lines:
            print(l, flush=True)
        print("%s %s tier=%s seed=%d evaluations=%d obligations=%d/%d wall=%.1fs" % (
            "FAIL" if rc else "PASS", self.prop, self.tier, self.seed, cov["evaluations"],
            cov["discharged"], cov["obligations"], time.time() - self.t0), flush=True)
        return rc


def impl_env(extra=None):
    e = {"PYTHONPATH": REPO + os.pathsep + VERIF, "PYTHONHASHSEED": "0", GUARD: "1",
         "PYTHONDONTWRITEBYTECODE": "1"}
    if extra:
        e.update(extra)
    return e


def shrink_ops(ops, fails, rounds=15):
    """greedy shrinking: fails(list of candidate op lists) -> list of bool (still failing?).
    First tries dropping halves, then single operations."""
    cur = [list(o) if isinstance(o, (list, tuple)) else o for o in ops]
    for _ in range(rounds):
        n = len(cur)
        if n <= 1:
            break
        cands = []
        if n >= 8:
            q = n // 4
            for i in range(0, n, q):
                cands.append(cur[:i] + cur[i + q:])
        cands += [cur[:i] + cur[i + 1:] for i in range(n)]
        res = fails(cands)
        hit = [i for i, r in enumerate(res) if r]
        if not hit:
            break
        cur = cands[hit[0]]
    return cur


def coq_eval_nested(header, term, timeout=600):
    """Evaluate a term of type list (list N) / list (list (list N)) ... with vm_compute and parse
    Coq's printed answer into nested python lists of ints."""
    import ast as _ast
    out = coq_eval("From Coq Require Import ZArith NArith List.\n" + header, term, timeout)
    if "Error" in out and "=" not in out.split("Error")[0]:
        raise RuntimeError("coqc failed: " + out[-1500:])
    i = out.index("=")
    body = out[i + 1:]
    j = body.rfind(":")
    body = body[:j]
    body = re.sub(r"%[A-Za-z]+", "", body)
    body = re.sub(r"\s+", "", body).replace(";", ",")
    return _ast.literal_eval(body)


def u_term(s):
    """Coq term (list N) for a python str given as code points"""
    return "[" + "; ".join(str(ord(ch)) for ch in s) + "]%N" if s else "([] : list N)"


def coq_eval_nested_many(header, terms, workers=12):
    """evaluate several terms (each a list-valued Coq term) in parallel coqc processes"""
    from concurrent.futures import ThreadPoolExecutor
    with ThreadPoolExecutor(max_workers=workers) as ex:
        return list(ex.map(lambda t: coq_eval_nested(header, t), terms))
