"""Prepare this process to drive the implementation in /repo: import path, scratch HOME."""
import os
import sys

from .common import REPO, VERIF


def setup(scratch):
    os.environ["HOME"] = scratch
    os.environ.pop("MEMENTO_ENV", None)
    os.environ["TMPDIR"] = scratch
    import tempfile
    tempfile.tempdir = scratch
    for p in (VERIF, REPO):
        if p in sys.path:
            sys.path.remove(p)
    sys.path.insert(0, VERIF)
    sys.path.insert(0, REPO)
    import logging
    logging.disable(logging.CRITICAL)
    import warnings
    warnings.filterwarnings("ignore")
    import twosigma.memento as m
    assert os.path.realpath(m.__file__).startswith(os.path.realpath(REPO)), m.__file__
    return m
