"""C19 — read-only and null back-ends never write and never execute.
Theorem: Storage/ReadOnlyProofs.v. Correspondence: storage histories and function-level call
sequences against a pre-populated store opened read-only (flag from argument / from
configuration, with / without cache, filesystem and memory), observed at the file system
(audit events + tree snapshots), plus null storage and null runner."""
import os
import random
import shutil

from . import common as C
from . import backend_driver as BD
from . import c05

HEADER = BD.HEADER + """
From Memento Require Import Storage.ReadOnly.
Definition rcase := rocase cf.
"""

MUTATING = {"os.mkdir", "os.remove", "os.rename", "os.rmdir", "shutil.rmtree"}


def mutation_events(log):
    bad = []
    for ev, path, mode, flags in log:
        if ev in MUTATING:
            bad.append((ev, path))
        elif ev == "open":
            m = mode if isinstance(mode, str) else ""
            writing = any(ch in m for ch in "wax+")
            if not m and isinstance(flags, int):
                writing = bool(flags & (os.O_WRONLY | os.O_RDWR | os.O_CREAT | os.O_TRUNC | os.O_APPEND))
            if writing:
                bad.append((ev, path, mode))
    return bad


def open_readonly(m, variant, root, budget):
    from twosigma.memento.storage_filesystem import FilesystemStorageBackend
    from twosigma.memento import StorageBackend
    data = os.path.join(root, "data")
    mb = budget / (1024.0 * 1024.0) if "cache" in variant else None
    if variant.startswith("sepmeta"):
        # metadata kept apart from the data
        if "cfg" in variant:
            return FilesystemStorageBackend(config={"path": data, "metadata_path": os.path.join(root, "meta"), "readonly": True}, memory_cache_mb=mb)
        return FilesystemStorageBackend(path=data, metadata_path=os.path.join(root, "meta"), memory_cache_mb=mb, read_only=True)
    if variant.startswith("arg"):
        return FilesystemStorageBackend(path=data, memory_cache_mb=mb, read_only=True)
    if variant.startswith("cfg"):
        return FilesystemStorageBackend(config={"path": data, "readonly": True}, memory_cache_mb=mb)
    if variant.startswith("create"):
        return StorageBackend.create("filesystem", {"type": "filesystem", "path": data, "readonly": True})
    raise ValueError(variant)


def run_storage_level(m, scratch, rng, rep, n_hist, length, ids):
    from . import fnlib
    terms, metas = [], []
    total = 0
    for variant in ("arg", "arg_cache", "cfg", "cfg_cache", "create", "sepmeta", "sepmeta_cfg_cache"):
        for h in range(n_hist):
            budget = rng.choice([4096, 2048])
            tag = "ro%s%d" % (variant, h)
            pre = c05.gen_history(rng, budget, rng.randint(4, 14), ids, allow_meta=True)
            pre = [o for o in pre if o[0] in ("memoize", "wmeta", "fcall")]
            w = BD.Driver(m, scratch, "fs_meta" if variant.startswith("sepmeta") else "fs", budget, tag=tag)
            pre_recs = [r for r in (w.apply(list(o)) for o in pre) if r is not None]
            snap = fnlib.tree_snapshot(w.root)
            ro_backend = open_readonly(m, variant, w.root, budget)
            d = BD.Driver(m, scratch, ("fs_meta_cache" if "cache" in variant else "fs_meta") if variant.startswith("sepmeta") else ("fs_cache" if "cache" in variant else "fs"), budget, tag=tag, backend=ro_backend)
            d.last_memento = dict(w.last_memento)
            ops = c05.gen_history(rng, budget, rng.randint(5, length), ids, with_data_prob=0.5, meta_any=True) + c05.sweep_ops()[:20]
            if not any(o[0] == "fall" for o in ops):
                ops.insert(rng.randrange(len(ops) // 2, len(ops)), ["fall"])
            steps = []
            BD._AUDIT["log"] = []
            for i, op in enumerate(ops):
                del BD._AUDIT["log"][:]
                rec = d.apply(list(op))
                if rec is None:
                    continue
                muts = mutation_events(BD._AUDIT["log"])
                if muts:
                    rep.violation("C19:fs-mutation-through-readonly:%s" % op[0],
                                  "read-only backend (%s): %s performed file-system mutations %r" % (variant, op[0], muts[:3]),
                                  {"variant": variant, "populate": pre, "ops": ops[:i + 1]})
                if rec["exc"] is not None:
                    if rec["exc"].startswith("ValueError") and op[0] in ("fcall", "ffn", "fall", "wmeta"):
                        out = "RRejected"
                    else:
                        rep.violation("C19:unexpected-exception:%s" % op[0],
                                      "read-only backend (%s): %s raised %s" % (variant, op[0], rec["exc"]),
                                      {"variant": variant, "populate": pre, "ops": ops[:i + 1]})
                        break
                else:
                    out = "RAns (%s)" % rec["out"]
                steps.append("(%s, %s)" % (rec["term"], out))
            BD._AUDIT["log"] = None
            after = fnlib.tree_snapshot(w.root)
            if after != snap:
                diff = sorted(set(after.items()) ^ set(snap.items()))[:4]
                rep.violation("C19:tree-changed-through-readonly",
                              "read-only backend (%s): files under the store changed: %r" % (variant, diff),
                              {"variant": variant, "populate": pre, "ops": ops})
            terms.append("(%s, %s, %s, %s)" % (C.coq_z(budget), C.coq_z(d.nsz),
                                               C.coq_list([r["term"] for r in pre_recs]), C.coq_list(steps)))
            metas.append((variant, pre, ops))
            total += 1
            import shutil
            shutil.rmtree(w.root, ignore_errors=True)
    try:
        res = C.run_coq_cases("c19", HEADER, terms, "rcase", case_type="Z * Z * list bop * list (bop * rout)")
    except RuntimeError as e:
        rep.broken.append("correspondence C19 (model could not be evaluated): %s" % str(e)[:400])
        res = []
    for (variant, pre, ops), r in zip(metas, res):
        if r is not None:
            rep.violation("C19:readonly-answer-differs:%s" % (ops[r][0] if r < len(ops) else "?"),
                          "read-only backend (%s): answer at step %d differs from the read-only model (reads as the dictionary, memoize skipped, forget / metadata writes rejected)" % (variant, r),
                          {"variant": variant, "populate": pre, "ops": ops[:r + 1]})
    return total


def run_function_level(m, scratch, rng, rep, n_seq):
    """function-level call sequences: read-only cluster, null storage, null runner"""
    from twosigma.memento.storage_filesystem import FilesystemStorageBackend
    from twosigma.memento.storage_memory import MemoryStorageBackend
    from twosigma.memento.storage_null import NullStorageBackend
    from twosigma.memento.runner_null import NullRunnerBackend
    from . import fnlib, fnmod
    tr = fnlib.Trace()
    total = 0
    for s in range(n_seq):
        root = os.path.join(scratch, "fl%d" % s)
        data = os.path.join(root, "data")
        # populate
        fnlib.set_env(m, root, {"fc": (FilesystemStorageBackend(path=data), None)})
        specs = [{"id": 100 * s + i, "calls": ([{"fn": "n1", "spec": {"id": 100 * s + 50 + i}}] if i % 2 else [])}
                 for i in range(4)]
        pre = [sp for sp in specs if rng.random() < 0.6]
        expect = {}
        for sp in pre:
            expect[sp["id"]] = fnmod.n0(sp)
        # a memoized failure (with a failing sub-call beneath it), for the recursive forgetting of exceptions
        fail_spec = {"id": 100 * s + 80, "calls": [{"fn": "n1", "spec": {"id": 100 * s + 81, "raise": {"cls": "ValueError", "msg": "inner"}}, "catch": True}],
                     "raise": {"cls": "ValueError", "msg": "outer"}}
        try:
            fnmod.n0(fail_spec)
        except ValueError:
            pass
        # a store state, not an operation: the data object of one memoized result is missing (a copy published
        # metadata first, an unmounted data path); calls through the read-only store recompute, and change nothing
        damaged = None
        if s % 3 == 2 and pre:
            try:
                from urllib.parse import urlparse, unquote
                st_w = FilesystemStorageBackend(path=data)
                url = st_w.make_url_for_result(fnmod.n0.memento(pre[0]))
                fpath = unquote(urlparse(url).path)
                if os.path.isfile(fpath) and os.path.realpath(fpath).startswith(os.path.realpath(root)):
                    os.remove(os.path.realpath(fpath))
                    damaged = pre[0]["id"]
            except Exception:
                damaged = None
        moved = s % 2 == 1
        if moved:
            # the populated store is moved (mounted elsewhere) before it is opened read-only
            shutil.move(root, root + "-moved")
            root = root + "-moved"
        snap = fnlib.tree_snapshot(root)
        for variant in ("arg", "cfg_cache"):
            ro = open_readonly(m, variant, root, 4096)
            fnlib.set_env(m, root, {"fc": (ro, None)})
            BD._AUDIT["root"], BD._AUDIT["log"] = root, []
            BD.install_audit()
            for sp in specs + specs:
                tr.clear()
                total += 1
                try:
                    v = fnmod.n0(sp)
                except Exception as e:
                    rep.violation("C19:call-through-readonly-raised", "call raised %s: %s" % (type(e).__name__, e),
                                  {"variant": variant, "populate": pre, "spec": sp})
                    continue
                ran = [e for e in tr.execs() if e[1] == "n0"]
                if sp["id"] == damaged:
                    if v != expect[sp["id"]] or len(ran) > 1:
                        rep.violation("C19:readonly-call-over-missing-data", "call whose stored result data is missing, through a read-only store: returned %r (expected %r), body ran %d times" % (v, expect[sp["id"]], len(ran)),
                                      {"variant": variant, "populate": pre, "spec": sp, "result data removed": True})
                elif sp["id"] in expect and moved:
                    # whether a relocated store still finds its entries is not the property's business; it must answer correctly
                    if v != expect[sp["id"]] or len(ran) > 1:
                        rep.violation("C19:readonly-memoized-call-not-served", "call through a relocated read-only store returned %r (expected %r), body ran %d times" % (v, expect[sp["id"]], len(ran)),
                                      {"variant": variant, "populate": pre, "spec": sp, "relocated": True})
                elif sp["id"] in expect:
                    if v != expect[sp["id"]] or ran:
                        rep.violation("C19:readonly-memoized-call-not-served",
                                      "memoized call through read-only store returned %r (expected %r), body ran %d times" % (v, expect[sp["id"]], len(ran)),
                                      {"variant": variant, "populate": pre, "spec": sp})
                elif len(ran) != 1:
                    rep.violation("C19:readonly-unmemoized-call-execs", "unmemoized call through read-only store ran the body %d times" % len(ran),
                                  {"variant": variant, "populate": pre, "spec": sp})
            # results staged on disk by the body (on-disk partitions) are the body's business, not the store's: nothing may
            # appear under the store while the call runs or while its result is alive
            keep_alive = []
            for oi, kindp in enumerate(("odpart", "part")):
                osp = {"id": 100 * s + 90 + oi, "ret": {"k": kindp, "v": [["a", {"k": "int", "v": 1}], ["b", {"k": "bytes", "v": "00ff"}]]}}
                try:
                    total += 1
                    pr = fnmod.n0(osp)
                    keep_alive.append(pr)
                    if sorted(pr.list_keys()) != ["a", "b"] or pr.get("a") != 1:
                        rep.violation("C19:readonly-partition-result", "a partition computed through a read-only store reads keys %r" % (sorted(pr.list_keys()),), {"variant": variant, "spec": osp})
                except Exception as e:
                    rep.violation("C19:call-through-readonly-raised", "call raised %s: %s" % (type(e).__name__, e), {"variant": variant, "spec": osp})
            mid = mutation_events(BD._AUDIT["log"])
            if mid or fnlib.tree_snapshot(root) != snap:
                rep.violation("C19:function-level-mutation-through-readonly", "a call returning a partition through a read-only cluster changed the store: %r" % (mid[:3],),
                              {"variant": variant, "populate": pre, "result": "on-disk / in-memory partition, still referenced"})
            del keep_alive
            import gc
            gc.collect()
            # forget through the function API must be rejected
            for what in ("forget", "forget_all", "forget_exceptions_recursively", "put_metadata"):
                try:
                    if what == "forget":
                        fnmod.n0.forget(specs[0])
                    elif what == "forget_all":
                        fnmod.n0.forget_all()
                    elif what == "forget_exceptions_recursively":
                        mm_ = fnmod.n0.memento(fail_spec)
                        if mm_ is None:
                            continue            # (a relocated store may not find the entry at all)
                        mm_.forget_exceptions_recursively()
                    else:
                        fnmod.n0.put_metadata("k", b"v", specs[0])
                    rep.violation("C19:%s-accepted-readonly" % what, "%s through a read-only store was not rejected" % what,
                                  {"variant": variant, "populate": pre})
                except ValueError:
                    pass
                except Exception as e:
                    if what != "put_metadata":
                        rep.violation("C19:%s-readonly-wrong-exception" % what, "%s: %s" % (type(e).__name__, e), {"variant": variant})
            muts = mutation_events(BD._AUDIT["log"])
            BD._AUDIT["root"], BD._AUDIT["log"] = None, None
            if muts or fnlib.tree_snapshot(root) != snap:
                rep.violation("C19:function-level-mutation-through-readonly",
                              "calls through a read-only cluster changed the store: %r" % (muts[:3],),
                              {"variant": variant, "populate": pre, "relocated": moved})
        # null storage: never memoized, body runs every time
        fnlib.set_env(m, root, {"fc": (NullStorageBackend(), None)})
        for sp in specs[:2]:
            tr.clear()
            a, b = fnmod.n0(sp), fnmod.n0(sp)
            total += 1
            n = len([e for e in tr.execs() if e[1] == "n0"])
            mem = fnmod.n0.memento(sp)
            if n != 2 or mem is not None or m.Environment.get().get_cluster("fc").storage.is_memoized(fnmod.n0.fn_reference(), fnmod.n0.fn_reference().with_args(sp).arg_hash):
                rep.violation("C19:null-storage-memoized", "null storage: body ran %d times for two calls, memento=%r" % (n, mem), {"spec": sp})
        # null runner: never executes (force_local excluded by the property)
        for storage in (NullStorageBackend(), MemoryStorageBackend()):
            fnlib.set_env(m, root, {"fc": (storage, NullRunnerBackend())})
            for sp in specs[:2]:
                tr.clear()
                total += 1
                try:
                    fnmod.n0(sp)
                    raised = None
                except Exception as e:
                    raised = type(e).__name__
                try:
                    fnmod.n0.call_batch([{"spec": sp}], raise_first_exception=False)
                except Exception:
                    pass
                if tr.execs() or raised != "RuntimeError":
                    rep.violation("C19:null-runner-executed", "null runner: %d bodies executed, call raised %r" % (len(tr.execs()), raised), {"spec": sp})
        # a function of a null-runner cluster called from INSIDE a running memento function of a local-runner cluster: its
        # body does not run there either (the nested call goes to its own cluster's runner)
        fnlib.set_env(m, root, {"fc": (MemoryStorageBackend(), None), "fc2": (MemoryStorageBackend(), NullRunnerBackend())})
        inner = {"id": 9990, "own": [["a", {"k": "int", "v": 1}]], "parent": None, "ondisk": False, "cl": 1}
        outer = {"id": 9991, "own": [["b", {"k": "int", "v": 2}]], "parent": inner, "ondisk": False}
        for how in ("call", "force_local", "batch"):
            tr.clear()
            total += 1
            try:
                if how == "call":
                    fnmod.pnode(outer)
                elif how == "force_local":
                    fnmod.pnode.force_local()(outer)
                else:
                    fnmod.pnode.call_batch([{"spec": outer}], raise_first_exception=True)
                raised = None
            except Exception as e:
                raised = type(e).__name__
            ran_inner = [e for e in tr.execs() if e[1] == "pnode" and e[2] == inner["id"]]
            if ran_inner:
                rep.violation("C19:null-runner-executed:nested", "a function of a null-runner cluster, called from inside a memento function of a local-runner cluster (outer invoked by %s): its body ran %d times (outer call raised %r)"
                              % (how, len(ran_inner), raised), {"outer": outer, "inner (null-runner cluster)": inner})
        # null runner over a store that already holds mementos: intact, and with the result data lost (separate metadata path,
        # data directory removed) -- whatever the call does, no body may run
        import shutil
        from twosigma.memento.storage_filesystem import FilesystemStorageBackend
        for lost in (False, True):
            for cache in (False, True):
                droot = os.path.join(root, "nr-%d%d" % (lost, cache))

                def mk():
                    return FilesystemStorageBackend(path=os.path.join(droot, "data"), metadata_path=os.path.join(droot, "meta"), memory_cache_mb=1 if cache else None)
                fnlib.set_env(m, root, {"fc": (mk(), None)})
                nested = {"id": 9900 + 2 * lost + cache, "calls": [{"fn": "n1", "spec": {"id": 9950 + 2 * lost + cache}}]}
                fnmod.n0(nested)
                if lost:
                    shutil.rmtree(os.path.join(droot, "data"), ignore_errors=True)
                fnlib.set_env(m, root, {"fc": (mk(), NullRunnerBackend())})
                for how in ("call", "batch", "map"):
                    tr.clear()
                    total += 1
                    try:
                        if how == "call":
                            fnmod.n0(nested)
                        elif how == "batch":
                            fnmod.n0.call_batch([{"spec": nested}], raise_first_exception=False)
                        else:
                            fnmod.n0.map_over_range(spec=[nested])
                    except Exception:
                        pass
                    if tr.execs():
                        rep.violation("C19:null-runner-executed:%s" % ("result-data-lost" if lost else "memoized"),
                                      "null runner over a store holding the memento (%s, %s): %s executed bodies %r" % (
                                          "result data removed" if lost else "intact", "with cache" if cache else "no cache", how, [e[1] for e in tr.execs()]), {"spec": nested})
                shutil.rmtree(droot, ignore_errors=True)
        shutil.rmtree(root, ignore_errors=True)
    return total


def run_configured_clusters(m, scratch, rng, rep, n):
    """a store populated through a writable cluster DESCRIBED BY A CONFIGURATION, then opened read-only through another
    configuration of the same directory while the first environment is still alive in the process"""
    from twosigma.memento import Environment, ConfigurationRepository, FunctionCluster
    from . import fnlib, fnmod
    tr = fnlib.Trace()
    total = 0
    for s in range(n):
        root = os.path.join(scratch, "cc%d" % s)
        data = os.path.join(root, "data")
        cache = s % 2 == 1

        def env(readonly):
            st = {"type": "filesystem", "path": data}
            if readonly:
                st["readonly"] = True
            if cache:
                st["memory_cache_mb"] = 1
            e = Environment(name="e", base_dir=root, repos=[ConfigurationRepository(name="r", clusters={"fc": FunctionCluster(config={"name": "fc", "storage": st, "runner": {"type": "local"}})})])
            Environment.set(e)
            return e
        writable = env(False)
        specs = [{"id": 300000 + 100 * s + i} for i in range(4)]
        for sp in specs[:2]:
            fnmod.n0(sp)
        snap = fnlib.tree_snapshot(root)
        readonly = env(True)          # [writable] is still referenced here
        meta = {"store": "filesystem, configured by dictionary" + (" with memory cache" if cache else ""), "populated_ids": [sp["id"] for sp in specs[:2]]}
        st = readonly.get_cluster("fc").storage
        total += 1
        if not st.read_only:
            rep.violation("C19:configured-readonly-ignored", "a cluster configured with readonly: true on a directory already opened by a writable cluster of the same process has read_only=%r" % (st.read_only,), meta)
        BD._AUDIT["root"], BD._AUDIT["log"] = root, []
        BD.install_audit()
        for sp in specs + specs:
            tr.clear()
            fnmod.n0(sp)
            total += 1
        for what in ("forget", "forget_all"):
            try:
                fnmod.n0.forget(specs[0]) if what == "forget" else fnmod.n0.forget_all()
                rep.violation("C19:%s-accepted-readonly" % what, "%s through a cluster configured read-only was not rejected" % what, meta)
            except ValueError:
                pass
            except Exception as e:
                rep.violation("C19:%s-readonly-wrong-exception" % what, "%s: %s" % (type(e).__name__, e), meta)
        muts = mutation_events(BD._AUDIT["log"])
        BD._AUDIT["root"], BD._AUDIT["log"] = None, None
        if muts or fnlib.tree_snapshot(root) != snap:
            rep.violation("C19:function-level-mutation-through-readonly", "calls through a cluster configured read-only (same directory as a live writable cluster) changed the store: %r" % (muts[:3],), meta)
        del writable
    return total


def run(tier, seed):
    rep = C.Report("C19", tier, seed)
    gate = C.proof_gate("C19")
    rng = random.Random(seed)
    n_hist, length, n_seq = (8, 25, 6) if tier == "quick" else (80, 60, 60)
    with C.Scratch("c19") as scratch:
        from . import implenv
        m = implenv.setup(scratch)
        ids = [0]
        t1 = run_storage_level(m, scratch, rng, rep, n_hist, length, ids)
        t2 = run_function_level(m, scratch, rng, rep, n_seq)
        t2 += run_configured_clusters(m, scratch, rng, rep, 2 if tier == "quick" else 12)
        rep.samples.append({"storage_level": "populate with random memoize/metadata ops, reopen read-only (variants arg/arg_cache/cfg/cfg_cache/create), random C05 histories + sweep",
                            "function_level": "n0(spec) calls for pre-memoized and new specs through a read-only cluster, null storage, null runner"})
        rep.coverage.update({
            "evaluations": t1 + t2, "distinct_nontrivial": t1,
            "rule": "storage level: %d populated stores x 5 ways of opening read-only x random histories (all C05 operations) — every operation's file-system audit events "
                    "(open-for-write, mkdir, remove, rename, rmdir, rmtree) under the store root must be empty, the tree snapshot (paths + sha256) must be unchanged, and answers "
                    "must equal the read-only model; function level: call sequences through read-only / null-storage / null-runner clusters with execution traces; "
                    "non-trivial = storage-level history on a non-empty store" % (t1,),
            "traces_validated_against_impl": t1,
        })
        rep.assumptions = ["file-system writes are observed through CPython audit events (open, os.mkdir, os.remove, os.rename, os.rmdir, shutil.rmtree) and by re-hashing the whole tree",
                           "force_local() replaces the configured runner by design and is outside 'the null runner never executes'"]
    return rep.finish(gate)
