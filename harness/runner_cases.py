"""Generated call DAGs for the runner properties (C02 / C10 / C15 / C16): a program is a table
id -> node (function index, fails?, batch?, kids with context overrides), mapped onto the spec
arguments of harness/fnmod.py; the same table is the input of the Coq model Runner/Run.v."""
import builtins
import os

from . import common as C

FN_NAMES = ["n0", "n1", "n2", "n3"]

HEADER = """From Coq Require Import List Arith Bool.
From Memento Require Import Runner.Run.
Import ListNotations.
"""


def gen_program(rng, n, p_fail=0.15, p_batch=0.3, p_ctx=0.3, max_kids=3):
    """nodes 1..n; kids have smaller ids; batch nodes call kids of one function with one override"""
    prog = {}
    for i in range(1, n + 1):
        fn = rng.randrange(4)
        fails = rng.random() < p_fail
        batch = rng.random() < p_batch and i > 1
        kids = []
        if i > 1:
            nk = rng.randint(0, max_kids)
            cands = list(range(1, i))
            if batch:
                f0 = prog[rng.choice(cands)]["fn"]
                cands = [c for c in cands if prog[c]["fn"] == f0]
                ov = rng.choice([None, None, 0, 1, 2]) if rng.random() < p_ctx else None
                kids = []
                for _ in range(nk):
                    # duplicates inside one batch matter: the second one is found inside the per-call mutex
                    if kids and rng.random() < 0.45:
                        kids.append(rng.choice(kids))
                    else:
                        kids.append((max(cands) if rng.random() < 0.5 else rng.choice(cands), ov))
            else:
                for _ in range(nk):
                    ov = rng.choice([0, 1, 2, 3]) if rng.random() < p_ctx else None
                    kids.append((rng.choice(cands), ov))
        prog[i] = {"fn": fn, "fails": fails, "batch": batch and len(kids) > 0, "kids": kids}
    return prog


def ctx_dict(c):
    # 0: the explicit empty dictionary; 3: an entry whose value is None (not the same context as the empty one)
    # 4, 5: values that Python considers equal to 1 but that are different context arguments
    return None if c is None else ({} if c == 0 else ({"c": None} if c == 3 else ({"c": True} if c == 4 else ({"c": 1.0} if c == 5 else {"c": c}))))


def spec_of(prog, i, memo=None):
    memo = {} if memo is None else memo
    if i in memo:
        return memo[i]
    d = prog[i]
    s = {"id": i}
    calls = []
    if d["batch"]:
        k0, ov = d["kids"][0]
        call = {"fn": FN_NAMES[prog[k0]["fn"]], "batch": [spec_of(prog, k, memo) for k, _ in d["kids"]], "raise_first": False, "catch": True}
        if ov is not None:
            call["ctx"] = ctx_dict(ov)
        calls.append(call)
    else:
        for k, ov in d["kids"]:
            call = {"fn": FN_NAMES[prog[k]["fn"]], "spec": spec_of(prog, k, memo), "catch": True}
            if ov is not None:
                call["ctx"] = ctx_dict(ov)
            calls.append(call)
    if calls:
        s["calls"] = calls
    if d["fails"]:
        s["raise"] = {"cls": "ValueError", "msg": str(i)}
    memo[i] = s
    return s


def eff(parent, ov):
    return parent if ov is None else ov


def ref_value(prog, i, ctx=0):
    """un-memoized reference evaluation: ('val', n) or ('exc', id)"""
    d = prog[i]
    total = 0
    for k, ov in d["kids"]:
        r = ref_value(prog, k, eff(ctx, ov))
        if r[0] == "val":
            total += r[1]
    return ("exc", i) if d["fails"] else ("val", i + total)


def subcalls(prog, i, ctx, acc=None):
    """all (id, effective ctx) reachable beneath a call, in first-visit order"""
    acc = [] if acc is None else acc
    for k, ov in prog[i]["kids"]:
        key = (k, eff(ctx, ov))
        if key not in acc:
            acc.append(key)
            subcalls(prog, k, key[1], acc)
    return acc


def coq_prog(prog):
    rows = []
    for i, d in sorted(prog.items()):
        kids = C.coq_list(["(%d, %s)" % (k, "None" if ov is None else "Some %d" % ov) for k, ov in d["kids"]])
        rows.append("(%d, {| nfn := %d; nfails := %s; nbatch := %s; nkids := %s |})" % (i, d["fn"], C.coq_bool(d["fails"]), C.coq_bool(d["batch"]), kids))
    return C.coq_list(rows)


def coq_outcome(o):
    return "Val %d" % o[1] if o[0] == "val" else "Exc %d" % o[1]


def coq_keys(ks):
    return C.coq_list(["(%d, %d)" % k for k in ks])


class Runner:
    """executes node calls on the real implementation under a given storage backend"""

    def __init__(self, m, scratch, storage):
        from . import fnlib, fnmod
        self.m, self.fnmod = m, fnmod
        self.trace = fnlib.Trace()
        fnlib.set_env(m, scratch, {"fc": (storage, None)})
        self.storage = storage

    def fn_for(self, prog, i, ctx):
        f = self.fnmod.FUNCS[FN_NAMES[prog[i]["fn"]]]
        if ctx:
            f = f.with_context_args(ctx_dict(ctx))
        return f

    def call(self, prog, i, ctx=0):
        """returns (outcome, executed node ids in order)"""
        self.trace.clear()
        builtins._vt = self.trace.events.append
        f = self.fn_for(prog, i, ctx)
        try:
            v = f(spec_of(prog, i))
            out = ("val", v)
        except ValueError as e:
            out = ("exc", int(str(e).split(".")[0]))
        execs = [e[2] for e in self.trace.events if e[0] == "exec"]
        return out, execs

    def memento(self, prog, i, ctx=0):
        f = self.fn_for(prog, i, ctx)
        mm = f.memento(spec_of(prog, i))
        if mm is None:
            return None
        invs = []
        for x in mm.invocation_metadata.invocations:
            kw = x.effective_kwargs if hasattr(x, "effective_kwargs") else x.kwargs
            sid = (kw.get("spec") or (x.args[0] if x.args else {})).get("id")
            ca = x.context_args or {}
            c = (3 if ca["c"] is None else 4 if ca["c"] is True else 5 if isinstance(ca["c"], float) else ca["c"]) if "c" in ca else 0
            invs.append((sid, c))
        deps = sorted({FN_NAMES.index(d.qualified_name.split(":")[-1].split("#")[0]) for d in mm.function_dependencies})
        return {"invocations": invs, "deps": deps, "result_type": mm.invocation_metadata.result_type.name}


def make_storage(kind, scratch, tag):
    from twosigma.memento.storage_filesystem import FilesystemStorageBackend
    from twosigma.memento.storage_memory import MemoryStorageBackend
    if kind == "mem":
        return MemoryStorageBackend()
    path = os.path.join(scratch, "store-%s" % tag)
    if kind == "fs":
        return FilesystemStorageBackend(path=path)
    if kind == "fs_cache":
        return FilesystemStorageBackend(path=path, memory_cache_mb=1)
    if kind == "fs_tinycache":
        return FilesystemStorageBackend(path=path, memory_cache_mb=400 / (1024.0 * 1024.0))
    raise ValueError(kind)
