"""C08 — a crash or I/O fault at any point of a write never poisons the filesystem store.
Theorem: Storage/CrashProofs.v (all histories of calls / crashes / faults over the finite store
model, for the configuration extracted from the current source).
Correspondence / search: exhaustive fault injection on the real filesystem backend — for every
mutating file-system call issued under the store root while memoizing, {process death before it,
death in the middle of the file write (file left empty / cut at a directory boundary / cut
elsewhere / half), ENOSPC on open, ENOSPC on write}; after the fault all in-memory state is
dropped and recovery calls of the same function and of another function producing the same
bytes are run. Outcomes are compared with the model's prediction and checked directly against
the property (right value, no exception, second call served from the store)."""
import builtins
import errno
import io
import os
import random
import shutil
import sys

from . import common as C

HEADER = """From Coq Require Import List Bool Arith.
From Memento Require Import Storage.Crash Gen.SourceFacts.
Import ListNotations.
Definition ofact (o : option bool) : bool := match o with Some b => b | None => false end.
Definition current_ccfg : ccfg :=
  {| rd_is_file := ofact rd_is_file_fact; obj_first := ofact obj_first_fact;
     data_first := ofact data_first_fact; atomic_links := ofact atomic_links_fact |}.
(* model prediction for: fault event, then F, F, G, G recovery calls: code = list of (raised?, ran?) as numbers *)
Definition obs (r : outcome * bool * st) : nat := match r with (Raised, _, _) => 2 | (Value, true, _) => 1 | (Value, false, _) => 0 end.
Fixpoint recover (s : st) (xs : list who) : list nat :=
  match xs with [] => [] | x :: r => let y := call current_ccfg x None s in obs y :: recover (snd y) r end.
Definition predict (c : who * nat * nat * list nat) : option nat :=
  let '(x, n, t, seen) := c in
  let tr := match t with 0 => TNone | 1 => TEmpty | 2 => TDirPrefix | _ => TDangling end in
  let s := snd (call current_ccfg x (Some (n, tr)) st0) in
  let want := recover s [F; F; G; G] in
  if forallb (fun p => Nat.eqb (fst p) (snd p)) (combine want seen) && Nat.eqb (length want) (length seen) then None
  else Some (fold_left (fun acc d => acc * 3 + d) want 0).
Definition role (p : prim) : nat := match p with
  | PDObjCreate => 1 | PDObjWrite => 1 | PDLinkCreate => 2 | PDLinkWrite => 2
  | PMObjCreate _ => 3 | PMObjWrite _ => 3 | PMLinkCreate _ => 4 | PMLinkWrite _ => 4 end.
Fixpoint dedup (l : list nat) : list nat := match l with a :: ((b :: _) as r) => if Nat.eqb a b then dedup r else a :: dedup r | other => other end.
Definition protocol_case (c : who * nat * nat * list nat) : option nat :=
  let '(_, _, _, seen) := c in
  if forallb (fun p => Nat.eqb (fst p) (snd p)) (combine (dedup (map role (memoize_trace current_ccfg F st0))) seen)
     && Nat.eqb (length (dedup (map role (memoize_trace current_ccfg F st0)))) (length seen) then None else Some 0.
Definition anycase (c : bool * (who * nat * nat * list nat)) : option nat :=
  if fst c then protocol_case (snd c) else predict (snd c).
"""


class CrashNow(BaseException):
    """process death at this point"""


class Fault:
    """fault controller: counts mutating file-system events under [root]; at event [at] applies [kind]"""

    def __init__(self):
        self.root = None
        self.events = None     # recording list or None
        self.at = None
        self.kind = None
        self.cut = None
        self.count = 0
        self.armed_file = None
        self.dead = False

    def reset(self, root, at=None, kind=None, cut=None, record=False):
        self.root, self.at, self.kind, self.cut = root, at, kind, cut
        self.count = 0
        self.events = [] if record else None
        self.armed_file = None
        self.dead = False      # after a crash nothing more reaches the file system: clean-up code (finally / except blocks that
                               # remove or rename files) runs in this process but its file operations are refused, as if it had died


FAULT = Fault()
_installed = [False]
_real_open = io.open


def _is_write_mode(mode, flags):
    m = mode if isinstance(mode, str) else ""
    if m:
        return any(ch in m for ch in "wax+")
    if isinstance(flags, int):
        return bool(flags & (os.O_WRONLY | os.O_RDWR | os.O_CREAT | os.O_TRUNC | os.O_APPEND))
    return False


def _hook(event, args):
    f = FAULT
    if f.root is None:
        return
    if event not in ("open", "os.mkdir", "os.remove", "os.rename", "os.rmdir", "shutil.rmtree"):
        return
    p = args[0] if args else None
    if hasattr(p, "__fspath__"):
        p = os.fspath(p)           # pathlib paths handed to io.FileIO / os functions
    if isinstance(p, bytes):
        p = p.decode("utf-8", "replace")
    if not isinstance(p, str) or not p.startswith(f.root):
        return
    if event == "open" and not _is_write_mode(args[1] if len(args) > 1 else None, args[2] if len(args) > 2 else None):
        return
    if f.dead:
        raise CrashNow()
    idx = f.count
    f.count += 1
    if f.events is not None:
        f.events.append((event, p[len(f.root):]))
    if f.at is not None and idx == f.at:
        if f.kind == "crash-before":
            f.dead = True
            raise CrashNow()
        if f.kind == "error-before":
            raise OSError(errno.ENOSPC, "No space left on device (injected)")
        if f.kind in ("crash-mid", "error-mid") and event == "open":
            f.armed_file = p


class FaultyFile:
    """proxy for a file opened for writing: the first write stores a prefix and then fails"""

    def __init__(self, real, path):
        self._real, self._path = real, path

    def write(self, data):
        f = FAULT
        cut = f.cut(data, self._path) if callable(f.cut) else 0
        if cut:
            self._real.write(data[:cut])
        self._real.flush()
        f.armed_file = None
        if f.kind == "crash-mid":
            self._real.close()
            f.dead = True
            raise CrashNow()
        raise OSError(errno.ENOSPC, "No space left on device (injected)")

    def __enter__(self):
        return self

    def __exit__(self, *a):
        try:
            self._real.close()
        except Exception:
            pass
        return False

    def __getattr__(self, name):
        return getattr(self._real, name)


def _patched_open(file, *a, **kw):
    real = _real_open(file, *a, **kw)
    f = FAULT
    if f.armed_file is not None:
        try:
            p = os.fspath(file)
        except TypeError:
            p = None
        if p == f.armed_file:
            return FaultyFile(real, p)
    return real


_real_fileio = io.FileIO


class ShortWriteFileIO(_real_fileio):
    """raw files opened with io.FileIO directly: a full disk shows as the kernel reports it -- a SHORT write now (the count
    of bytes written is returned, no error), the error only on the following write"""

    def write(self, b):
        f = FAULT
        try:
            p = os.fspath(self.name)
        except TypeError:
            p = None
        if f.armed_file is not None and p == f.armed_file:
            data = bytes(b)
            cut = f.cut(data, p) if callable(f.cut) else 0
            f.armed_file = None
            if f.kind == "crash-mid":
                if cut:
                    _real_fileio.write(self, data[:cut])
                f.dead = True
                raise CrashNow()
            self._fail_next = True
            if cut:
                return _real_fileio.write(self, data[:cut])
            raise OSError(errno.ENOSPC, "No space left on device (injected)")
        if getattr(self, "_fail_next", False):
            raise OSError(errno.ENOSPC, "No space left on device (injected)")
        return _real_fileio.write(self, b)


def install():
    if not _installed[0]:
        sys.addaudithook(_hook)
        builtins.open = _patched_open
        io.open = _patched_open
        io.FileIO = ShortWriteFileIO
        _installed[0] = True


# ---- cuts for link files (text) and object files (bytes)
def cut_empty(data, path):
    return 0


def cut_half(data, path):
    return max(1, len(data) // 2)


def cut_dir_boundary(data, path):
    """prefix of the link text that names an existing directory (the version directory's parent)"""
    s = data if isinstance(data, str) else None
    if s is None:
        return 0
    i = s.rfind("/.versions/")
    return i + len("/.versions") if i > 0 else 0


def cut_mid_component(data, path):
    s = data if isinstance(data, str) else None
    if s is None:
        return max(1, len(data) - 3)
    i = s.rfind("/.versions/")
    return i + len("/.versions/") + 5 if i > 0 else max(1, len(s) - 3)


LINK_CUTS = [("empty", cut_empty, 1), ("dir-prefix", cut_dir_boundary, 2), ("mid-component", cut_mid_component, 3), ("half", cut_half, 3)]
OBJ_CUTS = [("empty", cut_empty, 0), ("half", cut_half, 0)]

SCENARIOS = {
    "value": {"F": {"id": 1, "ret": {"k": "bytes", "v": "00112233445566778899aabbccddeeff" * 8}}},
    "null": {"F": {"id": 1, "ret": {"k": "none"}}},
    "exception": {"F": {"id": 1, "raise": {"cls": "ValueError", "msg": "boom"}}},
    "override": {"F": {"id": 1, "ret": {"k": "str", "v": "hello" * 20}, "override": "ov/key"}},
    "partition": {"F": {"id": 1, "ret": {"k": "part", "v": [["a", {"k": "int", "v": 1}], ["b", {"k": "str", "v": "x" * 50}]]}}},
    "nested": {"F": {"id": 1, "calls": [{"fn": "n2", "spec": {"id": 7, "ret": {"k": "str", "v": "inner" * 10}}}],
                     "ret": {"k": "str", "v": "outer" * 10}}},
}


def fresh_env(m, root, separate_meta, cache):
    from twosigma.memento.storage_filesystem import FilesystemStorageBackend
    from . import fnlib
    kw = {"path": os.path.join(root, "data")}
    if separate_meta:
        kw["metadata_path"] = os.path.join(root, "meta")
    if cache:
        kw["memory_cache_mb"] = 1
    fnlib.set_env(m, root, {"fc": (FilesystemStorageBackend(**kw), None)})


def norm(v):
    """comparable form of a returned value"""
    from twosigma.memento.partition import Partition
    if isinstance(v, Partition):
        return ("part", tuple((k, norm(v.get(k))) for k in sorted(v.list_keys())))
    return repr(v)


def one_call(fn, spec, tr, fname):
    tr.clear()
    try:
        v = fn(spec)
        out = ("value", norm(v))
    except CrashNow:
        raise
    except BaseException as e:
        # a replayed exception carries the original message as a prefix (C02); compare class + that prefix
        out = ("raised", "%s: %s" % (type(e).__name__, str(e).split(". Original stack trace follows")[0][:80]))
    ran = len([e for e in tr.execs() if e[1] == fname])
    return out, ran


def classify_events(events):
    """roles of the recorded mutating events: 0 mkdir/other, 1 data object, 2 data link, 3 memento object, 4 memento link"""
    roles = []
    for ev, p in events:
        if ev != "open":
            roles.append(0)
            continue
        is_link = p.endswith(".link")
        is_meta = "/m/" in p or p.startswith("/meta/")
        roles.append((4 if is_link else 3) if is_meta else (2 if is_link else 1))
    return roles


def run_scenario(m, scratch, rep, name, separate_meta, cache, tr, collect, pre_g=False):
    from . import fnmod
    spec_f = SCENARIOS[name]["F"]
    spec_g = dict(spec_f, id=2)
    root = os.path.join(scratch, "c08-%s-%d%d" % (name, separate_meta, cache))

    def reference_outcome():
        shutil.rmtree(root, ignore_errors=True)
        fresh_env(m, root, separate_meta, cache)
        if pre_g:
            one_call(fnmod.n1, spec_g, tr, "n1")        # another function already memoized the same result
        FAULT.reset(root, record=True)
        out, ran = one_call(fnmod.n0, spec_f, tr, "n0")
        events = list(FAULT.events)
        FAULT.reset(None)
        return out, events
    ref, events = reference_outcome()
    if name == "exception":
        ref = ("raised", ref[1])
    roles = classify_events(events)
    n_points = 0
    variants = []
    for i, (ev, p) in enumerate(events):
        variants.append((i, "crash-before", None, None))
        variants.append((i, "error-before", None, None))
        if ev == "open":
            cuts = LINK_CUTS if p.endswith(".link") else OBJ_CUTS
            for cname, cfn, tcode in cuts:
                variants.append((i, "crash-mid", cname, cfn))
                variants.append((i, "error-mid", cname, cfn))
    variants.append((len(events), "crash-before", None, None))   # no fault at all
    for (i, kind, cname, cfn) in variants:
        n_points += 1
        shutil.rmtree(root, ignore_errors=True)
        fresh_env(m, root, separate_meta, cache)
        if pre_g:
            one_call(fnmod.n1, spec_g, tr, "n1")
        FAULT.reset(root, at=i, kind=kind, cut=cfn)
        crashed = False
        first = None
        try:
            first, _ = one_call(fnmod.n0, spec_f, tr, "n0")
        except CrashNow:
            crashed = True
        FAULT.reset(None)
        replay = {"scenario": name + ("+same result already memoized by another function" if pre_g else ""), "separate_metadata_path": separate_meta, "cache": cache,
                  "fault": {"event_index": i, "event": events[i] if i < len(events) else None, "kind": kind, "cut": cname},
                  "recorded_events": events}
        if not crashed and first is not None and first != ref:
            rep.violation("C08:faulted-call-wrong-outcome:%s" % kind,
                          "the call during which the I/O error was injected returned %r instead of %r" % (first, ref), replay)
        # restart: drop every in-memory object
        fresh_env(m, root, separate_meta, cache)
        seen = []
        for (fn, spec, fname) in ((fnmod.n0, spec_f, "n0"), (fnmod.n0, spec_f, "n0"), (fnmod.n1, spec_g, "n1"), (fnmod.n1, spec_g, "n1")):
            out, ran = one_call(fn, spec, tr, fname)
            seen.append((out, ran))
        replay["recovery_calls"] = [[list(o), r] for o, r in seen]
        want = ref
        sigbase = "%s:%s%s" % (kind, "link" if (i < len(events) and events[i][1].endswith(".link")) else "obj-or-dir", (":" + cname) if cname else "")
        for j, (out, ran) in enumerate(seen):
            if out != want:
                rep.violation("C08:recovery-wrong-outcome:%s" % sigbase,
                              "after the fault, recovery call %d (%s) gave %r instead of %r" % (j, "F" if j < 2 else "G", out, want), replay)
                break
        else:
            for j in ((1, 2, 3) if pre_g else (1, 3)):
                if seen[j][1] != 0:
                    rep.violation("C08:recomputes-forever:%s" % sigbase,
                                  "after the fault, the %s call of %s still ran the body (the store never recovers)" % ("first" if j == 2 else "second", "F" if j == 1 else "G"), replay)
                    break
        # model prediction (plain value scenario only): which prim count does this point correspond to?
        if name == "value" and collect is not None and not pre_g:
            prims_before = 0
            for k in range(min(i, len(events))):
                if roles[k] in (1, 3):
                    prims_before += 2      # create + write of an object
                elif roles[k] in (2, 4):
                    prims_before += 2      # create + write of a link (in place)
            t = 0
            n = prims_before
            if kind in ("crash-mid", "error-mid"):
                n = prims_before + 1
                if events[i][1].endswith(".link"):
                    t = dict((c[0], c[2]) for c in LINK_CUTS)[cname]
            obs = []
            for (out, ran) in seen:
                obs.append(2 if out[0] == "raised" and ref[0] != "raised" else (1 if ran else 0))
            collect.append(("(false, (F, %d, %d, %s))" % (n, t, C.coq_list([str(x) for x in obs])), replay))
    if name == "value" and collect is not None:
        seenroles = [r for r in roles if r]
        collect.append(("(true, (F, 0, 0, %s))" % C.coq_list([str(x) for x in seenroles]),
                        {"recorded_protocol_roles": seenroles, "recorded_events": events}))
    shutil.rmtree(root, ignore_errors=True)
    return n_points, len(events)


def run(tier, seed):
    rep = C.Report("C08", tier, seed)
    gate = C.proof_gate("C08")
    with C.Scratch("c08") as scratch:
        from . import implenv
        m = implenv.setup(scratch)
        from . import fnlib, fnmod  # noqa: F401
        install()
        tr = fnlib.Trace()
        if tier == "quick":
            plan = [("value", False, False), ("value", True, False), ("exception", False, False), ("override", False, False), ("null", False, False)]
        else:
            plan = [(n, sm, ca) for n in SCENARIOS for sm in (False, True) for ca in (False, True)]
        collect = []
        total, nevents = 0, {}
        for name, sm, ca in plan:
            n, ne = run_scenario(m, scratch, rep, name, sm, ca, tr, collect if not ca else None)
            total += n
            nevents["%s/%s/%s" % (name, "sepmeta" if sm else "shared", "cache" if ca else "nocache")] = ne
        # the result is already in the store, memoized by another function, when the faulted write happens
        for sm in ((False,) if tier == "quick" else (False, True)):
            n, ne = run_scenario(m, scratch, rep, "value", sm, False, tr, None, pre_g=True)
            total += n
            nevents["value+shared-result/%s/nocache" % ("sepmeta" if sm else "shared")] = ne
        FAULT.reset(None)
        terms = [c[0] for c in collect]
        try:
            res = C.run_coq_cases("c08", HEADER, terms, "anycase", case_type="bool * (who * nat * nat * list nat)")
        except RuntimeError as e:
            rep.broken.append("correspondence C08 (model could not be evaluated): %s" % str(e)[:400])
            res = [None] * len(terms)
        nm = 0
        for (term, replay), r in zip(collect, res):
            if r is not None:
                nm += 1
                if "recorded_protocol_roles" in replay:
                    rep.broken.append("C08 write protocol: the order of object / link / memento writes recorded from the implementation "
                                      "(%r) is not the protocol the theorem is about" % (replay["recorded_protocol_roles"],))
                else:
                    rep.broken.append("C08 correspondence: recovery behaviour after fault %r differs from the crash model's prediction (model code %d)" % (replay["fault"], r))
        rep.samples.append({"scenario": plan[0][0], "events_recorded": nevents, "example_fault": collect[3][1]["fault"] if len(collect) > 3 else None})
        rep.coverage.update({
            "evaluations": total, "distinct_nontrivial": total, "exhaustive": True,
            "rule": "per scenario %s: record the mutating file-system calls (mkdir / open-for-write / remove / rename / rmdir) under the store root during the memoizing call, "
                    "then for EVERY such call: death before it, ENOSPC before it, and for every file opened for writing death / ENOSPC in the middle of the write with the file left "
                    "empty, cut at a directory boundary, cut mid-component, or half-written; restart (fresh backend objects); recovery calls F,F,G,G (G = another function producing the "
                    "same result). Every fault point is a distinct non-trivial case." % ([p[0] for p in plan],),
            "model_predictions_compared": len(terms), "model_mismatches": nm, "traces_validated_against_impl": len(terms),
        })
        rep.assumptions = ["process death / reported I/O error at Python-call granularity; a file's content is old, empty, or a prefix",
                           "restart is simulated in-process by rebuilding every backend object (the fault exception is a BaseException nobody catches)",
                           "not modelled: power loss with unsynced page cache, torn renames, concurrent writers"]
    return rep.finish(gate)
