"""Memento functions with fixed explicit versions in a named cluster, used by the storage-level
harnesses to build function references whose qualified names are prefixes of each other
(f / f1) and whose versions are prefixes of each other ('1' / '10')."""
from twosigma.memento import memento_function


@memento_function(cluster="vc", version="1")
def f(a):
    return a


@memento_function(cluster="vc", version="1")
def f1(a):
    return a


@memento_function(cluster="vc", version="1")
def g(a):
    return a
