"""Helpers for the function-level harnesses: environment / cluster set-up and execution traces."""
import builtins


class Trace:
    """body executions are reported through builtins._vt, a C-level bound method
    (list.append) that memento's dependency scan cannot see"""

    def __init__(self):
        self.events = []
        builtins._vt = self.events.append

    def clear(self):
        del self.events[:]

    def execs(self):
        return [e for e in self.events if e[0] == "exec"]


def set_env(m, scratch, clusters, name="verif"):
    """clusters: dict cluster name -> (storage backend, runner backend or None)"""
    from twosigma.memento import Environment, ConfigurationRepository, FunctionCluster
    fcs = {}
    for cname, (storage, runner) in clusters.items():
        kw = {"name": cname, "storage": storage}
        if runner is not None:
            kw["runner"] = runner
        fcs[cname] = FunctionCluster(**kw)
    env = Environment(name=name, base_dir=scratch, repos=[ConfigurationRepository(name="repo", clusters=fcs)])
    m.Environment.set(env)
    return env


def tree_snapshot(root):
    """(relative path -> sha256, size) of every file under root"""
    import hashlib
    import os
    out = {}
    for dp, dn, fns in os.walk(root):
        for fn in fns:
            p = os.path.join(dp, fn)
            with open(p, "rb") as f:
                out[os.path.relpath(p, root)] = hashlib.sha256(f.read()).hexdigest()
        if not fns and not dn:
            out[os.path.relpath(dp, root) + "/"] = "dir"
    return out
