"""C13 — the in-process version cache is coherent with a from-scratch computation.
Theorem: Version/VCacheProofs.v (the generation counter + per-rule change detection return the
from-scratch version after any event sequence). Correspondence: generated programs x random
histories of in-process events (redefinitions of memento / plain functions, rebinding / mutation
of tracked variables, late definition of undefined names, memento <-> plain, alias rebinding,
modifier clones, unregistered wrappers) with version queries at every position, compared with a
fresh interpreter's versions for the program as it stands at that position."""
import copy
import os
import random
from concurrent.futures import ThreadPoolExecutor

from . import common as C
from . import vprog
from . import c01

HEADER = """From Coq Require Import List Arith Bool.
From Memento Require Import Version.Rules Version.Stale.
Import ListNotations.
"""

EVENT_KINDS = ["redef-m", "redef-m", "redef-p", "redef-p", "rebind-var", "rebind-var", "mutate-var", "define-undefined", "m-to-p", "p-to-m",
               "rebind-alias", "clone", "wrapper", "new-default", "change-then-clone", "change-then-clone"]


def def_src(spec, n):
    # CPython 3.12 compiles `b.f(x)` differently when `b` is bound by an import statement of the same compilation
    # unit (no method-call form), and the code hash covers co_code: the snippet repeats the module's import line
    # so that a re-executed definition is compiled exactly as it is inside its module
    return "\n".join(vprog.import_lines(spec, n["module"]) + vprog.def_lines(spec, n)[0]) + "\n"


def alias_events(spec, target):
    """re-run the alias assignments that name [target] (as re-running the cell that holds them would)"""
    evs = []
    for n in spec["nodes"]:
        for rf in n.get("refs", []):
            if rf[1] == "alias" and rf[0] == target:
                evs.append({"op": "alias", "mod": n["module"], "name": rf[2] if len(rf) > 2 else "al_%s_%s" % (n["name"], target), "target": target})
    return evs


def gen_history(rng, n_events):
    spec = vprog.gen_spec(rng, n_m=rng.randint(2, 4), n_p=rng.randint(1, 3), n_v=rng.randint(2, 3), n_u=rng.randint(1, 2), p_hidden=0.0, p_explicit=0.15,
                          pkg2=rng.random() < 0.3, vdef=True)
    # make aliases likelier
    fns = [n for n in spec["nodes"] if n["kind"] in "mp"]
    for n in fns:
        same = [c for c in fns if c is not n and c["module"] == n["module"] and c["name"] not in [r[0] for r in n["refs"]]]
        if same and rng.random() < 0.4:
            n["refs"].append([rng.choice(same)["name"], "alias"])
    spec0 = copy.deepcopy(spec)
    events, specs, descs = [], [], []
    extras = {}                       # clone / wrapper name -> base function
    for step in range(n_events):
        force_q = None
        for _ in range(30):
            kind = rng.choice(EVENT_KINDS)
            fns = [n for n in spec["nodes"] if n["kind"] in "mp"]
            ms = [n for n in fns if n["kind"] == "m"]
            ps = [n for n in fns if n["kind"] == "p"]
            evs = None
            if kind == "redef-m" and ms:
                n = rng.choice(ms)
                n["const"] += rng.randint(1, 4)
                evs = [{"op": "exec", "mod": n["module"], "src": def_src(spec, n)}] + alias_events(spec, n["name"])
                d = "redefine memento function %s" % n["name"]
            elif kind == "redef-p" and ps:
                n = rng.choice(ps)
                n["const"] += rng.randint(1, 4)
                evs = [{"op": "exec", "mod": n["module"], "src": def_src(spec, n)}] + alias_events(spec, n["name"])
                d = "redefine plain function %s" % n["name"]
            elif kind == "new-default" and fns:
                n = rng.choice(fns)
                n["default"] = (n["default"] or 0) + 1
                evs = [{"op": "exec", "mod": n["module"], "src": def_src(spec, n)}] + alias_events(spec, n["name"])
                d = "redefine %s with another default value" % n["name"]
            elif kind == "rebind-var":
                vs = [v for v in spec["nodes"] if v["kind"] == "v" and v["vkind"] in ("int", "str", "float")]
                if vs:
                    v = rng.choice(vs)
                    v["value"] = v["value"] + 1 if v["vkind"] != "str" else v["value"] + "z"
                    evs = [{"op": "setattr", "mod": v["module"], "name": v["name"], "value": v["value"]}]
                    d = "rebind variable %s" % v["name"]
            elif kind == "mutate-var":
                vs = [v for v in spec["nodes"] if v["kind"] == "v" and v["vkind"] in ("list", "dict", "tuplist")]
                if vs:
                    v = rng.choice(vs)
                    k = rng.randint(1, 9)
                    if v["vkind"] == "tuplist":
                        v["value"] = [v["value"][0], v["value"][1] + [k]]
                    elif v["vkind"] == "list":
                        v["value"] = v["value"] + [k]
                    else:
                        v["value"] = dict(v["value"], k=k + 100)
                        k = k + 100
                    evs = [{"op": "mutate", "mod": v["module"], "name": v["name"], "value": k}]
                    d = "mutate variable %s in place" % v["name"]
            elif kind == "define-undefined":
                us = [u for u in spec["nodes"] if u["kind"] == "u"]
                if us:
                    u = rng.choice(us)
                    u.update({"kind": "v", "vkind": "int", "value": rng.randint(1, 9)})
                    evs = [{"op": "setattr", "mod": u["module"], "name": u["name"], "value": u["value"]}]
                    d = "define the previously undefined name %s" % u["name"]
            elif kind == "m-to-p" and len([x for x in ms if x["module"] != "c"]) > 1:
                # (functions of the second package keep their kind: a plain function there is a helper of that package only)
                n = rng.choice([x for x in ms if x["module"] != "c"])
                n["kind"] = "p"
                n["explicit"] = None
                evs = [{"op": "exec", "mod": n["module"], "src": def_src(spec, n)}] + alias_events(spec, n["name"])
                d = "replace memento function %s by a plain function" % n["name"]
                for k in [k for k, b in extras.items() if b == n["name"]]:
                    del extras[k]
            elif kind == "p-to-m" and [x for x in ps if x["module"] != "c"]:
                n = rng.choice([x for x in ps if x["module"] != "c"])
                n["kind"] = "m"
                evs = [{"op": "exec", "mod": n["module"], "src": def_src(spec, n)}] + alias_events(spec, n["name"])
                d = "replace plain function %s by a memento function" % n["name"]
            elif kind == "rebind-alias":
                cands = [(n, rf) for n in fns for rf in n["refs"] if rf[1] == "alias"]
                if cands:
                    n, rf = rng.choice(cands)
                    same = [c for c in fns if c["module"] == n["module"] and c["name"] != rf[0] and c is not n
                            and c["kind"] == vprog.node(spec, rf[0])["kind"] and c["name"] not in [r[0] for r in n["refs"]]]
                    if same:
                        t2 = rng.choice(same)["name"]
                        name = rf[2] if len(rf) > 2 else "al_%s_%s" % (n["name"], rf[0])
                        old = rf[0]
                        rf[:] = [t2, "alias", name]
                        evs = [{"op": "alias", "mod": n["module"], "name": name, "target": t2}]
                        d = "rebind alias %s of %s from %s to %s (%s)" % (name, n["name"], old, t2, vprog.node(spec, t2)["kind"])
            elif kind == "clone" and ms:
                n = rng.choice(ms)
                how = rng.choice(["partial", "force_local", "ignore_result", "with_context_args"])
                cname = "clone%d" % len(extras)
                extras[cname] = n["name"]
                evs = [{"op": "clone", "fn": n["name"], "how": how, "as": cname}]
                d = "create %s() clone of %s" % (how, n["name"])
            elif kind == "change-then-clone" and ms:
                # a clone / wrapper made right after a change that its origin has not been asked about yet
                vs = [v for v in spec["nodes"] if v["kind"] == "v" and v["vkind"] in ("int", "str", "float")]
                if vs:
                    v = rng.choice(vs)
                    v["value"] = v["value"] + 1 if v["vkind"] != "str" else v["value"] + "z"
                    n = rng.choice(ms)
                    how = rng.choice(["partial", "force_local", "ignore_result", "with_context_args", "wrapper"])
                    cname = ("wrap%d" if how == "wrapper" else "clone%d") % len(extras)
                    extras[cname] = n["name"]
                    evs = [{"op": "setattr", "mod": v["module"], "name": v["name"], "value": v["value"]},
                           {"op": "wrapper", "fn": n["name"], "as": cname} if how == "wrapper" else {"op": "clone", "fn": n["name"], "how": how, "as": cname}]
                    d = "rebind variable %s then create %s of %s" % (v["name"], how, n["name"])
                    force_q = [cname]
            elif kind == "wrapper" and ms:
                n = rng.choice([x for x in ms])
                cname = "wrap%d" % len(extras)
                extras[cname] = n["name"]
                evs = [{"op": "wrapper", "fn": n["name"], "as": cname}]
                d = "create an unregistered wrapper of %s" % n["name"]
            if evs and evs[0]["op"] == "exec":
                # clones and wrappers of a definition that was replaced wrap code that is no longer part of the program
                for k in [k for k, b in extras.items() if b == n["name"]]:
                    del extras[k]
            if evs:
                break
        if not evs:
            continue
        events += evs
        names = vprog.mnames(spec)
        q = rng.sample(names, min(len(names), rng.randint(0, 2))) + [k for k in extras if rng.random() < 0.6]
        if force_q:
            q = force_q
        if step == n_events - 1:
            q = names + list(extras)
        events.append({"op": "query", "names": q})
        specs.append((copy.deepcopy(spec), dict(extras), q))
        descs.append(d)
    return spec0, events, specs, descs


def builtin_history():
    """a function that mentions a name which is a builtin until the module defines it, first as a variable, then as a plain function"""
    def fn(name, kind, module, const, refs=()):
        return {"name": name, "kind": kind, "module": module, "const": const, "default": None, "kwdefault": None, "setconst": None, "tupconst": None,
                "sset": None, "pair": None, "nested": None, "explicit": None, "hidden": None, "shadow": None, "refs": [list(r) for r in refs]}
    spec = {"pkg": "vpk", "nodes": [{"name": "round", "kind": "u", "module": "a"}, {"name": "divmod", "kind": "u", "module": "a"},
                                    {"name": "LIMIT", "kind": "u", "module": "b"},
                                    {"name": "G0", "kind": "v", "module": "a", "vkind": "int", "value": 1},
                                    {"name": "G1", "kind": "v", "module": "a", "vkind": "tuplist", "value": [3, [1, 2]]},
                                    {"name": "G2", "kind": "v", "module": "b", "vkind": "dict", "value": {"k": 4}},
                                    fn("h0", "p", "a", 3, [("divmod", "dead"), ("G2", "attr")]),
                                    fn("m0", "m", "a", 10, [("round", "dead"), ("G0", "bare"), ("G1", "bare")]),
                                    fn("m1", "m", "a", 20, [("h0", "bare")]),
                                    fn("m2", "m", "b", 30, [("LIMIT", "dead")])]}
    spec0 = copy.deepcopy(spec)
    events, specs, descs = [], [], []

    def step(evs, d, q):
        events.extend(evs)
        events.append({"op": "query", "names": q})
        specs.append((copy.deepcopy(spec), {}, q))
        descs.append(d)
    step([], "rebind variable G0 (no change, first query)", ["m0", "m1"])
    vprog.node(spec, "G1")["value"] = [3, [1, 2, 9]]
    step([{"op": "mutate", "mod": "a", "name": "G1", "value": 9}], "mutate variable G1 in place (a list inside a tuple)", ["m0"])
    vprog.node(spec, "G2")["value"] = {"k": 104}
    step([{"op": "mutate", "mod": "b", "name": "G2", "value": 104}], "mutate variable G2 in place (dict read by a helper)", ["m1", "m0"])
    vprog.node(spec, "round").update({"kind": "v", "vkind": "int", "value": 7})
    step([{"op": "setattr", "mod": "a", "name": "round", "value": 7}], "define the previously undefined name round (a builtin name) as a variable", ["m0", "m1"])
    h = fn("divmod", "p", "a", 9, [])
    i = [k for k, n in enumerate(spec["nodes"]) if n["name"] == "divmod"][0]
    spec["nodes"][i] = h
    step([{"op": "exec", "mod": "a", "src": def_src(spec, h)}], "define the previously undefined name divmod (a builtin name) as a plain function", ["m1", "m0"])
    step([], "rebind variable G0 (no change, query of m2)", ["m2"])
    vprog.node(spec, "LIMIT").update({"kind": "v", "vkind": "none", "value": None})
    step([{"op": "setattr", "mod": "b", "name": "LIMIT", "value": None}], "define the previously undefined name LIMIT as None", ["m2"])
    return spec0, events, specs, descs


def outside_helper_history():
    """a plain helper of ANOTHER package (outside the caller's package scope: no rule describes it) is later given the
    memento decorator -- a first definition under that name; the callers' cached versions must follow"""
    def fn(name, kind, module, const, refs=(), **kw):
        d = {"name": name, "kind": kind, "module": module, "const": const, "default": None, "kwdefault": None, "setconst": None, "tupconst": None,
             "sset": None, "pair": None, "nested": None, "explicit": None, "hidden": None, "shadow": None, "refs": [list(r) for r in refs]}
        d.update(kw)
        return d
    spec = {"pkg": "vpk", "nodes": [fn("hx", "p", "c", 5, outside=True),
                                    fn("hy", "p", "c", 6, outside=True),
                                    fn("m0", "m", "a", 10, [("hx", "attr")]),
                                    fn("m1", "m", "a", 20, [("m0", "bare")]),
                                    fn("m2", "m", "b", 30, [("hy", "attr")])]}
    spec0 = copy.deepcopy(spec)
    events, specs, descs = [], [], []

    def step(evs, d, q):
        events.extend(evs)
        events.append({"op": "query", "names": q})
        specs.append((copy.deepcopy(spec), {}, q))
        descs.append(d)
    step([], "rebind variable G0 (no change, first query)", ["m0", "m1", "m2"])
    for nm, q in (("hx", ["m1", "m0"]), ("hy", ["m2", "m1"])):
        n = vprog.node(spec, nm)
        n["kind"] = "m"
        n.pop("outside", None)
        step([{"op": "exec", "mod": "c", "src": def_src(spec, n)}], "give the plain function %s of another package the memento decorator (first definition of a memento function of that name)" % nm, q)
    return spec0, events, specs, descs


def default_object_history():
    """mutable module variables that are the DEFAULT VALUE of a parameter (of a plain helper and of a memento function)
    are mutated in place: the function object keeps that very object, so its description changes with it; modifier clones
    made before and after the mutation must follow"""
    def fn(name, kind, module, const, refs=()):
        return {"name": name, "kind": kind, "module": module, "const": const, "default": None, "kwdefault": None, "setconst": None, "tupconst": None,
                "sset": None, "pair": None, "nested": None, "explicit": None, "hidden": None, "shadow": None, "refs": [list(r) for r in refs]}
    spec = {"pkg": "vpk", "nodes": [{"name": "G0", "kind": "v", "module": "a", "vkind": "dict", "value": {"k": 4}},
                                    {"name": "G1", "kind": "v", "module": "b", "vkind": "list", "value": [1, 2]},
                                    fn("h0", "p", "a", 3, [("G0", "vdef")]),
                                    fn("m0", "m", "a", 10, [("h0", "bare")]),
                                    fn("m1", "m", "b", 20, [("G1", "vdef")]),
                                    fn("m2", "m", "b", 30, [("m1", "bare")]),
                                    fn("m3", "m", "b", 40, [("G1", "vkdef")]),          # the same, as the default of a keyword-only parameter
                                    fn("m4", "m", "b", 50, [("m3", "bare")])]}
    spec0 = copy.deepcopy(spec)
    events, specs, descs = [], [], []
    extras = {}

    def step(evs, d, q):
        events.extend(evs)
        events.append({"op": "query", "names": q})
        specs.append((copy.deepcopy(spec), dict(extras), q))
        descs.append(d)
    step([], "rebind variable G0 (no change, first query)", ["m0", "m1", "m2", "m3", "m4"])
    vprog.node(spec, "G0")["value"] = {"k": 104}
    step([{"op": "mutate", "mod": "a", "name": "G0", "value": 104}], "mutate variable G0 in place (default value of a parameter of helper h0)", ["m0"])
    extras["clone0"] = "m1"
    step([{"op": "clone", "fn": "m1", "how": "force_local", "as": "clone0"}], "create force_local() clone of m1", ["clone0"])
    vprog.node(spec, "G1")["value"] = [1, 2, 7]
    step([{"op": "mutate", "mod": "b", "name": "G1", "value": 7}], "mutate variable G1 in place (default value of a parameter of m1 and of a keyword-only parameter of m3)", ["clone0", "m2", "m4"])
    extras["clone1"] = "m1"
    vprog.node(spec, "G1")["value"] = [1, 2, 7, 8]
    step([{"op": "mutate", "mod": "b", "name": "G1", "value": 8}, {"op": "clone", "fn": "m1", "how": "ignore_result", "as": "clone1"}],
         "mutate variable G1 in place then create ignore_result() clone of m1", ["clone1", "m1", "clone0", "m3", "m4"])
    return spec0, events, specs, descs


def run(tier, seed):
    rep = C.Report("C13", tier, seed)
    gate = C.proof_gate("C13")
    rng = random.Random(seed)
    n_hist = 10 if tier == "quick" else 80
    if not gate["ok"]:
        n_hist *= 2
    stats = {"histories": n_hist, "events": {}, "queries": 0, "positions": 0, "clone_queries": 0, "wrapper_queries": 0}
    terms, metas = [], []
    with C.Scratch("c13") as scratch:
        jobs = []
        for hi in range(n_hist + 3):
            spec0, events, specs, descs = builtin_history() if hi == n_hist else default_object_history() if hi == n_hist + 1 else outside_helper_history() if hi == n_hist + 2 else gen_history(rng, rng.randint(4, 8) if tier == "quick" else rng.randint(4, 12))
            jobs.append((hi, spec0, events, specs, descs, str(rng.randint(0, 99999))))

        def work(job):
            hi, spec0, events, specs, descs, hs = job
            base = os.path.join(scratch, "h%d" % hi)
            out = {"errors": []}
            try:
                r0 = os.path.join(base, "live")
                os.makedirs(r0)
                vprog.render(spec0, r0)
                out["live"] = vprog.run_events(r0, spec0, events, hashseed=hs)
                out["fresh"] = []
                for k, (spec, extras, q) in enumerate(specs):
                    rk = os.path.join(base, "fresh%d" % k)
                    os.makedirs(rk)
                    vprog.render(spec, rk)
                    out["fresh"].append(vprog.run_edition(rk, spec, None, version_order=vprog.mnames(spec), hashseed=hs)["versions"])
            except Exception as e:
                out["errors"].append(str(e)[-500:])
            return out

        with ThreadPoolExecutor(max_workers=12) as ex:
            results = list(ex.map(work, jobs))
        for (hi, spec0, events, specs, descs, hs), out in zip(jobs, results):
            meta0 = {"initial": spec0, "events": events, "descriptions": descs, "hashseed": hs}
            for d in descs:
                key = " ".join(d.split()[:3])
                stats["events"][key] = stats["events"].get(key, 0) + 1
            if out["errors"]:
                rep.violation("C13:run-failed", out["errors"][0][-300:], meta0)
                continue
            live = out["live"]
            failed = [r for r in live if "__event_failed__" in r]
            if failed:
                rep.violation("C13:event-failed:" + failed[0]["__event_failed__"].split(":")[0], "an in-process event raised: %s" % failed[0]["__event_failed__"], meta0)
                continue
            for k, ((spec, extras, q), got, fresh) in enumerate(zip(specs, live, out["fresh"])):
                stats["positions"] += 1
                for name in q:
                    stats["queries"] += 1
                    base_fn = extras.get(name, name)
                    kindq = "clone" if name.startswith("clone") else "wrapper" if name.startswith("wrap") else "function"
                    if kindq != "function":
                        stats[kindq + "_queries"] += 1
                    want = fresh.get(base_fn)
                    have = got.get(name)
                    if have != want:
                        last = " ".join(descs[k].split()[:3]).replace(" ", "-")
                        if str(have).startswith("ERR"):
                            sig = "C13:version-query-raised:%s:%s" % (kindq, str(have).split(":")[1])
                            what = "asking %s %s for its version raised %s" % (kindq, name, have)
                        else:
                            sig = "C13:version-differs-from-fresh-process:%s:after-%s" % (kindq, last if kindq == "function" else "any")
                            what = "%s %s reports version %s, a fresh process computes %s for %s" % (kindq, name, have, want, base_fn)
                        rep.violation(sig, what + " (after: %s)" % "; ".join(descs[max(0, k - 2):k + 1]), dict(meta0, position=k, name=name))
            # the from-scratch versions at successive positions change exactly when the model's digest input changes
            intern = c01.Interner()
            tabs = [c01.coq_table(sp, intern) for sp, _, _ in specs]
            for k in range(len(specs) - 1):
                for mname in vprog.mnames(specs[k][0]):
                    if mname not in vprog.mnames(specs[k + 1][0]):
                        continue
                    if vprog.node(specs[k][0], mname)["explicit"] is not None or vprog.node(specs[k + 1][0], mname)["explicit"] is not None:
                        continue
                    va, vb = out["fresh"][k].get(mname), out["fresh"][k + 1].get(mname)
                    terms.append("(%s, %s, %d, true, %s)" % (tabs[k][0], tabs[k + 1][0], tabs[k][1][mname], C.coq_bool(va == vb)))
                    metas.append(dict(meta0, positions=[k, k + 1], function=mname, versions=[va, vb]))
            if len(rep.samples) < 2:
                rep.samples.append({"descriptions": descs})
    try:
        res = C.run_coq_cases("c13", HEADER, terms, "vers_case", shard=150, case_type="list (nat * sym) * list (nat * sym) * nat * bool * bool")
    except RuntimeError as e:
        rep.broken.append("correspondence C13 (model could not be evaluated): %s" % str(e)[:300])
        res = []
    for meta, r in zip(metas, res):
        if r is not None:
            rep.violation("C13:version-verdict-differs-from-model:%d" % r, "between positions %s the model says the version of %s %s, the implementation (fresh process) says %s" % (
                meta["positions"], meta["function"], {0: "cannot be computed (not closed)", 1: "is unchanged", 2: "changes"}[r], meta["versions"]), meta)
    stats["model_version_pairs"] = len(terms)
    rep.coverage.update({
        "evaluations": stats["queries"] + len(terms), "distinct_nontrivial": stats["positions"], "exhaustive": False,
        "rule": "generated programs x random histories of 4-12 in-process events {redefine memento / plain function, new default value, rebind variable, mutate variable in place, define an undefined name, "
                "memento -> plain, plain -> memento, rebind an alias to another function, create modifier clone, create unregistered wrapper} with version queries after every event (random subset; all at the end); "
                "each answer compared with a fresh interpreter's version for the program as it stands at that position",
        "stats": stats, "traces_validated_against_impl": stats["queries"],
    })
    rep.assumptions = ["after a function is redefined, the alias assignments that name it are re-run (as re-running the defining cell would)", "the cluster is never locked", "event histories are sampled"]
    return rep.finish(gate)
