"""Drives a real StorageBackend (filesystem / filesystem+cache / memory) with storage-level
operations and records, per operation, the model operation term, the answer, and (for cache
configurations) the cache's usage / resident set and whether the store was touched."""
import datetime
import gc
import os
import struct
import sys

from . import common as C

KEY_FNS = ["f#1", "f#10", "f1#1", "g#1"]
N_ARGS = 3

_AUDIT = {"root": None, "opens": 0, "installed": False, "log": None}


def _audit(event, args):
    root = _AUDIT["root"]
    if root is None:
        return
    if event == "open" or event in ("os.listdir", "os.scandir", "os.mkdir", "os.remove", "os.rename", "os.rmdir",
                                    "shutil.rmtree"):
        p = args[0] if args else None
        if hasattr(p, "__fspath__"):
            p = os.fspath(p)
        if isinstance(p, bytes):
            p = p.decode("utf-8", "replace")
        if isinstance(p, str) and p.startswith(root):
            _AUDIT["opens"] += 1
            if _AUDIT["log"] is not None:
                mode = args[1] if event == "open" and len(args) > 1 else None
                flags = args[2] if event == "open" and len(args) > 2 else None
                _AUDIT["log"].append((event, p[len(root):], mode, flags))


def install_audit():
    if not _AUDIT["installed"]:
        sys.addaudithook(_audit)
        _AUDIT["installed"] = True


class Driver:
    CONFIGS = ("fs", "fs_meta", "fs_cache", "fs_meta_cache", "mem")

    def __init__(self, m, scratch, config, budget=None, tag="s", read_only=None, backend=None):
        from twosigma.memento.reference import FunctionReference, FunctionReferenceWithArguments, \
            FunctionReferenceWithArgHash
        from twosigma.memento.metadata import Memento, InvocationMetadata, ResultType
        from twosigma.memento.exception import MementoException
        from twosigma.memento.storage_base import MemoryCache
        from twosigma.memento.storage_filesystem import FilesystemStorageBackend
        from twosigma.memento.storage_memory import MemoryStorageBackend
        from . import vmod
        install_audit()
        self.m, self.config, self.budget = m, config, budget
        self.FRH, self.FRA = FunctionReferenceWithArgHash, FunctionReferenceWithArguments
        self.Memento, self.IM, self.RT, self.MExc = Memento, InvocationMetadata, ResultType, MementoException
        self.root = os.path.join(scratch, tag)
        self.meta_root = None
        if backend is not None:
            self.b = backend
        elif config == "mem":
            self.b = MemoryStorageBackend(read_only=read_only)
        else:
            kw = {"path": os.path.join(self.root, "data"), "read_only": read_only}
            if "meta" in config:
                self.meta_root = os.path.join(self.root, "meta")
                kw["metadata_path"] = self.meta_root
            if "cache" in config:
                kw["memory_cache_mb"] = budget / (1024.0 * 1024.0)
            self.b = FilesystemStorageBackend(**kw)
        self.cache = getattr(self.b, "_memory_cache", None)
        base = {"f": vmod.f, "f1": vmod.f1, "g": vmod.g}
        self.frefs = {n: FunctionReference(base[n.split("#")[0]], cluster_name="vc", version=n.split("#")[1])
                      for n in KEY_FNS}
        self.qn_to_name = {r.qualified_name: n for n, r in self.frefs.items()}
        self.fra = {}
        self.alive = {}
        est = getattr(MemoryCache, "_estimate_object_size", None)
        self.size = (lambda v: int(est(v))) if est else sys.getsizeof
        self.nsz = self.size(None)
        self.last_memento = {}

    # ---- keys
    def _fra(self, fname, arg):
        k = (fname, arg)
        if k not in self.fra:
            self.fra[k] = self.FRA(self.frefs[fname], (arg,), {})
        return self.fra[k]

    def frh(self, fname, arg):
        return self.FRH(self.frefs[fname], self._fra(fname, arg).arg_hash)

    def qn(self, fname):
        return self.frefs[fname].qualified_name

    def ckey(self, fname, arg):
        return "(%s, %s)" % (C.coq_str(self.qn(fname)), C.coq_str(self._fra(fname, arg).arg_hash[:8]))

    def model_cache_key(self, real_key):
        i = real_key.rfind("/")
        return real_key[:i] + "/" + real_key[i + 1:i + 9]

    # ---- values
    def make_value(self, kind, vid, n):
        import numpy as np
        tag = struct.pack("<q", vid)
        if kind == "B":
            # the IDENTICAL object every time (a result handed back, a shared constant)
            shared = self.__dict__.setdefault("_shared_values", {})
            if (vid, n) not in shared:
                shared[(vid, n)] = tag + b"x" * max(0, n - 8)
            v = shared[(vid, n)]
        elif kind == "b":
            v = tag + b"x" * max(0, n - 8)
        elif kind == "s":
            v = "%016d" % vid + "y" * max(0, n - 16)
        elif kind == "n":
            v = np.frombuffer(tag + b"\0" * max(0, n - 8), dtype=np.int8).copy()
        elif kind == "e":
            v = self.MExc("python::builtins:ValueError", "%016d" % vid, "trace")
        elif kind == "z":
            v = None
        else:
            raise ValueError(kind)
        if v is not None:
            self.alive[(vid, len(self.alive))] = v
        return v

    def value_id(self, v):
        import numpy as np
        if v is None:
            return 0
        if isinstance(v, bytes):
            return struct.unpack("<q", v[:8])[0]
        if isinstance(v, str):
            return int(v[:16])
        if isinstance(v, np.ndarray):
            return struct.unpack("<q", v[:8].tobytes())[0]
        if isinstance(v, self.MExc):
            return int(v.message[:16])
        raise ValueError(type(v))

    @staticmethod
    def wr_of(v):
        import weakref
        try:
            weakref.ref(v)
            return "Weak"
        except TypeError:
            return "NoWeak"

    def memento(self, fname, arg, mid, value):
        return self.Memento(
            time=datetime.datetime(2020, 1, 1, tzinfo=datetime.timezone.utc),
            invocation_metadata=self.IM(runtime=datetime.timedelta(seconds=1.0),
                                        fn_reference_with_args=self._fra(fname, arg),
                                        result_type=self.RT.from_object(value), invocations=[], resources=[]),
            function_dependencies={self.frefs[fname]}, runner={}, correlation_id=str(mid), content_key=None)

    def observe_cache(self):
        if self.cache is None:
            return None
        return int(self.cache.memory_usage), [self.model_cache_key(k) for k in self.cache.cache.keys()]

    # ---- one operation -> dict(term=, out=, usage=, resident=, touched=, exc=)
    def apply(self, op):
        b = self.b
        _AUDIT["root"] = self.root
        _AUDIT["opens"] = 0
        kind = op[0]
        exc = None
        out, term = "BNone", None
        extra = {}
        try:
            if kind == "memoize":
                _, fname, arg, mid, vkind, vid, n, override = op
                v = self.make_value(vkind, vid, n)
                sz = self.size(v)
                mem = self.memento(fname, arg, mid, v)
                term = "BMemoize %s %d %d %s %s" % (self.ckey(fname, arg), mid, 0 if v is None else vid, C.coq_z(sz), self.wr_of(v))
                b.memoize(override, mem, v)
                self.last_memento[(fname, arg)] = mem
                extra["content_key"] = None if mem.content_key is None else (mem.content_key.key, mem.content_key.version)
                extra["size"] = sz
                del v
            elif kind == "getm":
                _, fname, arg = op
                term = "BGetMemento %s" % self.ckey(fname, arg)
                r = b.get_mementos([self.frh(fname, arg)])[0]
                out = "BMem None" if r is None else "BMem (Some %s)" % r.correlation_id
            elif kind == "read":
                _, fname, arg = op
                term = None
                r = b.get_mementos([self.frh(fname, arg)])[0]
                if r is None:
                    out, sz, wr = "BVal None", 0, "NoWeak"
                else:
                    v = b.read_result(r)
                    out = "BVal (Some %d)" % self.value_id(v)
                    sz = self.size(v)
                    wr = self.wr_of(v)
                    if v is not None:
                        self.alive[("r", len(self.alive))] = v
                    del v
                term = "BReadResult %s %s %s" % (self.ckey(fname, arg), C.coq_z(sz), wr)
            elif kind == "ismem":
                _, fname, arg = op
                term = "BIsMemoized %s" % self.ckey(fname, arg)
                out = "BBool %s" % C.coq_bool(bool(b.is_memoized(self.frefs[fname], self._fra(fname, arg).arg_hash)))
            elif kind == "fcall":
                _, fname, arg = op
                term = "BForgetCall %s" % self.ckey(fname, arg)
                b.forget_call(self.frh(fname, arg))
            elif kind == "ffn":
                _, fname = op
                term = "BForgetFn %s" % C.coq_str(self.qn(fname))
                b.forget_function(self.frefs[fname])
            elif kind == "fall":
                term = "BForgetAll"
                b.forget_everything()
            elif kind == "lfns":
                term = "BListFns"
                r = b.list_functions()
                out = "BFns %s" % C.coq_list([C.coq_str(x.qualified_name) for x in r])
            elif kind == "lmems":
                _, fname = op
                term = "BListMementos %s" % C.coq_str(self.qn(fname))
                r = b.list_mementos(self.frefs[fname])
                out = "BMems %s" % C.coq_list([x.correlation_id for x in r])
            elif kind == "wmeta":
                _, fname, arg, mk, bid, with_data = op
                term = "BWriteMeta %s %s %d" % (self.ckey(fname, arg), C.coq_str(mk), bid)
                ck = None
                if with_data:
                    mm = self.last_memento.get((fname, arg))
                    ck = mm.content_key if mm is not None else None
                if ck is not None:
                    b.write_metadata(self.frh(fname, arg), mk, struct.pack("<q", bid), store_with_content_key=ck)
                else:
                    b.write_metadata(self.frh(fname, arg), mk, struct.pack("<q", bid))
            elif kind == "rmeta":
                _, fname, arg, mk = op
                term = "BReadMeta %s %s" % (self.ckey(fname, arg), C.coq_str(mk))
                r = b.read_metadata(self.frh(fname, arg), mk)
                out = "BMeta None" if r is None else "BMeta (Some %d)" % struct.unpack("<q", bytes(r)[:8])[0]
            elif kind == "gc":
                term = "BGc"
                self.alive.clear()
                gc.collect()
            else:
                raise ValueError(op)
        except Exception as e:  # an exception escaping a storage operation is an observation
            exc = "%s: %s" % (type(e).__name__, str(e)[:200])
        touched = _AUDIT["opens"] > 0
        _AUDIT["root"] = None
        rec = {"term": term, "out": out, "touched": touched, "exc": exc, "op": op}
        rec.update(extra)
        oc = self.observe_cache()
        if oc is not None:
            rec["usage"], rec["resident"] = oc
        return rec


def step_term_dict(rec):
    return "(%s, %s)" % (rec["term"], rec["out"])


def step_term_layer(rec):
    return "(%s, (%s, %s, %s, %s))" % (rec["term"], rec["out"], C.coq_z(rec["usage"]),
                                      C.coq_list([C.coq_str(k) for k in rec["resident"]]),
                                      C.coq_bool(rec["touched"]))


HEADER = """From Coq Require Import List ZArith String Bool.
From Memento Require Import Storage.Cache Storage.Spec Storage.Layer Gen.SourceFacts.
Import ListNotations. Open Scope Z_scope. Open Scope string_scope.
Definition ob (o : option bool) := match o with Some b => b | None => false end.
Definition cf := {| p_evict_first := ob put_evicts_first; p_clear_ref := ob put_clears_ref |}.
Definition lcase (c : Z * Z * list lrec) := lcheck cf (snd (fst c)) (linit (fst (fst c))) 0 (snd c).
Definition dcase (c : list (bop * bout)) := dcheck dempty 0 c.
"""
