"""Behavioural probes for source facts. The translator (srcfacts.py) reads the source with `ast`;
when a harmless rewrite makes a shape unrecognisable (fact = None) the same fact is established
here by running the few lines of the implementation it speaks about on a crafted input. A probe
is run in a fresh interpreter against the current /repo; it returns True / False, or None when
it cannot tell (then the fact stays None and the obligation fails closed)."""
import json
import os
import subprocess
import sys

SCRIPT = r'''
import io, json, os, sys, tempfile, shutil
repo = sys.argv[1]
sys.path.insert(0, repo)
root = tempfile.mkdtemp(dir=sys.argv[2])
os.environ["HOME"] = root
import logging; logging.disable(logging.CRITICAL)
import warnings; warnings.filterwarnings("ignore")
out = {}

def probe(name):
    def deco(f):
        try:
            out[name] = f()
        except Exception as e:
            out[name] = None
            out["_err_" + name] = "%s: %s" % (type(e).__name__, str(e)[:120])
        return f
    return deco

import twosigma.memento as m
from twosigma.memento import memento_function
from twosigma.memento.types import DataSourceKey
from twosigma.memento.storage_filesystem import FilesystemStorageBackend, _FilesystemDataSource

@memento_function(cluster="probe", version="1")
def pf(x):
    return b"result-bytes-%d" % x

@memento_function(cluster="pc", version="a::b")
def pq():
    return 1

@memento_function(cluster="pc", version="1")
def dep1():
    return 1

@memento_function(cluster="pc", version="23")
def dep2():
    return 2

@memento_function(cluster="pc")
def caller():
    return dep1() + dep2()

@memento_function(cluster="probe", version="1")
def pc1(x):
    return 1

@memento_function(cluster="pc")
def hid_b(x):
    return 5

@memento_function(cluster="pc")
def hid_a(x=1):
    return globals()["hid_b"](x) + 1

@memento_function(cluster="pc")
def al_a(x):
    return 1

@memento_function(cluster="pc")
def al_b(x):
    return 2

al = al_a

@memento_function(cluster="pc")
def al_user(x):
    return al(x)

@memento_function(cluster="pc")
def many_rules(x):
    return al_a(x) + al_b(x) + dep1() + len(str(PROBE_VAR))

PROBE_VAR = 3

lam_one = lambda x: x + 1
lam_two = lambda x: x * 2

@memento_function(cluster="pc")
def lam_user(x):
    return lam_one(x) + lam_two(x)

from twosigma.memento.partition import InMemoryPartition

@memento_function(cluster="probe", version="1")
def part_root():
    return InMemoryPartition({"a": 1, "b": 2})

@memento_function(cluster="probe", version="1")
def part_mid():
    p_ = InMemoryPartition({"b": 20})
    p_._merge_parent = part_root()
    return p_

@memento_function(cluster="probe", version="1")
def part_top():
    p_ = InMemoryPartition({"c": 30})
    p_._merge_parent = part_mid()
    return p_

@memento_function(cluster="probe", version="1")
def part_relay():
    return part_top()

writes = []
def hook(ev, args):
    if ev == "open" and args and isinstance(args[0], str) and args[0].startswith(root):
        mode = args[1] if len(args) > 1 and isinstance(args[1], str) else ""
        if any(ch in mode for ch in "wax+"):
            writes.append(("open", args[0]))
    elif ev in ("os.rename", "os.replace") and args and isinstance(args[0], str) and str(args[0]).startswith(root):
        writes.append(("rename", str(args[1]) if len(args) > 1 else ""))
sys.addaudithook(hook)

def links(d):
    return [os.path.join(dp, f) for dp, _, fs in os.walk(d) for f in fs if f.endswith(".link")]

@probe("rd_is_file_fact")
def _():
    d = os.path.join(root, "ds1")
    ds = _FilesystemDataSource(d)
    key = DataSourceKey("c/probe")
    ds.output(key, io.BytesIO(b"x"))
    (lk,) = links(d)
    ok_before = ds.exists_nonversioned(key)
    with open(lk, "w") as f:
        f.write("")                       # what an interrupted write leaves
    empty = ds.exists_nonversioned(key)
    with open(lk, "w") as f:
        f.write(os.path.dirname(lk))      # cut at a directory boundary
    as_dir = ds.exists_nonversioned(key)
    if not ok_before:
        return None
    return (not empty) and (not as_dir)

@probe("obj_first_fact")
def _():
    d = os.path.join(root, "ds2")
    ds = _FilesystemDataSource(d)
    del writes[:]
    ds.output(DataSourceKey("c/probe2"), io.BytesIO(b"yy"))
    opens = [p for k, p in writes]
    li = [i for i, p in enumerate(opens) if p.endswith(".link")]
    oi = [i for i, p in enumerate(opens) if not p.endswith(".link") and ".link" not in os.path.basename(p)]
    if not li or not oi:
        return None
    return min(oi) < min(li)

@probe("atomic_links_fact")
def _():
    d = os.path.join(root, "ds3")
    ds = _FilesystemDataSource(d)
    del writes[:]
    ds.output(DataSourceKey("c/probe3"), io.BytesIO(b"zz"))
    renamed = [p for k, p in writes if k == "rename" and p.endswith(".link")]
    in_place = [p for k, p in writes if k == "open" and p.endswith(".link")]
    if renamed:
        return True
    if in_place:
        return False
    return None

@probe("data_first_fact")
def _():
    d = os.path.join(root, "st4")
    m.Environment.set(m.Environment(name="p", base_dir=root, repos=[m.ConfigurationRepository(name="r", clusters={
        "probe": m.FunctionCluster(name="probe", storage=FilesystemStorageBackend(path=d))})]))
    del writes[:]
    pf(1)
    opens = [os.path.relpath(p, d) for k, p in writes if k == "open" and p.startswith(d)]
    data = [i for i, p in enumerate(opens) if p.split(os.sep)[0] == "c"]
    meta = [i for i, p in enumerate(opens) if p.split(os.sep)[0] != "c"]
    if not data or not meta:
        return None
    return max(data) < min(meta)

@probe("qname_prefix_first")
def _():
    return pq.fn_reference().qualified_name.startswith("pc::")

@probe("qname_split_pattern")
def _():
    from twosigma.memento.reference import FunctionReference
    r = FunctionReference.parse_qualified_name("cl::mod.sub:fn#1:2::3")
    return dict(r) == {"cluster": "cl", "module": "mod.sub", "function": "fn", "version": "1:2::3"} if isinstance(r, dict) else None

@probe("vkey_split_last")
def _():
    from twosigma.memento.serialization import MementoCodec
    k = MementoCodec.decode_versioned_data_source_key("over#ride#v1")
    return (k.key, k.version) == ("over#ride", "v1")

@probe("defaults_hashed")
def _():
    from twosigma.memento.code_hash import fn_code_hash
    def mk(d):
        ns = {}
        exec("def f(x, d=%d, *, k=%d):\n    return x + d + k\n" % (d, d), ns)
        return ns["f"]
    return fn_code_hash(mk(1)) != fn_code_hash(mk(2))

@probe("explicit_fixed_width")
def _():
    hs = [r.rule_hash for r in caller.hash_rules() if r.rule_hash is not None]
    caller.version()
    hs = [r.rule_hash for r in caller.hash_rules() if r.rule_hash is not None]
    return len(hs) >= 3 and len({len(h) for h in hs}) == 1

@probe("cfg_reads_cache")
def _():
    b = FilesystemStorageBackend(config={"type": "filesystem", "path": os.path.join(root, "c1"), "memory_cache_mb": 3})
    return getattr(b, "_memory_cache", None) is not None

@probe("cfg_dumps_meta")
def _():
    b = FilesystemStorageBackend(path=os.path.join(root, "c2"), metadata_path=os.path.join(root, "c2m"))
    return b.to_dict().get("metadata_path") == os.path.join(root, "c2m")

@probe("cfg_first_match")
def _():
    def repo(i):
        return m.ConfigurationRepository(name="r%d" % i, clusters={"dup": m.FunctionCluster(config={"name": "dup", "description": "t%d" % i, "storage": {"type": "memory"}})})
    e = m.Environment(name="pe", base_dir=root, repos=[repo(1), repo(2)])
    return e.get_cluster("dup").description == "t1" and e.get_cluster("nope") is None

def _cache_env(name, kib):
    st = FilesystemStorageBackend(path=os.path.join(root, name), memory_cache_mb=kib / 1024.0)
    m.Environment.set(m.Environment(name="p", base_dir=root, repos=[m.ConfigurationRepository(name="r", clusters={
        "probe": m.FunctionCluster(name="probe", storage=st), "pc": m.FunctionCluster(name="pc", storage=FilesystemStorageBackend(path=os.path.join(root, name + "pc")))})]))
    return st

@probe("put_evicts_first")
def _():
    st = _cache_env("cache1", 4)
    pc1(1)
    mm = pc1.memento(1)
    big = b"B" * 9000
    st.memoize(None, mm, big)                 # same call again, with a result larger than the whole cache
    got = st.read_result(pc1.memento(1))
    return got == big

@probe("put_clears_ref")
def _():
    import numpy as np
    st = _cache_env("cache2", 4)
    pc1(2)
    mm = pc1.memento(2)
    arr = np.arange(30, dtype="int64")        # weak-referenceable, kept alive here
    st.memoize(None, mm, arr)
    st.memoize(None, pc1.memento(2), b"bytes-result")
    pc1(3)
    st.memoize(None, pc1.memento(3), b"E" * 3900)   # evicts the entry of call 2
    got = st.read_result(pc1.memento(2))
    return isinstance(got, bytes) and got == b"bytes-result"

@memento_function(cluster="pc", version="1")
def xs_parent():
    from twosigma.memento.partition import InMemoryPartition
    return InMemoryPartition({"p": 1, "both": 2})

@memento_function(cluster="probe", version="1")
def xs_child():
    from twosigma.memento.partition import InMemoryPartition
    r = InMemoryPartition({"both": 20, "c": 3})
    r._merge_parent = xs_parent()
    return r

CH_DEFAULT = [1, 2]

@memento_function(cluster="pc")
def ch_fn(x, vd=CH_DEFAULT):
    return x + sum(vd)

@memento_function(cluster="pc")
def ch_user(x):
    return ch_fn(x)

@memento_function(cluster="probe", version="1")
def mx_fn(x):
    _MX["events"].append(("body", _MX["held"] > 0))
    return x

_MX = {"events": [], "held": 0}

@probe("recheck_inside_mutex")
def _():
    import twosigma.memento.runner_local as rl
    _cache_env("mx", 4)
    class Mx:
        def __init__(self, inner):
            self.inner = inner
        def __enter__(self):
            self.inner.__enter__(); _MX["held"] += 1; return self
        def __exit__(self, *a):
            _MX["held"] -= 1; return self.inner.__exit__(*a)
        def acquire(self, *a, **k):
            r = self.inner.acquire(*a, **k)
            if r:
                _MX["held"] += 1
            return r
        def release(self):
            _MX["held"] -= 1; self.inner.release()
    orig = rl._mutex_for_invocation
    from twosigma.memento.storage_base import StorageBackendBase
    og = StorageBackendBase.get_memento
    def gm(self, *a, **k):
        _MX["events"].append(("get", _MX["held"] > 0)); return og(self, *a, **k)
    rl._mutex_for_invocation = lambda *a, **k: Mx(orig(*a, **k))
    StorageBackendBase.get_memento = gm
    try:
        _MX["events"].clear()
        mx_fn(41)
    finally:
        rl._mutex_for_invocation = orig
        StorageBackendBase.get_memento = og
    ev = _MX["events"]
    if ("body", True) not in ev and ("body", False) not in ev:
        return None
    if not any(k == "get" for k, _ in ev):
        return None
    bi = [i for i, (k, _) in enumerate(ev) if k == "body"][0]
    return ev[bi][1] and any(k == "get" and h for k, h in ev[:bi])

@probe("cache_methods_locked")
def _():
    import threading
    st = _cache_env("lk", 64)
    pc1(7)
    mm = pc1.memento(7)
    mc = st._memory_cache
    state = {"depth": 0, "cur": None, "acc": [], "outer": 0}
    inner = mc._lock
    class Lk:
        def __enter__(self):
            inner.__enter__(); self._up(); return self
        def __exit__(self, *a):
            state["depth"] -= 1; return inner.__exit__(*a)
        def acquire(self, *a, **k):
            r = inner.acquire(*a, **k)
            if r:
                self._up()
            return r
        def release(self):
            state["depth"] -= 1; inner.release()
        def _up(self):
            if state["depth"] == 0:
                state["outer"] += 1
            state["depth"] += 1
    def note():
        state["acc"].append((state["cur"], state["depth"] > 0))
    class Tracked(dict):
        def __getitem__(self, k): note(); return dict.__getitem__(self, k)
        def __setitem__(self, k, v): note(); return dict.__setitem__(self, k, v)
        def __delitem__(self, k): note(); return dict.__delitem__(self, k)
        def __contains__(self, k): note(); return dict.__contains__(self, k)
        def __iter__(self): note(); return dict.__iter__(self)
        def get(self, *a): note(); return dict.get(self, *a)
        def pop(self, *a): note(); return dict.pop(self, *a)
        def keys(self): note(); return dict.keys(self)
        def items(self): note(); return dict.items(self)
        def values(self): note(); return dict.values(self)
        def clear(self): note(); return dict.clear(self)
    from collections import deque
    class TrackedDeque(deque):
        def append(self, x): note(); return deque.append(self, x)
        def remove(self, x): note(); return deque.remove(self, x)
        def popleft(self): note(); return deque.popleft(self)
        def clear(self): note(); return deque.clear(self)
        def __contains__(self, x): note(); return deque.__contains__(self, x)
        def __len__(self): note(); return deque.__len__(self)
    mc._lock = Lk()
    mc.cache = Tracked(mc.cache)
    if type(mc.lru_deque) is deque:
        mc.lru_deque = TrackedDeque(mc.lru_deque)
    fr = mm.invocation_metadata.fn_reference_with_args
    calls = [("put", lambda: mc.put(mm, b"r" * 10, True)),
             ("get_mementos", lambda: mc.get_mementos([fr.fn_reference_with_arg_hash()])),
             ("read_result", lambda: mc.read_result(mm)),
             ("is_memoized", lambda: mc.is_memoized(fr.fn_reference, fr.arg_hash)),
             ("forget_call", lambda: mc.forget_call(fr.fn_reference_with_arg_hash())),
             ("put", lambda: mc.put(mm, b"r" * 10, True)),
             ("forget_function", lambda: mc.forget_function(fr.fn_reference)),
             ("put", lambda: mc.put(mm, b"r" * 10, True)),
             ("forget_everything", lambda: mc.forget_everything())]
    sections = []
    for name, c in calls:
        state["cur"] = name
        state["outer"] = 0
        c()
        sections.append(state["outer"])
    if any(n != 1 for n in sections):       # one critical section per operation
        return False
    seen = {n for n, _ in state["acc"]}
    if seen != {n for n, _ in calls}:
        return None
    return all(h for _, h in state["acc"])

@probe("memstore_atomic_insert")
def _():
    import collections
    from twosigma.memento.storage_memory import MemoryStorageBackend
    b = MemoryStorageBackend()
    t = [getattr(b, "mementos", None), getattr(b, "metadata", None)]
    if all(isinstance(x, collections.defaultdict) for x in t):
        return True
    return None      # plain tables: whether the writers insert atomically cannot be told from outside

@probe("code_hash_refreshed")
def _():
    # a mutable module variable that is the default value of a parameter is mutated in place: after the versions have been
    # recomputed, the code hash the rules used must be the one of the function as it is now
    from twosigma.memento.code_hash import fn_code_hash
    from twosigma.memento.memento import ENVIRONMENT_HASH_BYTES
    ch_user.version()
    CH_DEFAULT.append(7)
    ch_user.version()
    rule = [r for r in ch_user.hash_rules() if r.key.endswith(":ch_fn") and r.key.startswith("MementoFunction")]
    return bool(rule) and rule[0].rule_hash == fn_code_hash(ch_fn.fn, salt=None, environment=ENVIRONMENT_HASH_BYTES)

@probe("partition_cross_store_copied")
def _():
    # the parent is memoized by a function of another cluster (another directory); the child is read back by fresh backends
    _cache_env("xs", 0)
    xs_child()
    _cache_env("xs", 0)
    c = xs_child()
    try:
        return sorted(c.list_keys()) == ["both", "c", "p"] and c.get("p") == 1 and c.get("both") == 20
    except FileNotFoundError:
        return False

@probe("ext_allows_default_cluster")
def _():
    from twosigma.memento.reference import FunctionReference
    r = FunctionReference.from_qualified_name("no.such.module.anywhere:fn#1")
    return bool(r.external) and r.qualified_name.endswith("fn#1")

@probe("rules_sorted_by_key")
def _():
    _cache_env("rules1", 64)
    keys = [r.key for r in many_rules.hash_rules()]
    return len(keys) >= 4 and keys == sorted(keys)

@probe("clone_validation")
def _():
    from twosigma.memento.exception import UndeclaredDependencyError
    _cache_env("clone1", 64)
    try:
        hid_a.partial(x=2)()
        return False
    except UndeclaredDependencyError:
        return True

@probe("km_identity")
def _():
    _cache_env("km1", 64)
    v1 = al_user.version()
    globals()["al"] = al_b
    v2 = al_user.version()
    globals()["al"] = al_a
    return v1 != v2

@probe("ruleless_instance_recomputes")
def _():
    from twosigma.memento.memento import MementoFunction
    _cache_env("rl1", 64)
    v = al_user.version()
    w = MementoFunction(fn=al_user.fn, cluster_name="pc", register_fn=False)
    return w.version() == v

def _fresh_part_env(name):
    st = FilesystemStorageBackend(path=os.path.join(root, name))
    m.Environment.set(m.Environment(name="p", base_dir=root, repos=[m.ConfigurationRepository(name="r", clusters={"probe": m.FunctionCluster(name="probe", storage=st)})]))

def _keys(p_):
    return {k: p_.get(k) for k in p_.list_keys()}

@probe("partition_inprocess_parent")
def _():
    _fresh_part_env("part1")
    part_mid()                                   # its parent object comes from a first call in this process
    _fresh_part_env("part1")
    return part_mid.memento() is not None and _keys(part_mid()) == {"a": 1, "b": 20}

@probe("partition_parent_full_index")
def _():
    _fresh_part_env("part2")
    part_top()                                   # parent and grandparent are in-process objects
    _fresh_part_env("part2")
    return part_top.memento() is not None and _keys(part_top()) == {"a": 1, "b": 20, "c": 30}

@probe("partition_relay_keeps_inherited")
def _():
    _fresh_part_env("part3")
    part_top()
    _fresh_part_env("part3")
    part_relay()                                 # hands on a partition that was read from the store
    _fresh_part_env("part3")
    return part_relay.memento() is not None and _keys(part_relay()) == {"a": 1, "b": 20, "c": 30}

@probe("scope_follows_memento_fn")
def _():
    import importlib
    pk = os.path.join(root, "pkgs")
    for pkg, body in (("ppa", "from twosigma.memento import memento_function\nfrom ppb import lib\n@memento_function(cluster='pc')\ndef fa(x):\n    return lib.gb(x)\n"),
                      ("ppb", "from twosigma.memento import memento_function\ndef hb(x):\n    return x + 1\n@memento_function(cluster='pc')\ndef gb(x):\n    return hb(x)\n")):
        os.makedirs(os.path.join(pk, pkg), exist_ok=True)
        open(os.path.join(pk, pkg, "__init__.py"), "w").close()
        with open(os.path.join(pk, pkg, "app.py" if pkg == "ppa" else "lib.py"), "w") as f:
            f.write(body)
    sys.path.insert(0, pk)
    _cache_env("scope1", 64)
    app = importlib.import_module("ppa.app")
    keys = [r.key for r in app.fa.hash_rules()]
    return any(k.startswith("Function;") and k.endswith("ppb.lib:hb") for k in keys)

@probe("anonymous_helpers_distinct")
def _():
    _cache_env("lam1", 64)
    keys = [r.key for r in lam_user.hash_rules() if r.key.startswith("Function;") and "lam_user" in r.key.split(";")[1]]
    return len(keys) == 2 and len(set(keys)) == 2

@probe("setconst_canonical")
def _():
    import subprocess
    code = ("import sys; sys.path.insert(0, %r)\n"
            "import logging; logging.disable(logging.CRITICAL)\n"
            "from twosigma.memento.code_hash import fn_code_hash\n"
            "def f(x):\n    return x in {'a', 'bb', 'ccc', 'dddd', 'e', 'ff', 'g'}\n"
            "print('@@' + fn_code_hash(f))\n") % repo
    hs = set()
    for seed in ("1", "2", "3", "4"):
        o = subprocess.run([sys.executable, "-c", code], capture_output=True, text=True, timeout=60, env=dict(os.environ, PYTHONHASHSEED=seed)).stdout
        hs.add([l for l in o.splitlines() if l.startswith("@@")][0])
    return len(hs) == 1

print("@@PROBES@@" + json.dumps(out))
shutil.rmtree(root, ignore_errors=True)
'''


def run_probes(repo, scratch_parent="/var/tmp"):
    py = "/venv/bin/python" if os.path.exists("/venv/bin/python") else sys.executable
    try:
        env = dict(os.environ, PYTHONHASHSEED="0", PYTHONDONTWRITEBYTECODE="1")
        import tempfile
        with tempfile.TemporaryDirectory(dir=scratch_parent) as td:
            fn = os.path.join(td, "memento_probe.py")
            with open(fn, "w") as f:
                f.write(SCRIPT)
            p = subprocess.run([py, fn, repo, scratch_parent], capture_output=True, text=True, timeout=120, env=env)
        for line in p.stdout.splitlines():
            if line.startswith("@@PROBES@@"):
                return json.loads(line[len("@@PROBES@@"):])
    except Exception:
        pass
    return {}


if __name__ == "__main__":
    print(json.dumps(run_probes(sys.argv[1] if len(sys.argv) > 1 else "/repo"), indent=1))
