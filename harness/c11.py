"""C11 — the JSON metadata codec round-trips and keeps its cross-language wire format.
Theorems: Codec/WireProofs.v. Correspondence (exact): the model's rendering of encode_memento is
compared byte for byte with json.dumps(MementoCodec.encode_memento(m)) (field names, order,
typed tags); the implementation's encode -> dumps -> strict parse -> decode round trip is
checked component-wise, including the argument hash recomputed from the decoded arguments."""
import datetime
import json
import random

from . import common as C
from .c04 import Gen, ustr_term, same_value

HEADER = """From Coq Require Import List NArith ZArith String Ascii Bool.
From Memento Require Import Codec.Json Codec.ArgHash Codec.Wire.
Import ListNotations. Open Scope N_scope.
Definition enc_case (m : memento) : list N := u (render (encode_memento m)).
"""


def strict_json_loads(text):
    def bad(tok):
        raise ValueError("non-JSON token %s" % tok)
    return json.loads(text, parse_constant=bad)


def jv_term(v):
    if v is None:
        return "JNull"
    if isinstance(v, bool):
        return "(JBool %s)" % C.coq_bool(v)
    if isinstance(v, int):
        return "(JInt (%d)%%Z)" % v
    if isinstance(v, str):
        return "(JStr %s)" % ustr_term(v)
    if isinstance(v, list):
        return "(JArr %s)" % C.coq_list([jv_term(x) for x in v])
    if isinstance(v, dict):
        return "(JObj %s)" % C.coq_list(["(%s, %s)" % (ustr_term(k), jv_term(x)) for k, x in v.items()])
    raise ValueError(type(v))


class MGen:
    def __init__(self, rng, m, sigmod):
        from twosigma.memento.reference import FunctionReferenceWithArguments
        from twosigma.memento.metadata import Memento, InvocationMetadata, ResultType
        from twosigma.memento.resource import ResourceHandle
        from twosigma.memento.types import VersionedDataSourceKey
        self.rng, self.sigmod = rng, sigmod
        self.g = Gen(rng, sigmod)
        self.FRA, self.Memento, self.IM, self.RT, self.RH, self.VK = FunctionReferenceWithArguments, Memento, InvocationMetadata, ResultType, ResourceHandle, VersionedDataSourceKey

    def fra(self):
        r = self.rng
        name = r.choice(["s1", "s2", "s3", "s3d", "s4"])
        f = self.sigmod.FUNCS[name]
        params = self.sigmod.PARAMS[name]
        if r.random() < 0.3 and len(params) > 1:
            f = f.partial(self.g.value(1))
            params = params[1:]
        npos = r.randint(0, len(params))
        args = tuple(self.g.value(1) for _ in range(npos))
        kwargs = {p: self.g.value(1) for p in params[npos:] if r.random() < 0.8 or p in self.sigmod.REQUIRED[name]}
        ctx = {k: self.g.value(2) for k in r.sample(["env", "asof"], r.randint(0, 2))} if r.random() < 0.3 else None
        return self.FRA(f.fn_reference(), args, kwargs, ctx)

    def memento(self):
        r = self.rng
        tz = r.choice([datetime.timezone.utc, None, datetime.timezone(datetime.timedelta(minutes=-300))])
        t = datetime.datetime(2022, r.randint(1, 12), r.randint(1, 28), r.randint(0, 23), r.randint(0, 59), r.randint(0, 59),
                              r.choice([0, 250000]), tzinfo=tz)
        fra = self.fra()
        invs = [self.fra() for _ in range(r.randint(0, 3))]
        # the same effective call recorded again in another calling convention (positional arguments spelled as keywords):
        # equal as a key, but a different record
        for x in list(invs):
            if x.args and r.random() < 0.5:
                names = list(x.fn_reference.parameter_names)
                if x.fn_reference.partial_args:
                    names = names[len(x.fn_reference.partial_args):]
                names = [n for n in names if n not in (x.fn_reference.partial_kwargs or {})]
                kw = dict(zip(names, x.args))
                kw.update(x.kwargs or {})
                invs.insert(r.randrange(len(invs) + 1), self.FRA(x.fn_reference, (), kw, x.context_args))
        ress = [self.RH(resource_type=r.choice(["file", "s3"]), url=r.choice(["file:///a/b", "s3://bucket/k#1", "é"]),
                        version=r.choice(["v1", None, "2#3"])) for _ in range(r.randint(0, 2))]
        deps = {x.fn_reference for x in [fra] + invs}
        ck = None
        if r.random() < 0.85:
            ck = self.VK(r.choice(["c/abcdef", "ov/a#b", "reports/2024#q1/summary", "k#"]), r.choice(["u-1", "7eac9287-1e06-4c6d", ""]))
        rt = r.choice([self.RT.number, self.RT.string, self.RT.null, self.RT.data_frame, self.RT.exception])
        runner = r.choice([{}, {"type": "local"}, {"type": "x", "n": 3, "tags": ["a", "b"]}])
        return self.Memento(time=t, invocation_metadata=self.IM(runtime=datetime.timedelta(seconds=r.choice([0.0, 1.5, 123.25, 1e-6, 86400.0])),
                                                              fn_reference_with_args=fra, result_type=rt, invocations=invs, resources=ress),
                            function_dependencies=deps, runner=runner, correlation_id=r.choice(["abc123", "", "id-é"]), content_key=ck)

    # ---- Coq terms
    def fnref_term(self, ref):
        return "{| f_qn := %s; f_pargs := %s; f_pkw := %s; f_names := %s |}" % (
            ustr_term(ref.qualified_name), C.coq_list([self.g.term(x) for x in (ref.partial_args or ())]),
            self.g.kw_term(ref.partial_kwargs or {}), C.coq_list([ustr_term(n) for n in ref.parameter_names]))

    def fra_term(self, x):
        return "{| r_fn := %s; r_args := %s; r_kwargs := %s; r_ctx := %s |}" % (
            self.fnref_term(x.fn_reference), C.coq_list([self.g.term(a) for a in x.args]), self.g.kw_term(x.kwargs), self.g.kw_term(x.context_args or {}))

    def memento_term(self, mm, deps_order):
        im = mm.invocation_metadata
        ck = "None" if mm.content_key is None else "(Some (%s, %s))" % (ustr_term(mm.content_key.key), ustr_term(mm.content_key.version))
        return ("{| m_time := %s; m_fra := %s; m_invocations := %s; m_resources := %s; m_runtime := \"%s\"%%string; m_result_type := %s; "
                "m_deps := %s; m_runner := %s; m_corr := %s; m_content_key := %s |}") % (
            ustr_term(mm.time.isoformat()), self.fra_term(im.fn_reference_with_args), C.coq_list([self.fra_term(x) for x in im.invocations]),
            C.coq_list(["{| res_type := %s; res_url := %s; res_version := %s |}" % (
                ustr_term(x.resource_type), ustr_term(x.url), "None" if x.version is None else "(Some %s)" % ustr_term(x.version)) for x in im.resources]),
            json.dumps(im.runtime.total_seconds()), ustr_term(im.result_type.name),
            C.coq_list([self.fnref_term(d) for d in deps_order]), jv_term(mm.runner), ustr_term(mm.correlation_id), ck)


def same_fra(a, b):
    return a.fn_reference.qualified_name == b.fn_reference.qualified_name and same_value(list(a.args), list(b.args)) and \
        same_value(a.kwargs, b.kwargs) and same_value(a.context_args or {}, b.context_args or {}) and \
        same_value(list(a.fn_reference.partial_args or ()), list(b.fn_reference.partial_args or ())) and \
        same_value(dict(a.fn_reference.partial_kwargs or {}), dict(b.fn_reference.partial_kwargs or {}))


def compare_mementos(a, b):
    diffs = []
    if not (a.time == b.time and (a.time.tzinfo is None) == (b.time.tzinfo is None)):
        diffs.append("time %r vs %r" % (a.time, b.time))
    ia, ib = a.invocation_metadata, b.invocation_metadata
    if not same_fra(ia.fn_reference_with_args, ib.fn_reference_with_args):
        diffs.append("function reference / args / kwargs / context args")
    if ia.fn_reference_with_args.arg_hash != ib.fn_reference_with_args.arg_hash:
        diffs.append("argument hash %s vs %s" % (ia.fn_reference_with_args.arg_hash, ib.fn_reference_with_args.arg_hash))
    if len(ia.invocations) != len(ib.invocations) or not all(same_fra(x, y) and x.arg_hash == y.arg_hash for x, y in zip(ia.invocations, ib.invocations)):
        diffs.append("invocations")
    if [(x.resource_type, x.url, x.version) for x in ia.resources] != [(x.resource_type, x.url, x.version) for x in ib.resources]:
        diffs.append("resources")
    if {d.qualified_name for d in a.function_dependencies} != {d.qualified_name for d in b.function_dependencies}:
        diffs.append("function dependencies")
    if ia.runtime != ib.runtime:
        diffs.append("runtime")
    if ia.result_type != ib.result_type:
        diffs.append("result type")
    if a.runner != b.runner:
        diffs.append("runner")
    if a.correlation_id != b.correlation_id:
        diffs.append("correlation id")
    ka, kb = a.content_key, b.content_key
    if (ka is None) != (kb is None) or (ka is not None and (ka.key, ka.version) != (kb.key, kb.version)):
        diffs.append("content key %r vs %r" % (ka, kb))
    return diffs


def has_nonfinite(text):
    try:
        strict_json_loads(text)
        return False
    except ValueError:
        return True


def run(tier, seed):
    rep = C.Report("C11", tier, seed)
    gate = C.proof_gate("C11")
    rng = random.Random(seed)
    n = 150 if tier == "quick" else 3000
    with C.Scratch("c11") as scratch:
        from . import implenv
        m = implenv.setup(scratch)
        from twosigma.memento.serialization import MementoCodec
        from twosigma.memento.storage_memory import MemoryStorageBackend
        from . import fnlib, sigmod
        fnlib.set_env(m, scratch, {"sig": (MemoryStorageBackend(), None)})
        mg = MGen(rng, m, sigmod)
        # function-valued arguments whose partial arguments are equal for Python but different memento arguments
        # (1 / 1.0 / True): each round-trips to itself, in whatever order the process meets them
        twins = [1, 1.0, True, 0, 0.0, False]
        rng.shuffle(twins)
        for tv in twins * 2:
            for build in (lambda v: sigmod.s2.partial(v), lambda v: sigmod.s3.partial(b=v)):
                fa = build(tv)
                try:
                    doc = MementoCodec.encode_arg(fa)
                    back = MementoCodec.decode_arg(json.loads(json.dumps(doc)))
                    ref = back.fn_reference()
                    got = list(ref.partial_args or ()) + list((ref.partial_kwargs or {}).values())
                    if len(got) != 1 or type(got[0]) is not type(tv) or got[0] != tv or MementoCodec.encode_arg(back) != doc:
                        rep.violation("C11:roundtrip-differs:function-partial-argument", "a function argument with the partial argument %r (%s) reads back with %r" % (tv, type(tv).__name__, got),
                                      {"partial_argument": repr(tv), "document": doc, "decoded_partial_arguments": repr(got)})
                except Exception as e:
                    rep.violation("C11:roundtrip-raised", "%s: %s" % (type(e).__name__, str(e)[:150]), {"partial_argument": repr(tv)})
        terms, texts, metas = [], [], []
        nonjson = 0
        for i in range(n):
            mm = mg.memento()
            enc = MementoCodec.encode_memento(mm)
            text = json.dumps(enc, separators=(",", ":"))
            meta = {"memento_json": text[:1500]}
            # the order in which the dependency set was emitted
            deps_order = list(mm.function_dependencies)      # same set object, same iteration order as the encoder saw
            terms.append(mg.memento_term(mm, deps_order))
            texts.append(text)
            metas.append(meta)
            if has_nonfinite(text):
                nonjson += 1
                rep.violation("C11:non-json-number-token", "the emitted document contains NaN / Infinity, which is not RFC 8259 JSON", meta)
                back = json.loads(text)
            else:
                back = strict_json_loads(text)
            try:
                dec = MementoCodec.decode_memento(back)
            except Exception as e:
                rep.violation("C11:decode-raised", "decode_memento raised %s: %s" % (type(e).__name__, str(e)[:200]), meta)
                continue
            diffs = compare_mementos(mm, dec)
            if diffs:
                rep.violation("C11:roundtrip-differs:%s" % diffs[0].split()[0], "encode -> JSON -> decode changed: %s" % "; ".join(diffs), meta)
        mism = 0
        CH = 12
        starts = list(range(0, len(terms), CH))
        try:
            all_outs = C.coq_eval_nested_many(HEADER, ["map enc_case %s" % C.coq_list(terms[st:st + CH]) for st in starts])
        except Exception as e:
            rep.broken.append("correspondence C11 (model could not be evaluated): %s" % str(e)[:300])
            all_outs, starts = [], []
        for start, outs in zip(starts, all_outs):
            for j, codes in enumerate(outs):
                want = bytes(codes).decode("ascii", "replace")
                if want != texts[start + j]:
                    mism += 1
                    k = next((q for q in range(min(len(want), len(texts[start + j]))) if want[q] != texts[start + j][q]), 0)
                    rep.violation("C11:wire-format-differs-from-frozen-contract",
                                  "the emitted JSON differs from the frozen wire format at offset %d: emitted ...%s... expected ...%s..." % (
                                      k, texts[start + j][max(0, k - 40):k + 40], want[max(0, k - 40):k + 40]), metas[start + j])
        rep.samples = [metas[0], metas[1]] if len(metas) > 1 else metas
        rep.coverage.update({
            "evaluations": n, "distinct_nontrivial": len(set(texts)),
            "rule": "random mementos: function references with partials over 5 signatures, positional / keyword / context arguments from the C04 value generator (dates, zoned datetimes, NaN/inf, "
                    "non-ASCII, nested function references), 0-3 invocations, resource handles, content keys containing '#', zoned / naive times; exact comparison of json.dumps(encode_memento) "
                    "with the model's rendering; encode -> dumps -> strict RFC 8259 parse -> decode compared component-wise incl. recomputed argument hashes",
            "value_kinds": mg.g.kinds, "documents_with_nan_or_inf": nonjson, "wire_mismatches": mism, "traces_validated_against_impl": n,
        })
        rep.assumptions = ["dateutil.parser.parse / isoformat are oracles (isoformat never ends in 'Z')", "json.loads(json.dumps(x)) = x on the emitted documents",
                           "numpy-array and bytes arguments are outside the modelled argument domain"]
    return rep.finish(gate)
