"""C04 — argument identity: the memo key is canonical in the bound argument values.
Theorems: Codec/ArgHashProofs.v. Correspondence (exact): the model prints the pre-image bytes,
the harness hashes them with hashlib.sha256 and compares with the implementation's arg_hash;
the kwargs received by the body are compared with the model's effective kwargs; equivalent and
minimally different presentations are generated in pairs and checked for hit / miss."""
import datetime
import hashlib
import json
import math
import os
import shutil
import sys
import random

from . import common as C

HEADER = """From Coq Require Import List NArith ZArith String Ascii Bool.
From Memento Require Import Codec.Json Codec.ArgHash.
Import ListNotations. Open Scope N_scope.
Definition pre_case (c : list ustr * kwargs * list arg * list arg * kwargs * kwargs) : list N :=
  let '(params, pkw, pargs, args, kw, ctx) := c in
  match call_preimage params pkw pargs args kw ctx with Some s => u s | None => [0] end.
Definition body_case (c : list ustr * kwargs * list arg * list arg * kwargs * option kwargs) : option nat :=
  let '(params, pkw, pargs, args, kw, seen) := c in
  match effective params pkw pargs args kw, seen with
  | None, None => None
  | Some eff, Some body => if arg_eqb 60 (ADict eff) (ADict body) then None else Some 1%nat
  | _, _ => Some 2%nat
  end.
"""

STRS = ["", "a", "abc", "x y", 'q"uote', "back\\slash", "tab\there", "nl\nx", "\x00\x1f", "\x7f", "é", "日本", "\U0001F600", "z ",
        "_mementoType", "1", "10", "True", "None", "€uro", "퟿", "￿"]
INTS = [0, 1, -1, 2, 10, -15, 255, 2**31, -2**63, 2**64 + 1, 10**30, True + 1]
FLOATS = [0.0, -0.0, 1.0, -1.5, 0.1, 1e22, 1e-7, 123456789.123, float("inf"), float("-inf"), float("nan"), 2.0**70, 5e-324]
DATES = [datetime.date(2020, 1, 2), datetime.date(1999, 12, 31), datetime.date(1, 1, 1)]
TZS = [None, datetime.timezone.utc, datetime.timezone(datetime.timedelta(minutes=330)),
       datetime.timezone(datetime.timedelta(minutes=-480)), datetime.timezone(datetime.timedelta(0)),
       datetime.timezone(datetime.timedelta(minutes=-210)), datetime.timezone(datetime.timedelta(minutes=-570)), datetime.timezone(datetime.timedelta(minutes=-1)),
       datetime.timezone(datetime.timedelta(minutes=765))]


def ustr_term(s):
    return "([" + "; ".join(str(ord(ch)) for ch in s) + "] : list N)" if s else "([] : list N)"


class Gen:
    def __init__(self, rng, sigmod):
        self.rng, self.sigmod = rng, sigmod
        self.kinds = {}

    def count(self, k):
        self.kinds[k] = self.kinds.get(k, 0) + 1

    def value(self, depth=0):
        r = self.rng
        x = r.random()
        if depth >= 3:
            x = x * 0.7
        if x < 0.06:
            self.count("none")
            return None
        if x < 0.14:
            self.count("bool")
            return r.choice([True, False])
        if x < 0.30:
            self.count("int")
            return r.choice(INTS) if r.random() < 0.7 else r.randint(-10**6, 10**6)
        if x < 0.42:
            self.count("float")
            return r.choice(FLOATS) if r.random() < 0.7 else r.uniform(-1e6, 1e6)
        if x < 0.56:
            self.count("str")
            return r.choice(STRS) if r.random() < 0.8 else "".join(chr(r.choice([r.randint(32, 126), r.randint(160, 0x2fff), r.randint(0x10000, 0x10ffff)])) for _ in range(r.randint(0, 6)))
        if x < 0.62:
            self.count("date")
            return r.choice(DATES)
        if x < 0.70:
            self.count("datetime")
            return datetime.datetime(2021, r.randint(1, 12), r.randint(1, 28), r.randint(0, 23), r.randint(0, 59), r.randint(0, 59),
                                     r.choice([0, 0, 123456, 500000]), tzinfo=r.choice(TZS))
        if x < 0.80:
            self.count("list")
            return [self.value(depth + 1) for _ in range(r.randint(0, 3))]
        if x < 0.93:
            self.count("dict")
            keys = r.sample([s for s in STRS if s != "_mementoType"], r.randint(0, 4))
            return {k: self.value(depth + 1) for k in keys}
        self.count("fnref")
        f = self.sigmod.FUNCS[r.choice(["s2", "s3", "s1"])]
        n = r.random()
        if n < 0.4:
            g = f
        elif n < 0.7:
            g = f.partial(self.value(depth + 2))
        else:
            g = f.partial(**{self.sigmod.PARAMS[f.__name__][-1]: self.value(depth + 2)})
        # the caller's copy of the function may carry call modifiers; they are no part of the argument's value
        # (the key covers the reference only), so the body must receive the function without them
        md = r.random()
        if md < 0.15:
            self.count("fnref+ignore_result")
            g = g.ignore_result()
        elif md < 0.3:
            self.count("fnref+context_args")
            g = g.with_context_args({"tenant": r.randint(1, 3)})
        elif md < 0.4:
            self.count("fnref+force_local")
            g = g.force_local()
        return g

    # python value -> Coq term of type arg
    def term(self, v):
        from twosigma.memento.types import MementoFunctionType
        if v is None:
            return "ANone"
        if isinstance(v, bool):
            return "(ABool %s)" % C.coq_bool(v)
        if isinstance(v, int):
            return "(AInt (%d)%%Z)" % v
        if isinstance(v, float):
            return '(AFloat "%s"%%string)' % json.dumps(v)
        if isinstance(v, str):
            return "(AStr %s)" % ustr_term(v)
        if isinstance(v, datetime.datetime):
            return "(ADateTime %s)" % ustr_term(v.isoformat())
        if isinstance(v, datetime.date):
            return "(ADate %s)" % ustr_term(v.isoformat())
        if isinstance(v, list):
            return "(AList %s)" % C.coq_list([self.term(x) for x in v])
        if isinstance(v, dict):
            return "(ADict %s)" % self.kw_term(v)
        if isinstance(v, MementoFunctionType):
            ref = v.fn_reference()
            return "(AFn %s %s %s %s)" % (ustr_term(ref.qualified_name), C.coq_list([self.term(x) for x in (ref.partial_args or ())]),
                                          self.kw_term(ref.partial_kwargs or {}), C.coq_list([ustr_term(n) for n in ref.parameter_names]))
        raise ValueError(type(v))

    def kw_term(self, d):
        return C.coq_list(["(%s, %s)" % (ustr_term(k), self.term(v)) for k, v in d.items()])


def presentations(rng, sigmod, name, binding):
    """a random way of passing [binding] to function [name]: (partial kwargs, partial args, args, kwargs)"""
    params = sigmod.PARAMS[name]
    kwonly = sigmod.KWONLY.get(name, set())
    bound = [p for p in params if p in binding]
    # positional-capable prefix of params that is entirely bound
    prefix = []
    for p in params:
        if p in binding and p not in kwonly:
            prefix.append(p)
        else:
            break
    npart = rng.randint(0, len(prefix)) if rng.random() < 0.5 else 0
    pargs = [binding[p] for p in prefix[:npart]]
    rest = [p for p in bound if p not in prefix[:npart]]
    rest += [k for k in binding if k not in params]          # keywords a var-keyword parameter collects
    pkw_names = [p for p in rest if rng.random() < 0.25]
    pkw = {p: binding[p] for p in pkw_names}
    rest = [p for p in rest if p not in pkw]
    # positionals fill the parameters not yet bound, in parameter order
    remaining = [p for p in params if p not in prefix[:npart] and p not in pkw]
    npos = 0
    for p in remaining:
        if p in binding and p not in kwonly and p in rest:
            npos += 1
        else:
            break
    npos = rng.randint(0, npos)
    args = [binding[p] for p in remaining[:npos]]
    kwnames = [p for p in rest if p not in remaining[:npos]]
    rng.shuffle(kwnames)
    kw = {p: binding[p] for p in kwnames}
    return pkw, pargs, args, kw


def canon_repr(v):
    """text that distinguishes exactly what the normalized encoding distinguishes (offsets of aware datetimes, signs of zeros)"""
    if isinstance(v, datetime.datetime):
        return "dt:" + v.isoformat()
    if isinstance(v, (list, tuple)):
        return "[" + ", ".join(canon_repr(x) for x in v) + "]"
    if isinstance(v, dict):
        return "{" + ", ".join("%r: %s" % (k, canon_repr(x)) for k, x in sorted(v.items())) + "}"
    return repr(v)


def same_value(a, b):
    """type-aware equality (bool/int/float distinguished, NaN equal to itself, datetimes by isoformat)"""
    from twosigma.memento.types import MementoFunctionType
    if isinstance(a, MementoFunctionType) and isinstance(b, MementoFunctionType):
        ra, rb = a.fn_reference(), b.fn_reference()
        # [a] is what the body received: the normalized function, free of the call modifiers of the caller's copy
        ctx = getattr(a, "context", None)
        if ctx is not None and (ctx.local.ignore_result or ctx.local.force_local or ctx.recursive.context_args):
            return False
        return ra.qualified_name == rb.qualified_name and same_value(list(ra.partial_args or ()), list(rb.partial_args or ())) \
            and same_value(dict(ra.partial_kwargs or {}), dict(rb.partial_kwargs or {}))
    if type(a) is not type(b):
        if not (isinstance(a, datetime.datetime) and isinstance(b, datetime.datetime)):
            return False
    if isinstance(a, float):
        return (math.isnan(a) and math.isnan(b)) or (a == b and math.copysign(1, a) == math.copysign(1, b))
    if isinstance(a, datetime.datetime):
        return a.isoformat() == b.isoformat()
    if isinstance(a, list):
        return len(a) == len(b) and all(same_value(x, y) for x, y in zip(a, b))
    if isinstance(a, dict):
        return set(a) == set(b) and all(same_value(a[k], b[k]) for k in a)
    return a == b


def run(tier, seed):
    rep = C.Report("C04", tier, seed)
    gate = C.proof_gate("C04")
    rng = random.Random(seed)
    n_cases = 500 if tier == "quick" else 8000
    with C.Scratch("c04") as scratch:
        from . import implenv
        m = implenv.setup(scratch)
        from twosigma.memento.storage_memory import MemoryStorageBackend
        from . import fnlib, sigmod
        tr = fnlib.Trace()
        g = Gen(rng, sigmod)
        pre_terms, body_terms, metas = [], [], []
        npairs = {"equivalent": 0, "different": 0}
        for ci in range(n_cases):
            fnlib.set_env(m, scratch, {"sig": (MemoryStorageBackend(), None), "fc": (MemoryStorageBackend(), None)})
            name = rng.choice(list(sigmod.FUNCS))
            params = sigmod.PARAMS[name]
            binding = {}
            for p in params:
                if p in sigmod.REQUIRED[name] or rng.random() < 0.6:
                    binding[p] = g.value()
            for p in sigmod.VARKW.get(name, []):
                if rng.random() < 0.6:
                    binding[p] = g.value()
            ctx = None
            if rng.random() < 0.25:
                ctx = {k: g.value(2) for k in rng.sample(["env", "asof", "x"], rng.randint(0, 2))}
            f = sigmod.FUNCS[name]
            results = []
            for variant in range(2):
                pkw, pargs, args, kw = presentations(rng, sigmod, name, binding)
                if variant == 1 and rng.random() < 0.15 and len(params) > len(pargs) + len(args):
                    pass
                gfn = f.partial(*pargs, **pkw) if (pargs or pkw) else f
                if ctx is not None:
                    gfn = gfn.with_context_args(ctx)
                tr.clear()
                err = None
                try:
                    fra = gfn.fn_reference().with_args(*args, _memento_context_args=ctx, **kw)
                    gfn(*args, **kw)
                except Exception as e:
                    err = "%s: %s" % (type(e).__name__, str(e)[:100])
                    fra = None
                bodies = [e for e in tr.events if e[0] == "body"]
                case = "(%s, %s, %s, %s, %s" % (C.coq_list([ustr_term(p) for p in params]), g.kw_term(pkw), C.coq_list([g.term(x) for x in pargs]),
                                                C.coq_list([g.term(x) for x in args]), g.kw_term(kw))
                pre_terms.append(case + ", %s)" % g.kw_term(ctx or {}))
                seen_body = bodies[0][2] if bodies else None
                if seen_body is not None:
                    # parameters that were not bound show their Python default in the body
                    dflt = sigmod.DEFAULTS.get(name, {})
                    for k in list(seen_body):
                        if k not in binding:
                            if k in dflt and same_value(seen_body[k], dflt[k]):
                                del seen_body[k]
                if variant == 0:
                    body_terms.append(case + ", %s)" % ("None" if (err or seen_body is None) else "(Some %s)" % g.kw_term(seen_body)))
                    body_meta = len(metas)
                meta = {"fn": name, "binding": repr(binding)[:300], "presentation": repr((pkw, pargs, args, kw))[:300], "ctx": repr(ctx),
                        "arg_hash": fra.arg_hash if fra else None, "error": err, "body_ran": len(bodies)}
                metas.append(meta)
                results.append((fra.arg_hash if fra else None, len(bodies), seen_body, err))
                # direct: the body receives exactly the bound normalized values
                if variant == 0 and seen_body is not None and not same_value(seen_body, binding):
                    rep.violation("C04:body-got-other-values", "the body received %r for binding %r" % (seen_body, binding), meta)
                if err is not None and not err.startswith("ValueError"):
                    rep.violation("C04:unexpected-exception", err, meta)
            # equivalent presentations share the key and the result; the second one is a hit
            (h1, b1, _, e1), (h2, b2, _, e2) = results
            if e1 is None and e2 is None:
                npairs["equivalent"] += 1
                if h1 != h2:
                    rep.violation("C04:equivalent-presentations-different-key", "two presentations of one binding got keys %s / %s" % (h1, h2),
                                  {"first": metas[-2], "second": metas[-1]})
                elif b1 != 1 or b2 != 0:
                    rep.violation("C04:equivalent-presentation-not-a-hit", "body executions %d then %d for two presentations of one binding" % (b1, b2),
                                  {"first": metas[-2], "second": metas[-1]})
                # the batch presentation of the same binding under the same context arguments is a hit; under
                # other context arguments it is a different key (one execution, then a hit)
                if rng.random() < 0.5 and all(isinstance(k, str) for k in binding):
                    bf = f.with_context_args(ctx) if ctx is not None else f
                    ctx2 = dict(ctx or {}, zz=len(metas))
                    bf2 = f.with_context_args(ctx2)
                    try:
                        tr.clear()
                        bf.call_batch([dict(binding)])
                        n_same = len([e for e in tr.events if e[0] == "body"])
                        tr.clear()
                        bf2.call_batch([dict(binding)])
                        n_other = len([e for e in tr.events if e[0] == "body"])
                        tr.clear()
                        bf2(**binding)
                        n_other_again = len([e for e in tr.events if e[0] == "body"])
                        npairs["batch"] = npairs.get("batch", 0) + 1
                        if n_same != 0:
                            rep.violation("C04:batch-presentation-not-a-hit", "call_batch of an already memoized binding under the same context arguments executed the body %d times" % n_same,
                                          {"first": metas[-2], "ctx": repr(ctx)})
                        if n_other != 1 or n_other_again != 0:
                            rep.violation("C04:batch-key-ignores-context-args", "call_batch under other context arguments executed the body %d times, the equivalent single call then %d times (expected 1 then 0)" % (n_other, n_other_again),
                                          {"first": metas[-2], "ctx": repr(ctx), "other_ctx": repr(ctx2)})
                    except Exception as e:
                        rep.violation("C04:batch-presentation-raised", "%s: %s" % (type(e).__name__, str(e)[:150]), {"first": metas[-2]})
                # minimally different binding: must be a different key
                if binding:
                    p = rng.choice(list(binding))
                    old = binding[p]
                    alts = [v for v in (1, 1.0, True, "1", None, [1], {"a": 1}, datetime.date(2020, 1, 2),
                                        datetime.datetime(2020, 1, 2), datetime.datetime(2020, 1, 2, tzinfo=datetime.timezone.utc))
                            if not same_value(v, old)]
                    b2v = dict(binding)
                    b2v[p] = rng.choice(alts)
                    kwonly_ok = f
                    if ctx is not None:
                        kwonly_ok = f.with_context_args(ctx)
                    try:
                        h3 = kwonly_ok.fn_reference().with_args(_memento_context_args=ctx, **b2v).arg_hash
                        npairs["different"] += 1
                        if h3 == h1:
                            rep.violation("C04:different-binding-same-key", "bindings differing in %s (%r vs %r) share key %s" % (p, old, b2v[p], h1), metas[-1])
                    except Exception:
                        pass
        # partial trees: several partials derived from one keyword-partial; each binds its own values (the key of each
        # equals the key of the direct call with the same binding, which the loop above ties to the model), and deriving
        # them leaves the parent as it was
        npairs["partial_trees"] = 0
        for ti in range(12 if tier == "quick" else 150):
            name = rng.choice([n for n in sigmod.FUNCS if len(sigmod.PARAMS[n]) + len(sigmod.VARKW.get(n, [])) >= 2])
            f = sigmod.FUNCS[name]
            allp = sigmod.PARAMS[name] + sigmod.VARKW.get(name, [])
            full = {q: 9000 + 10 * ti + i for i, q in enumerate(allp)}
            p0, p1 = rng.sample(allp, 2)
            vals = [g.value(2) for _ in range(3)]
            rest = {q: v for q, v in full.items() if q not in (p0, p1)}
            meta = {"fn": name, "parent": "partial(%s=%r)" % (p0, full[p0]), "children": ["partial(%s=%s)" % (p1, canon_repr(v)) for v in vals], "call": repr(rest)}
            try:
                base = f.partial(**{p0: full[p0]})
                how = rng.choice(["before", "after"])
                if how == "before":
                    base.fn_reference()                  # the parent's reference exists before the children are derived
                sibs = [base.partial(**{p1: v}) for v in vals]
                npairs["partial_trees"] += 1
                for v, sb in zip(vals, sibs):
                    want = f.fn_reference().with_args(**dict(full, **{p1: v})).arg_hash
                    got = sb.fn_reference().with_args(**rest).arg_hash
                    if got != want:
                        rep.violation("C04:partial-tree-key", "a partial derived from a keyword-partial (one of several siblings) has key %s; the direct call with its binding has key %s" % (got, want),
                                      dict(meta, child="partial(%s=%s)" % (p1, canon_repr(v))))
                        break
                    f.forget(**dict(full, **{p1: v}))
                    tr.clear()
                    sb(**rest)
                    bodies = [e for e in tr.events if e[0] == "body"]
                    if len(bodies) != 1 or not same_value(bodies[0][2], dict(full, **{p1: v})):
                        rep.violation("C04:body-got-other-values", "a sibling partial bound %s=%s; the body received %r" % (p1, canon_repr(v), bodies[0][2] if bodies else None),
                                      dict(meta, child="partial(%s=%s)" % (p1, canon_repr(v))))
                        break
                # the parent still binds only its own keyword
                pk = base.fn_reference().partial_kwargs
                if not same_value(dict(pk or {}), {p0: full[p0]}):
                    rep.violation("C04:partial-parent-changed", "after deriving partials from it, the parent partial binds %r (it was created with %r)" % (dict(pk or {}), {p0: full[p0]}), meta)
            except Exception as e:
                rep.violation("C04:partial-tree-raised", "%s: %s" % (type(e).__name__, str(e)[:150]), meta)
        # values that Python considers equal (and hashes alike) but that normalize differently are different arguments:
        # each presentation has its own key, runs its own body, and the body receives the value that was passed
        utc = datetime.timezone.utc
        plus1 = datetime.timezone(datetime.timedelta(hours=1))
        minus530 = datetime.timezone(datetime.timedelta(hours=-5, minutes=-30))
        twins = [(0.0, -0.0), (-0.0, 0.0),
                 (datetime.datetime(2021, 3, 4, 12, 0, tzinfo=utc), datetime.datetime(2021, 3, 4, 13, 0, tzinfo=plus1)),
                 (datetime.datetime(2021, 3, 4, 6, 30, tzinfo=minus530), datetime.datetime(2021, 3, 4, 12, 0, tzinfo=utc)),
                 ([0.0, 1], [-0.0, 1]), ({"k": 0.0}, {"k": -0.0})]
        npairs["python_equal"] = 0
        for ti in range(len(twins) * (2 if tier == "quick" else 8)):
            v1, v2 = twins[ti % len(twins)]
            name = rng.choice(list(sigmod.FUNCS))
            params = sigmod.PARAMS[name]
            if not params:
                continue
            f = sigmod.FUNCS[name]
            pname = rng.choice(params)
            base = {q: 7000 + ti for q in sigmod.REQUIRED[name] if q != pname}
            how = rng.choice(["keyword", "positional"]) if params.index(pname) == 0 and not (set(sigmod.REQUIRED[name]) - {pname}) and pname not in sigmod.KWONLY.get(name, ()) else "keyword"
            outs = []
            for v in (v1, v2):          # earlier iterations may have memoized these very calls
                try:
                    f.forget(**dict(base, **{pname: v}))
                except Exception:
                    pass
            for v in (v1, v2):
                tr.clear()
                try:
                    if how == "positional":
                        f(v, **base)
                    else:
                        f(**dict(base, **{pname: v}))
                    h = f.fn_reference().with_args(**dict(base, **{pname: v})).arg_hash
                except Exception as e:
                    outs.append(("error", "%s: %s" % (type(e).__name__, str(e)[:80]), None))
                    continue
                bodies = [e for e in tr.events if e[0] == "body"]
                outs.append((h, len(bodies), canon_repr(bodies[0][2].get(pname)) if bodies else None))
            if any(o[0] == "error" for o in outs):
                continue
            npairs["python_equal"] += 1
            meta = {"fn": name, "parameter": pname, "passed": how, "first": repr(v1), "second": repr(v2), "observed": outs}
            if outs[0][0] == outs[1][0]:
                rep.violation("C04:python-equal-values-share-key", "%r and %r normalize differently but got the same key" % (v1, v2), meta)
            elif outs[1][1] != 1:
                rep.violation("C04:python-equal-value-served-from-other-key", "after a call with %r, a call with %r did not execute the body (%d executions): it was served another call's result" % (v1, v2, outs[1][1]), meta)
            elif outs[1][2] != canon_repr(v2):
                rep.violation("C04:body-got-other-values", "called with %r (after a call with %r) the body received %s" % (v2, v1, outs[1][2]), meta)
        # dictionaries spelled like the tagged form of a date / datetime: the argument normalization turns them into that
        # date / datetime (theorem C04_tagged_dictionary_is_the_date_refuted shows the encodings coincide), so the call binds
        # the normalized value: same key as the date, and the body receives the date
        npairs["tagged_dictionaries"] = 0
        for tagged, value in (({"_mementoType": "date", "iso8601": "2020-01-02"}, datetime.date(2020, 1, 2)),
                              ({"_mementoType": "datetime", "iso8601": "2020-01-02T03:04:05"}, datetime.datetime(2020, 1, 2, 3, 4, 5)),
                              ({"iso8601": "2021-05-06T00:00:00+00:00", "_mementoType": "datetime"}, datetime.datetime(2021, 5, 6, tzinfo=utc))):
            f = sigmod.FUNCS["s1"]
            try:
                f.forget(a=value)
                tr.clear()
                f(a=tagged)
                bodies = [e for e in tr.events if e[0] == "body"]
                hk = f.fn_reference().with_args(a=tagged).arg_hash
                hv = f.fn_reference().with_args(a=value).arg_hash
                npairs["tagged_dictionaries"] += 1
                meta = {"fn": "s1", "passed": repr(tagged), "normalized": repr(value)}
                if hk != hv:
                    rep.violation("C04:tagged-dictionary-key", "a dictionary spelled like the tagged form of %r has key %s, the value itself %s" % (value, hk, hv), meta)
                if len(bodies) != 1 or not same_value(bodies[0][2].get("a"), value):
                    rep.violation("C04:body-got-other-values", "called with %r the body received %r (the key is that of %r)" % (tagged, bodies[0][2].get("a") if bodies else None, value), meta)
            except Exception as e:
                rep.violation("C04:tagged-dictionary-raised", "%s: %s" % (type(e).__name__, str(e)[:150]), {"passed": repr(tagged)})
        # the same on a filesystem store with a memory cache that is re-opened between the calls (the first call's record is
        # re-read from disk before the twin value is used)
        from . import runner_cases as _R
        npairs["python_equal_reopened"] = 0
        for ti, (v1, v2) in enumerate(twins):
            f = sigmod.FUNCS["s1"]
            tag = "tw%d" % ti
            try:
                fnlib.set_env(m, scratch, {"sig": (_R.make_storage("fs_cache", scratch, tag), None)})
                f(a=v1)
                fnlib.set_env(m, scratch, {"sig": (_R.make_storage("fs_cache", scratch, tag), None)})
                tr.clear()
                f(a=v1)
                again = len([e for e in tr.events if e[0] == "body"])
                tr.clear()
                f(a=v2)
                bodies = [e for e in tr.events if e[0] == "body"]
            except Exception as e:
                rep.violation("C04:reopened-store-raised", "%s: %s" % (type(e).__name__, str(e)[:150]), {"first": repr(v1), "second": repr(v2)})
                continue
            npairs["python_equal_reopened"] += 1
            meta = {"fn": "s1", "first": repr(v1), "second": repr(v2), "store": "filesystem + memory cache, re-opened after the first call"}
            if again != 0:
                rep.violation("C04:equivalent-presentation-not-a-hit", "the same call after re-opening the store executed the body %d times" % again, meta)
            if len(bodies) != 1:
                rep.violation("C04:python-equal-value-served-from-other-key", "after a call with %r was re-read from the store, a call with %r did not execute the body (%d executions)" % (v1, v2, len(bodies)), meta)
            elif canon_repr(bodies[0][2].get("a")) != canon_repr(v2):
                rep.violation("C04:body-got-other-values", "called with %r the body received %s" % (v2, canon_repr(bodies[0][2].get("a"))), meta)
            shutil.rmtree(os.path.join(scratch, "store-" + tag), ignore_errors=True)
        fnlib.set_env(m, scratch, {"sig": (MemoryStorageBackend(), None), "fc": (MemoryStorageBackend(), None)})
        # a function redefined (same module, same name) with its parameters in another order: positional arguments and
        # positional partial arguments bind to the parameters of the definition that is current
        from . import c12 as _c12
        mroot = os.path.join(scratch, "redef04")
        os.makedirs(mroot, exist_ok=True)
        if mroot not in sys.path:
            sys.path.insert(0, mroot)
        npairs["redefined_signatures"] = 0
        for ri in range(3 if tier == "quick" else 20):
            names = rng.sample(["alpha", "beta", "gamma", "delta"], rng.randint(2, 3))
            perm = names[:]
            while perm == names:
                rng.shuffle(perm)
            src = """
                import builtins
                from twosigma.memento import memento_function

                @memento_function(cluster=%r, version="1")
                def sw(%s):
                    t = getattr(builtins, "_vt", None)
                    if t is not None:
                        t(("body", "sw", dict(locals())))
                    return 0
                """
            try:
                mod = _c12.write_module(mroot, "redef%d" % ri, src % (sigmod.CL, ", ".join(names)))
                vals = [100 * ri + i for i in range(len(names))]
                mod.sw(*vals)
                mod.sw.partial(vals[0])(*vals[1:])
                mod.sw.fn_reference().with_args(*vals)
                mod = _c12.write_module(mroot, "redef%d" % ri, src % (sigmod.CL, ", ".join(perm)))
                vals2 = [1000 + 100 * ri + i for i in range(len(names))]
                want = dict(zip(perm, vals2))
                for how in ("positional", "partial"):
                    tr.clear()
                    if how == "positional":
                        mod.sw(*vals2)
                        h = mod.sw.fn_reference().with_args(*vals2).arg_hash
                    else:
                        mod.sw.forget(**want)
                        mod.sw.partial(vals2[0])(*vals2[1:])
                        h = mod.sw.partial(vals2[0]).fn_reference().with_args(*vals2[1:]).arg_hash
                    hk = mod.sw.fn_reference().with_args(**want).arg_hash
                    bodies = [e for e in tr.events if e[0] == "body"]
                    seen = {k: v for k, v in (bodies[0][2] if bodies else {}).items() if k in want}
                    npairs["redefined_signatures"] += 1
                    meta = {"first_definition": names, "redefinition": perm, "call": how, "arguments": vals2, "body_received": seen}
                    if seen != want:
                        rep.violation("C04:body-got-other-values:after-redefinition", "after redefining sw(%s) as sw(%s), the %s call with %r gave the body %r" % (
                            ", ".join(names), ", ".join(perm), how, vals2, seen), meta)
                    if how == "positional" and h != hk:
                        rep.violation("C04:equivalent-presentations-different-key:after-redefinition", "positional and keyword presentations of one binding got different keys after a redefinition with reordered parameters", meta)
            except Exception as e:
                rep.violation("C04:redefinition-raised", "%s: %s" % (type(e).__name__, str(e)[:200]), {"first_definition": names, "redefinition": perm})
        # model: exact pre-image bytes
        mism = 0
        CH = 60
        starts = list(range(0, len(pre_terms), CH))
        try:
            all_pres = C.coq_eval_nested_many(HEADER, ["map pre_case %s" % C.coq_list(pre_terms[st:st + CH]) for st in starts])
        except Exception as e:
            rep.broken.append("correspondence C04 (model could not be evaluated): %s" % str(e)[:300])
            all_pres, starts = [], []
        for start, pres in zip(starts, all_pres):
            for i, codes in enumerate(pres):
                meta = metas[start + i]
                if codes == [0]:
                    if meta["error"] is None:
                        rep.violation("C04:model-rejects-accepted-call", "implementation accepted a call the model rejects (too many arguments)", meta)
                    continue
                if meta["error"] is not None:
                    rep.violation("C04:implementation-rejects-valid-call", "implementation raised %s for a call the documented algorithm accepts" % meta["error"], meta)
                    continue
                digest = hashlib.sha256(bytes(codes)).hexdigest()
                if digest != meta["arg_hash"]:
                    mism += 1
                    meta = dict(meta, documented_preimage=bytes(codes).decode("ascii", "replace")[:400], documented_hash=digest)
                    rep.violation("C04:key-differs-from-documented-algorithm",
                                  "arg_hash %s differs from SHA-256 of the canonical JSON of the effective kwargs (%s)" % (meta["arg_hash"], digest), meta)
        try:
            res = C.run_coq_cases("c04", HEADER, body_terms, "body_case",
                                  case_type="list ustr * kwargs * list arg * list arg * kwargs * option kwargs")
            for i, r in enumerate(res):
                if r is not None:
                    rep.violation("C04:body-kwargs-differ-from-model", "the kwargs the body received differ from the model's effective kwargs (code %d)" % r, {"case": body_terms[i][:600]})
        except RuntimeError as e:
            rep.broken.append("correspondence C04 body kwargs (model could not be evaluated): %s" % str(e)[:300])
        rep.samples = [metas[i] for i in range(0, min(len(metas), 6), 2)]
        rep.coverage.update({
            "evaluations": len(pre_terms), "distinct_nontrivial": len({m_["arg_hash"] for m_ in metas if m_["arg_hash"]}),
            "rule": "random bindings of recursively generated argument values (None/bool/int/float incl. -0.0, NaN, inf/str incl. control, non-ASCII, astral, DEL/date/"
                    "datetime naive+aware with whole-minute offsets/list/dict/function references with partials) to 7 signatures (defaults, keyword-only), each passed in two random "
                    "presentations (partial kwargs / partial positionals / positionals / shuffled keywords), optional context args; exact comparison of SHA-256(model pre-image) with arg_hash; "
                    "non-trivial/distinct = distinct keys produced",
            "value_kinds": g.kinds, "pairs": npairs, "model_key_mismatches": mism, "traces_validated_against_impl": len(pre_terms),
        })
        rep.assumptions = ["float tokens are Python's repr (oracle): the model receives json.dumps(float)", "isoformat() of dates / datetimes is an oracle; offsets are whole minutes",
                           "dict arguments have no key '_mementoType' (such a dict normalizes to a date by design)", "SHA-256 is applied by hashlib on the model's pre-image bytes"]
    return rep.finish(gate)
