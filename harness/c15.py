"""C15 — batch evaluation equals element-wise evaluation, in order.
Theorem: Runner/RunProofs.v (batch_eq_elementwise). Correspondence: (a) call DAGs with batched
sub-calls vs the Coq model (as in C10, batch-heavy); (b) root-level call_batch / map_over_range
on mixed batches (duplicates, failing elements, pre-memoized subsets, raise_first_exception,
partial prefixes, context args) compared position by position with individual calls on a twin
store, including the store state afterwards and execution counts."""
import os
import random
import shutil

from . import common as C
from . import runner_cases as R


def store_state(runner, prog, keys):
    """which of the given (id, ctx) calls are memoized, as seen through the function API"""
    out = {}
    for (k, c) in keys:
        f = runner.fn_for(prog, k, c)
        out[(k, c)] = f.memento(R.spec_of(prog, k)) is not None
    return out


def norm_result(x):
    if isinstance(x, Exception):
        return ("exc", str(x).split(".")[0])
    return ("val", x)


def run(tier, seed):
    rep = C.Report("C15", tier, seed)
    gate = C.proof_gate("C15")
    rng = random.Random(seed)
    nprog = 30 if tier == "quick" else 1500
    with C.Scratch("c15") as scratch:
        from . import implenv
        m = implenv.setup(scratch)
        from . import fnmod
        terms, metas = [], []
        total = 0
        stats = {"batches": 0, "with_duplicates": 0, "with_failures": 0, "with_prememoized": 0, "raise_first": 0, "ctx": 0, "map_over_range": 0}
        # several DIFFERENT elements memoized beforehand, on every kind of backend (memoized failures among them): each slot
        # gets its own element's outcome
        from . import fnlib
        stats["prememoized_mixes"] = 0
        for ti, kind0 in enumerate(["mem", "fs", "fs_cache"] * (1 if tier == "quick" else 6)):
            st0 = R.make_storage(kind0, scratch, "pm%d" % ti)
            fnlib.set_env(m, scratch, {"fc": (st0, None)})
            base = 700000 + 100 * ti
            leaf = [{"id": base + k} for k in range(4)]
            leaf[2]["raise"] = {"cls": "ValueError", "msg": "%d" % (base + 2)}
            pre0 = rng.sample(range(4), rng.randint(2, 4))
            for k in pre0:
                try:
                    fnmod.n1(leaf[k])
                except ValueError:
                    pass
            order = [rng.randrange(4) for _ in range(rng.randint(3, 6))]
            res = fnmod.n1.call_batch([{"spec": leaf[k]} for k in order], raise_first_exception=False)
            got = [norm_result(x) for x in res]
            want = [("exc", "%d" % (base + k)) if k == 2 else ("val", base + k) for k in order]
            want = [norm_result(ValueError(w[1])) if w[0] == "exc" else norm_result(w[1]) for w in want]
            total += 1
            stats["prememoized_mixes"] += 1
            if got != want:
                rep.violation("C15:batch-differs-from-elementwise", "call_batch returned %r, individual calls return %r" % (got, want),
                              {"backend": kind0, "elements": [leaf[k]["id"] for k in order], "pre_memoized": [leaf[k]["id"] for k in pre0], "batch_result": got, "elementwise": want})
            # an element that fails because it names a keyword the function does not declare is a failing element like any other:
            # its slot gets the exception, the other slots get their values (and are memoized)
            leaf3 = [{"id": base + 80 + k} for k in range(3)]
            kws = [{"spec": leaf3[0]}, {"spek": leaf3[1]}, {"spec": leaf3[2]}, {"spec": leaf3[0]}]
            try:
                got3 = [("exc", type(x).__name__) if isinstance(x, BaseException) else ("val", norm_result(x)) for x in fnmod.n1.call_batch(kws, raise_first_exception=False)]
            except Exception as e:
                got3 = "raised %s" % type(e).__name__
            stored3 = [fnmod.n1.memento(**k) is not None for k in (kws[0], kws[2])]
            want3 = []
            for k in kws:
                try:
                    want3.append(("val", norm_result(fnmod.n1(**k))))
                except Exception as e:
                    want3.append(("exc", type(e).__name__))
            total += 1
            stats["undeclared_keyword_elements"] = stats.get("undeclared_keyword_elements", 0) + 1
            if got3 != want3 or stored3 != [True, True]:
                rep.violation("C15:batch-differs-from-elementwise:undeclared-keyword-element", "a batch with one element naming an undeclared keyword gave %r (good elements memoized: %r); individual calls give %r" % (got3, stored3, want3),
                              {"backend": kind0, "batch": [sorted(k) for k in kws], "batch_result": got3, "elementwise": want3})
            # raise_first_exception: the exception of the FIRST failing slot, whichever failures were memoized beforehand
            base2 = base + 50
            leaf2 = [{"id": base2 + k} for k in range(4)]
            for k in (1, 3):
                leaf2[k]["raise"] = {"cls": "ValueError", "msg": "%d" % (base2 + k)}
            try:
                fnmod.n1(leaf2[3])              # only the LATER failure is memoized beforehand
            except ValueError:
                pass
            try:
                fnmod.n1.call_batch([{"spec": leaf2[k]} for k in range(4)], raise_first_exception=True)
                raised2 = None
            except Exception as e:
                raised2 = norm_result(e)
            total += 1
            if raised2 != ("exc", "%d" % (base2 + 1)):
                rep.violation("C15:raise-first-wrong", "raise_first_exception=True raised %r; the first failing element gives %r" % (raised2, ("exc", "%d" % (base2 + 1))),
                              {"backend": kind0, "elements": [x["id"] for x in leaf2], "failing": [base2 + 1, base2 + 3], "pre_memoized": [base2 + 3]})
            shutil.rmtree(os.path.join(scratch, "store-pm%d" % ti), ignore_errors=True)
        for pi in range(nprog):
            prog = R.gen_program(rng, rng.randint(3, 7), p_batch=0.7)
            # (a) body-level batches against the model
            root = max(prog)
            kind = rng.choice(["mem", "fs", "fs_cache"])
            ra = R.Runner(m, scratch, R.make_storage(kind, scratch, "a%d" % pi))
            subs = R.subcalls(prog, root, 0)
            pre = [s for s in subs if rng.random() < 0.4]
            for (k, c) in pre:
                ra.call(prog, k, c)
            out, execs = ra.call(prog, root, 0)
            mem = ra.memento(prog, root, 0)
            total += 1
            meta = {"program": prog, "root": root, "pre_memoized": pre, "backend": kind, "outcome": list(out), "executed": execs}
            if mem is not None:
                terms.append("(%s, %s, (%d, 0), (%s, %s, %s, %s))" % (
                    R.coq_prog(prog), R.coq_keys(pre), root, R.coq_outcome(out), C.coq_list([str(x) for x in execs]),
                    R.coq_keys(mem["invocations"]), C.coq_list([str(x) for x in mem["deps"]])))
                metas.append(meta)
            if out != R.ref_value(prog, root, 0):
                rep.violation("C15:wrong-outcome", "root with batched sub-calls returned %r, element-wise evaluation gives %r" % (out, R.ref_value(prog, root, 0)), meta)
            # (b) root-level batch vs individual calls on a twin store
            fn_idx = rng.randrange(4)
            cands = [i for i in prog if prog[i]["fn"] == fn_idx]
            if not cands:
                continue
            elems = [rng.choice(cands) for _ in range(rng.randint(0, 6))]
            ctx = rng.choice([0, 0, 1])
            raise_first = rng.random() < 0.4
            pre_el = [e for e in set(elems) if rng.random() < 0.4]
            stats["batches"] += 1
            stats["with_duplicates"] += len(set(elems)) < len(elems)
            stats["with_failures"] += any(prog[e]["fails"] for e in elems)
            stats["with_prememoized"] += bool(pre_el)
            stats["raise_first"] += raise_first
            stats["ctx"] += ctx != 0
            rb = R.Runner(m, scratch, R.make_storage(kind, scratch, "b%d" % pi))
            for e in pre_el:
                rb.call(prog, e, ctx)
            rb.trace.clear()
            f = rb.fn_for(prog, elems[0], ctx) if elems else fnmod.FUNCS[R.FN_NAMES[fn_idx]]
            raised = None
            try:
                res = f.call_batch([{"spec": R.spec_of(prog, e)} for e in elems], raise_first_exception=raise_first)
                got = [norm_result(x) for x in res]
            except Exception as e:
                raised, got = norm_result(e), None
            batch_execs = [e[2] for e in rb.trace.events if e[0] == "exec"]
            keys = sorted({(k, c) for e in elems for (k, c) in [(e, ctx)] + R.subcalls(prog, e, ctx)})
            state_b = store_state(rb, prog, keys)
            # twin: element-wise
            rc = R.Runner(m, scratch, R.make_storage(kind, scratch, "c%d" % pi))
            for e in pre_el:
                rc.call(prog, e, ctx)
            want, single_execs = [], []
            for e in elems:
                o, ex = rc.call(prog, e, ctx)
                want.append(("exc", str(o[1])) if o[0] == "exc" else o)
                single_execs += ex
            state_c = store_state(rc, prog, keys)
            total += 1
            meta = {"program": prog, "batch_elements": elems, "context": ctx, "pre_memoized": pre_el, "raise_first_exception": raise_first,
                    "backend": kind, "batch_result": got, "batch_raised": raised, "elementwise": want}
            first_exc = next((w for w in want if w[0] == "exc"), None)
            if raise_first and first_exc is not None:
                if raised != first_exc:
                    rep.violation("C15:raise-first-wrong", "raise_first_exception=True raised %r, the first failing element gives %r" % (raised, first_exc), meta)
            else:
                if raised is not None:
                    rep.violation("C15:batch-raised", "call_batch raised %r although no exception was requested / present" % (raised,), meta)
                elif got != want:
                    rep.violation("C15:batch-differs-from-elementwise", "call_batch returned %r, individual calls return %r" % (got, want), meta)
            if state_b != state_c:
                diff = [k for k in keys if state_b[k] != state_c[k]]
                rep.violation("C15:store-differs-after-batch", "after the batch the store differs from the element-wise one at %r" % (diff,), meta)
            for e in set(batch_execs):
                if batch_execs.count(e) > 1 and ctx == ctx:
                    # the same node may legitimately run under different effective contexts
                    ctxs = {c for (k, c) in keys if k == e}
                    if batch_execs.count(e) > len(ctxs):
                        rep.violation("C15:element-ran-twice", "body of element %d ran %d times in one batch" % (e, batch_execs.count(e)), meta)
            if sorted(batch_execs) != sorted(single_execs):
                rep.violation("C15:executions-differ", "bodies executed by the batch %r vs by individual calls %r" % (sorted(batch_execs), sorted(single_execs)), meta)
            # context args are part of a batch's keys: the equivalent single call afterwards is a hit, under another context a miss
            if elems and raised is None and not prog[elems[0]]["fails"]:
                o, ex = rb.call(prog, elems[0], ctx)
                if elems[0] in ex:
                    rep.violation("C15:batch-key-differs-from-single-call", "after the batch, the equivalent single call ran the body again", meta)
                o, ex = rb.call(prog, elems[0], ctx + 5)
                if elems[0] not in ex:
                    rep.violation("C15:batch-ignores-context-args", "a call under different context args was served from the batch's result", meta)
            for tag in ("a", "b", "c"):
                shutil.rmtree(os.path.join(scratch, "store-%s%d" % (tag, pi)), ignore_errors=True)
            if len(rep.samples) < 2:
                rep.samples.append(meta)
        # map_over_range and partial prefixes
        for t in range(6 if tier == "quick" else 40):
            rr = R.Runner(m, scratch, R.make_storage("mem", scratch, "m%d" % t))
            sp = {"id": 900 + t}
            vals = rng.choice([list(range(3)), [5, 5, 6], (1, 2), range(2, 5), iter([7, 8]), (x for x in [1, 2, 3])])
            expect_keys = None
            try:
                expect_keys = list(vals) if not hasattr(vals, "__next__") else None
            except TypeError:
                pass
            mat = list(vals) if expect_keys is None else expect_keys
            src = iter(mat) if expect_keys is None else mat
            stats["map_over_range"] += 1
            total += 1
            got = fnmod.n4.partial(spec=sp).map_over_range(k=src)
            want = {k: fnmod.n4(sp, k) for k in mat}
            if got != want:
                rep.violation("C15:map-over-range-differs", "map_over_range returned %r, individual calls give %r" % (got, want), {"values": mat, "one_shot_iterable": expect_keys is None})
        # (c) scalar arguments that Python considers equal but that are different calls (1 / 1.0 / True, 0 / 0.0 / False / -0.0,
        # equal instants with different offsets), mixed in one batch, with true duplicates, partial prefixes and map_over_range
        import datetime
        from twosigma.memento.storage_memory import MemoryStorageBackend
        from . import fnlib, sigmod
        utc = datetime.timezone.utc
        plus1 = datetime.timezone(datetime.timedelta(hours=1))
        pool = [1, 1.0, True, 0, 0.0, False, -0.0, "1", 2, datetime.datetime(2021, 3, 4, 12, 0, tzinfo=utc), datetime.datetime(2021, 3, 4, 13, 0, tzinfo=plus1)]
        stats["python_equal_batches"] = 0
        for bi in range(12 if tier == "quick" else 150):
            elems = [rng.choice(pool) for _ in range(rng.randint(2, 7))]
            how = rng.choice(["batch", "batch-partial", "map"])
            outs = {}
            for mode in ("batched", "elementwise"):
                fnlib.set_env(m, scratch, {sigmod.CL: (MemoryStorageBackend(), None)})
                tr = fnlib.Trace()
                f = sigmod.tv.partial(b=5) if how == "batch-partial" else sigmod.tv
                try:
                    if mode == "elementwise":
                        res = [f(a=v) for v in elems]
                    elif how == "map":
                        mp = f.map_over_range(a=elems)
                        res = [mp[v] for v in elems] if isinstance(mp, dict) else list(mp)
                    else:
                        res = f.call_batch([{"a": v} for v in elems], raise_first_exception=True)
                except Exception as e:
                    res = "raised %s: %s" % (type(e).__name__, str(e)[:80])
                outs[mode] = (res, len([e for e in tr.events if e[0] == "body"]))
            total += 1
            stats["python_equal_batches"] += 1
            meta = {"elements": [repr(v) for v in elems], "how": how, "batched": outs["batched"], "elementwise": outs["elementwise"]}
            if how == "map":
                # a mapping keyed by the range values cannot tell Python-equal keys apart: compare per distinct-by-equality value, last one wins in both
                want = {}
                for v, r_ in zip(elems, outs["elementwise"][0]):
                    want[v] = r_
                got = dict(zip(elems, outs["batched"][0])) if isinstance(outs["batched"][0], list) else outs["batched"][0]
                if got != want:
                    rep.violation("C15:map-over-range-differs-from-elementwise", "map_over_range gave %r, individual calls give %r" % (got, want), meta)
            elif outs["batched"][0] != outs["elementwise"][0]:
                rep.violation("C15:batch-differs-from-elementwise:python-equal-values", "call_batch returned %r, individual calls return %r" % (outs["batched"][0], outs["elementwise"][0]), meta)
            if outs["batched"][1] != outs["elementwise"][1]:
                rep.violation("C15:batch-executions-differ:python-equal-values", "the batch executed %d bodies, individual calls %d" % (outs["batched"][1], outs["elementwise"][1]), meta)
        # (d) an element whose body computes fine but whose result cannot be stored: individually the call raises; in a
        # batch the failure belongs in that element's slot, the other elements are evaluated and memoized as usual
        stats["unstorable_batches"] = 0
        for bi in range(6 if tier == "quick" else 60):
            elems = [rng.choice([1, 2, 3, "x", "bad"]) for _ in range(rng.randint(2, 6))]
            if "bad" not in elems:
                elems[rng.randrange(len(elems))] = "bad"
            kindb = rng.choice(["mem", "fs"])
            outs = {}
            for mode in ("batched", "elementwise"):
                st = R.make_storage(kindb, scratch, "u%d%s" % (bi, mode[0]))
                fnlib.set_env(m, scratch, {sigmod.CL: (st, None)})
                tr = fnlib.Trace()
                f = sigmod.tu.partial(b=1) if bi % 2 else sigmod.tu
                res = []
                if mode == "elementwise":
                    for v in elems:
                        try:
                            res.append(("val", f(a=v)))
                        except Exception as e:
                            res.append(("exc", type(e).__name__))
                else:
                    try:
                        for x in f.call_batch([{"a": v} for v in elems], raise_first_exception=False):
                            res.append(("exc", type(x).__name__) if isinstance(x, Exception) else ("val", x))
                    except Exception as e:
                        res = "raised %s: %s" % (type(e).__name__, str(e)[:80])
                memo = sorted({repr(v) for v in elems if f.memento(a=v) is not None})
                outs[mode] = (res, memo, len([e for e in tr.events if e[0] == "body"]))
                shutil.rmtree(os.path.join(scratch, "store-u%d%s" % (bi, mode[0])), ignore_errors=True)
            total += 1
            stats["unstorable_batches"] += 1
            meta = {"elements": elems, "backend": kindb, "batched": outs["batched"], "elementwise": outs["elementwise"]}
            if outs["batched"][0] != outs["elementwise"][0]:
                rep.violation("C15:batch-differs-from-elementwise:unstorable-result", "call_batch gave %r, individual calls give %r" % (outs["batched"][0], outs["elementwise"][0]), meta)
            elif outs["batched"][1] != outs["elementwise"][1]:
                rep.violation("C15:store-differs-after-batch:unstorable-result", "memoized after the batch: %r, after individual calls: %r" % (outs["batched"][1], outs["elementwise"][1]), meta)
        try:
            res = C.run_coq_cases("c15", R.HEADER, terms, "run_case", shard=200,
                                  case_type="list (nat * ndef) * list (nat * nat) * (nat * nat) * (outcome * list nat * list key * list nat)")
        except RuntimeError as e:
            rep.broken.append("correspondence C15 (model could not be evaluated): %s" % str(e)[:300])
            res = []
        what = ["outcome", "executed bodies", "invocations", "dependency set"]
        for meta, r in zip(metas, res):
            if r is not None:
                rep.violation("C15:differs-from-runner-model:%s" % what[r].split()[0], "the %s differ from the runner model" % what[r], meta)
        rep.coverage.update({
            "evaluations": total, "distinct_nontrivial": len(set(terms)) + stats["batches"],
            "rule": "batch-heavy random call DAGs vs the Coq model; root-level call_batch on 0-6 elements (duplicates, failing elements) x pre-memoized subsets x raise_first_exception x context args, each compared "
                    "with individual calls on a twin store (results by position, store state, executions); map_over_range over lists / tuples / ranges / one-shot iterables with a partial prefix",
            "stats": stats, "traces_validated_against_impl": len(terms),
        })
        rep.assumptions = ["elements of one batch are calls of one function (call_batch's interface)"]
    return rep.finish(gate)
