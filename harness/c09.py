"""C09 — concurrent callers: single flight, correct values, consistent cache accounting, under
every schedule. Theorem: Runner/ThreadsProofs.v (any number of threads / keys / any schedule)
+ C06's invariant for any sequence of atomic cache operations. Implementation: real threads
under a deterministic scheduler (harness/sched.py), schedules enumerated systematically up to
a preemption bound at method-call granularity (cache / metadata source / data source / body)
and sampled randomly at source-line granularity inside MemoryCache."""
import builtins
import os
import random
import shutil

from . import common as C
from .sched import Scheduler, PointProxy

VAL = "00112233445566778899aabbccddeeff"


def spec(i, n=6):
    if i >= 200:
        # results that are partitions (an index object plus one object per member are written)
        return {"id": i, "ret": {"k": "part", "v": [["a", {"k": "int", "v": i}], ["b%d" % i, {"k": "str", "v": "s%d" % i}]]}}
    if i >= 100:
        # different calls whose results are the same bytes (they share one content-addressed object in the store)
        return {"id": i, "ret": {"k": "bytes", "v": "ee" + VAL * n}}
    return {"id": i, "ret": {"k": "bytes", "v": ("%02x" % i) + VAL * n}}


SCENARIOS = {
    # name: (specs per thread, pre-memoized spec ids, warm cache?, cache budget bytes)
    "cold-same": ([1, 1], [], False, 1 << 20),
    "cold-diff": ([1, 2], [], False, 1 << 20),
    "warmstore-coldcache-same": ([1, 1], [1], False, 1 << 20),
    "warmcache-same": ([1, 1], [1], True, 1 << 20),
    "cold-diff-tightcache": ([1, 2], [], False, 700),
    "warmstore-coldcache-diff-tightcache": ([1, 2], [1, 2], False, 700),
    "cold-same-3": ([1, 1, 1], [], False, 1 << 20),
    "mixed-3": ([1, 2, 1], [2], False, 700),
    "cold-equal-results-3-nocache": ([101, 102, 102], [], False, 0),
    # the in-memory storage backend (no files, no cache): its tables are shared by the threads
    "cold-diff-3-memstore": ([1, 2, 2], [], False, 0, "memory"),
    # automatically versioned functions with nested calls (each nested call is checked against the caller's declared
    # dependencies), right after another memento function was defined in the process
    "cold-diff-nested-auto": ([1, 2], [], False, 0, "auto-nested"),
    # a cluster described by a configuration dictionary (not by backend objects), used for the first time by two threads at once
    "cold-same-configured-cluster": ([1, 1], [], False, 0, "cfg-memory"),
    # different calls whose results are partitions, written at the same time
    "cold-diff-partitions": ([201, 202], [], False, 0),
}


class Run:
    def __init__(self, m, scratch, name, line_mode, call_files=("memento/runner_local.py",)):
        from twosigma.memento.storage_filesystem import FilesystemStorageBackend
        from twosigma.memento.storage_base import MemoryCache
        from . import fnlib, fnmod
        self.m, self.fnmod = m, fnmod
        specs, pre, warm_cache, budget = SCENARIOS[name][:4]
        kind = (SCENARIOS[name] + ("filesystem",))[4]
        self.specs = [spec(i) for i in specs]
        self.kind = kind
        self.root = os.path.join(scratch, "c09")
        shutil.rmtree(self.root, ignore_errors=True)
        data = os.path.join(self.root, "data")
        self.events = []
        builtins._vt = self.events.append
        if pre:
            fnlib.set_env(m, self.root, {"fc": (FilesystemStorageBackend(path=data), None)})
            for i in pre:
                fnmod.n0(spec(i))
        del self.events[:]
        if kind == "cfg-memory":
            env = m.Environment(name="cfg", base_dir=self.root, repos=[m.ConfigurationRepository(name="r", clusters={
                "fc": m.FunctionCluster(config={"name": "fc", "storage": {"type": "memory"}, "runner": {"type": "local"}})})])
            m.Environment.set(env)
            self.backend = None
        elif kind == "memory":
            from twosigma.memento.storage_memory import MemoryStorageBackend
            self.backend = MemoryStorageBackend()
        else:
            self.backend = FilesystemStorageBackend(path=data, memory_cache_mb=budget / (1024.0 * 1024.0))
        if kind != "cfg-memory":
            fnlib.set_env(m, self.root, {"fc": (self.backend, None)})
        if warm_cache:
            for i in pre:
                fnmod.n0(spec(i))
            del self.events[:]
        self.expected_execs = {i: (0 if i in pre else 1) for i in set(specs)}
        if kind == "auto-nested":
            from . import autofn
            self.autofn = autofn
            autofn.define_another(scratch)
            self.expected_execs = {k * 1000 + i: 1 for i in set(specs) for k in range(4)}
        codes = set()
        if line_mode == "mutex":
            # every source line of the function that hands out the per-call lock
            from twosigma.memento import runner_local
            codes.add(runner_local._mutex_for_invocation.__code__)
        elif line_mode == "links":
            # every source line of the function that publishes a link file (two calls with equal result bytes publish the same one)
            from twosigma.memento.storage_filesystem import _FilesystemDataSource
            codes.add(_FilesystemDataSource._write_non_versioned_link.__code__)
        elif line_mode == "deps":
            call_files = ("memento/memento.py",)      # every function call inside memento.py is a scheduling point
        elif line_mode == "pindex":
            # every source line of the partition strategy's store / encode
            from twosigma.memento.storage_base import DefaultCodec
            for nm in ("store", "encode"):
                f = getattr(DefaultCodec.PicklePartitionStrategy, nm, None)
                if f is not None:
                    codes.add(f.__code__)
            call_files = ()
        elif line_mode == "config":
            call_files = ("memento/configuration.py", "memento/storage.py", "memento/runner_local.py")
        elif line_mode == "memstore":
            # every source line of the in-memory backend's own methods
            from twosigma.memento.storage_memory import MemoryStorageBackend
            for nm, f in vars(MemoryStorageBackend).items():
                f = getattr(f, "__func__", f)
                if callable(f) and hasattr(f, "__code__") and nm != "__init__":
                    codes.add(f.__code__)
        elif line_mode:
            for nm, f in vars(MemoryCache).items():
                f = getattr(f, "__wrapped__", f)
                if callable(f) and hasattr(f, "__code__") and not nm.startswith("_estimate") and not nm.startswith("_pd") \
                        and not nm.startswith("_cache_key"):
                    codes.add(f.__code__)
        if line_mode in ("mutex", "links", "memstore"):
            call_files = ()                 # only the lines of the traced function and the bodies are scheduling points
        self.sched = Scheduler(codes, call_files)
        sched = self.sched
        self.cache = getattr(self.backend, "_memory_cache", None)
        for attr, label in (("_memory_cache", "cache"), ("_metadata_source", "meta"), ("_data_source", "data")):
            if line_mode in ("mutex", "links", "memstore", "deps", "config", "pindex"):
                break
            if getattr(self.backend, attr, None) is not None:
                setattr(self.backend, attr, PointProxy(getattr(self.backend, attr), label, sched))
        ev = self.events

        def vt(e):
            ev.append(e)
            if e[0] == "exec":
                sched.point("body")
        builtins._vt = vt

    def go(self, chooser):
        fns = [(lambda s=s: self.fnmod.n0(s)) for s in self.specs]
        if self.kind == "auto-nested":
            fns = [(lambda s=s: self.autofn.a_outer(s["id"])) for s in self.specs]
        deadlock = self.sched.run(fns, chooser)
        builtins._vt = self.events.append
        return deadlock

    def verdicts(self, deadlock):
        from . import fnmod
        bad = []
        if deadlock:
            bad.append(("deadlock", "no thread could make progress"))
        for w, s in zip(self.sched.workers, self.specs):
            want = fnmod.make_value(s["ret"]) if self.kind != "auto-nested" else 3 * s["id"] + 6
            if w.exc is not None:
                bad.append(("exception-escaped", "thread %d: %s: %s" % (w.idx, type(w.exc).__name__, str(w.exc)[:120])))
            elif not w.done:
                bad.append(("thread-stuck", "thread %d did not finish" % w.idx))
            elif hasattr(want, "list_keys"):
                got_p = {k: w.result.get(k) for k in w.result.list_keys()} if hasattr(w.result, "list_keys") else w.result
                if got_p != {k: want.get(k) for k in want.list_keys()}:
                    bad.append(("wrong-value", "thread %d got the partition %r" % (w.idx, got_p)))
            elif w.result != want:
                bad.append(("wrong-value", "thread %d got %r" % (w.idx, w.result)))
        counts = {}
        for e in self.events:
            if e[0] == "exec":
                counts[e[2]] = counts.get(e[2], 0) + 1
        if not bad and any(s["id"] >= 200 for s in self.specs) and self.kind == "filesystem":
            # what the threads left in the store: read by a fresh backend, every call serves ITS partition without executing
            from twosigma.memento.storage_filesystem import FilesystemStorageBackend
            from . import fnlib
            fnlib.set_env(self.m, self.root, {"fc": (FilesystemStorageBackend(path=os.path.join(self.root, "data")), None)})
            n_before = len([e for e in self.events if e[0] == "exec"])
            for s in self.specs:
                want = fnmod.make_value(s["ret"])
                try:
                    r = fnmod.n0(s)
                    got_p = {k: r.get(k) for k in r.list_keys()}
                except Exception as e:
                    got_p = "%s: %s" % (type(e).__name__, str(e)[:80])
                if got_p != {k: want.get(k) for k in want.list_keys()}:
                    bad.append(("stored-result-differs", "call %d, read back from the store by a fresh backend, gives %r" % (s["id"], got_p)))
            if len([e for e in self.events if e[0] == "exec"]) != n_before:
                bad.append(("single-flight", "a fresh backend had to execute bodies again after the threads finished"))
        for i, want in self.expected_execs.items():
            if counts.get(i, 0) != want:
                bad.append(("single-flight", "body of call %d ran %d times, expected %d" % (i, counts.get(i, 0), want)))
        if type(self.backend).__name__ == "MemoryStorageBackend" and not bad:
            # what a sequential execution leaves in the shared tables: one memento per distinct call
            try:
                have = len(fnmod.n0.list_mementos())
            except Exception as e:
                have = "%s: %s" % (type(e).__name__, str(e)[:80])
            if have != len(self.expected_execs):
                bad.append(("store-after-threads", "the in-memory store lists %s mementos after the threads finished; a sequential execution leaves %d" % (have, len(self.expected_execs))))
        c = self.cache
        if c is not None:
            usage = c.memory_usage
            acc = sum(e.obj_size for e in c.cache.values())
            if usage != acc:
                bad.append(("cache-accounting", "memory_usage %d but resident entries account for %d" % (usage, acc)))
            if usage > c.memory_cache_bytes:
                bad.append(("cache-over-budget", "memory_usage %d > budget %d" % (usage, c.memory_cache_bytes)))
            if sorted(c.lru_deque) != sorted(c.cache):
                bad.append(("cache-lru-list", "the LRU list %r does not list every resident entry %r exactly once (a sequential execution leaves it so)" % (list(c.lru_deque), sorted(c.cache))))
            # what a sequential execution leaves: forgetting everything returns the counter to zero
            for s in self.specs:
                try:
                    fnmod.n0.forget(s)
                except Exception as e:
                    bad.append(("forget-failed", "%s" % e))
            if c.memory_usage != 0 or len(c.cache) != 0 or len(c.lru_deque) != 0:
                bad.append(("cache-accounting-after-forget", "after forgetting every call memory_usage=%d resident=%d lru=%d" % (c.memory_usage, len(c.cache), len(c.lru_deque))))
        return bad


def preemptions(choices):
    n = 0
    for enabled, c, last in choices:
        if last is not None and c != last and last in enabled:
            n += 1
    return n


def explore(make, bound, max_runs, rng=None, random_runs=0):
    """systematic stateless exploration with a preemption bound, then random schedules"""
    import heapq
    results = []
    stack = [(0, 0, [])]          # (preemptions, length, prefix): fewest preemptions, earliest switch first
    seen_prefix = set()
    runs = 0
    while stack and runs < max_runs:
        _, _, prefix = heapq.heappop(stack)
        log = []

        def chooser(enabled, last, step):
            if step < len(prefix) and prefix[step] in enabled:
                c = prefix[step]
            elif last in enabled:
                c = last
            else:
                c = enabled[0]
            log.append((list(enabled), c, last))
            return c
        r = make()
        deadlock = r.go(chooser)
        runs += 1
        results.append((r.sched.trace, r.verdicts(deadlock), [c for _, c, _ in log]))
        for i in range(len(prefix), len(log)):
            enabled, c, last = log[i]
            for alt in enabled:
                if alt != c:
                    newp = [x[1] for x in log[:i]] + [alt]
                    key = tuple(newp)
                    trial = log[:i] + [(enabled, alt, last)]
                    if key not in seen_prefix and preemptions(trial) <= bound:
                        seen_prefix.add(key)
                        heapq.heappush(stack, (preemptions(trial), len(newp), newp))
    for _ in range(random_runs):
        def chooser(enabled, last, step):
            if last in enabled and rng.random() < 0.6:
                return last
            return rng.choice(enabled)
        r = make()
        deadlock = r.go(chooser)
        results.append((r.sched.trace, r.verdicts(deadlock), [i for i, _ in r.sched.trace]))
    return results, len(stack)


def run(tier, seed):
    rep = C.Report("C09", tier, seed)
    gate = C.proof_gate("C09")
    rng = random.Random(seed)
    with C.Scratch("c09") as scratch:
        from . import implenv
        m = implenv.setup(scratch)
        if tier == "quick":
            plan = [("cold-same", 2, 70, 0, False), ("warmstore-coldcache-same", 2, 50, 0, False), ("cold-diff-tightcache", 1, 30, 0, False),
                    ("warmcache-same", 1, 10, 0, False), ("warmstore-coldcache-same", 0, 0, 25, True), ("cold-diff-tightcache", 0, 0, 15, True),
                    ("cold-same", 2, 320, 0, "mutex"), ("cold-equal-results-3-nocache", 2, 250, 0, "links"),
                    ("cold-diff-3-memstore", 1, 400, 0, "memstore"), ("cold-diff-nested-auto", 1, 300, 0, "deps"),
                    ("warmstore-coldcache-same", 1, 260, 0, True), ("cold-same-configured-cluster", 1, 200, 0, "config"), ("cold-diff-partitions", 1, 250, 0, "pindex")]
            if not gate["ok"]:      # search mode: an obligation is broken, look harder for a failing schedule
                plan = [(n, b + 1, r * 4, rr * 4, lm) for (n, b, r, rr, lm) in plan]
        else:
            plan = [(n, 3, 400, 0, False) for n in SCENARIOS] + [(n, 0, 0, 150, True) for n in SCENARIOS] + [(n, 2, 150, 0, "mutex") for n in ("cold-same", "cold-same-3", "mixed-3")] + [("cold-equal-results-3-nocache", 3, 1500, 0, "links"), ("cold-diff-3-memstore", 2, 3000, 0, "memstore"), ("cold-diff-nested-auto", 2, 3000, 0, "deps"), ("cold-same-configured-cluster", 2, 2500, 0, "config"), ("cold-diff-partitions", 2, 2500, 0, "pindex")]
        total, distinct = 0, set()
        cover = {}
        for name, bound, max_runs, random_runs, line_mode in plan:
            results, left = explore(lambda: Run(m, scratch, name, line_mode), bound, max_runs, rng, random_runs)
            cover["%s/%s" % (name, ({"mutex": "lock-table-lines", "links": "link-writer-lines", "memstore": "memory-backend-lines", "deps": "calls-in-memento.py", "config": "calls-in-configuration.py", "pindex": "partition-strategy-lines"}.get(line_mode, "line")) if line_mode else "call")] = {"schedules": len(results), "unexplored_prefixes_left": left,
                                                                       "preemption_bound": bound}
            for trace, verdicts, choices in results:
                total += 1
                distinct.add((name, line_mode, tuple(trace)))
                for sig, what in verdicts:
                    rep.violation("C09:%s:%s" % (sig, name), "scenario %s, %s granularity: %s" % (name, ({"mutex": "lock-table lines", "links": "link-writer lines", "memstore": "in-memory backend lines", "deps": "function calls inside memento.py", "config": "function calls inside configuration.py / storage.py / runner_local.py", "pindex": "lines of the partition strategy's store / encode"}.get(line_mode, "line")) if line_mode else "call", what),
                                  {"scenario": name, "granularity": "line" if line_mode else "call", "choices": choices,
                                   "schedule(thread, point)": trace[:200]})
                if len(rep.samples) < 3 and len(trace) > 8:
                    rep.samples.append({"scenario": name, "schedule(thread, point)": trace[:40]})
        rep.coverage.update({
            "evaluations": total, "distinct_nontrivial": len(distinct),
            "rule": "real threads under a deterministic scheduler; scheduling points = every method call on the backend's memory cache / metadata source / data source and the start "
                    "of each function body (call granularity), or additionally every source line inside MemoryCache methods (line granularity, random schedules); systematic "
                    "stateless exploration with a preemption bound per scenario, scenarios %s; distinct = distinct (thread, point) traces" % (sorted(SCENARIOS),),
            "per_scenario": cover,
        })
        rep.assumptions = ["a granted thread that does not reach its next scheduling point within 30 ms is blocked on a lock (bodies never sleep or block)",
                           "CPython's own switch points are not explored: the scheduler decides every interleaving at the listed points",
                           "nested memento calls and lock ordering along the call tree are argued, not proved (flat calls only in the progress theorem)"]
    return rep.finish(gate)
