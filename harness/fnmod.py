"""Memento functions used by the function-level harnesses. Each node function executes a
*spec* (a JSON-like dict passed as its argument): it traces its execution through a C-level
callable (invisible to memento's dependency scan), performs the calls the spec lists (plain,
batch, with modifiers), obtains resources, and returns or raises what the spec says.
All functions have explicit versions, so code hashing plays no role here."""
import builtins
import datetime

from twosigma.memento import memento_function, file_resource
from twosigma.memento.exception import NonMemoizedException
from twosigma.memento.result import KeyOverrideResult

CL = "fc"


def _trace(ev):
    t = getattr(builtins, "_vt", None)
    if t is not None:
        t(ev)


class LocalOnlyError(Exception):
    """an exception class that cannot be rebuilt from one string"""

    def __init__(self, a, b):
        super().__init__("%s|%s" % (a, b))


class DecoratedError(Exception):
    """an exception class whose text is composed in __str__ (and that cannot be rebuilt from one string)"""

    def __init__(self, key, table):
        super().__init__(key)
        self.table = table

    def __str__(self):
        return "no row %s in %s" % (self.args[0], self.table)


class Outer:
    class NestedError(Exception):
        """an exception class with a dotted qualified name"""


def make_value(desc, child_sum=0):
    """value descriptor -> python value (the documented result domain)"""
    import numpy as np
    import pandas as pd
    k = desc["k"]
    v = desc.get("v")
    if k == "none":
        return None
    if k == "bool":
        return bool(v)
    if k == "int":
        return int(v)
    if k == "sum":
        return int(v) + child_sum
    if k == "float":
        return float.fromhex(v)
    if k == "str":
        return v
    if k == "bytes":
        return bytes.fromhex(v)
    if k == "date":
        return datetime.date.fromisoformat(v)
    if k == "ts":
        return datetime.datetime.fromisoformat(v)
    if k == "tsz":
        import zoneinfo
        return datetime.datetime.fromisoformat(v).replace(tzinfo=zoneinfo.ZoneInfo(desc["zone"]))      # a NAMED time zone
    if k == "pdtsz":
        return pd.Timestamp(v, tz=desc["zone"])
    if k == "list":
        return [make_value(x) for x in v]
    if k == "dict":
        return {kk: make_value(x) for kk, x in v}
    if k == "unstorable":
        return {1, 2}            # a set: computed fine, but not a type memento can store
    if k == "pdts":
        return pd.Timestamp(v)
    if k == "npscalar":
        return np.dtype(desc["dtype"]).type(v)
    if k == "nd":
        return np.array(v, dtype=desc["dtype"]).reshape(desc.get("shape", (len(v),)))
    if k == "index":
        return pd.Index(v)
    if k == "series":
        return pd.Series(v, index=desc.get("index"), dtype=desc.get("dtype"))
    if k == "df":
        return pd.DataFrame({c: col for c, col in v}, index=desc.get("index"))
    if k == "part":
        from twosigma.memento.partition import InMemoryPartition
        p = InMemoryPartition({kk: make_value(x) for kk, x in v})
        return p
    if k == "odpart":
        from twosigma.memento.storage_filesystem import OnDiskPartition
        p = OnDiskPartition()
        for kk, x in v:
            p[kk] = make_value(x)
        return p
    raise ValueError(k)


def _apply_mods(fn, call):
    if call.get("ctx") is not None:
        fn = fn.with_context_args(call["ctx"])
    if call.get("prevent"):
        fn = fn.with_prevent_further_calls(True)
    if call.get("ignore"):
        fn = fn.ignore_result()
    if call.get("local"):
        fn = fn.force_local()
    if call.get("partial") is not None:
        fn = fn.partial(**call["partial"])
    return fn


def _run(name, spec, extra=None):
    _trace(("exec", name, spec.get("id"), extra))
    total = 0
    for call in spec.get("calls", []):
        if "resource" in call:
            file_resource(call["resource"])
            continue
        fn = _apply_mods(FUNCS[call["fn"]], call)
        try:
            if "batch" in call:
                res = fn.call_batch([{"spec": s} for s in call["batch"]],
                                    raise_first_exception=call.get("raise_first", False))
                for r in res:
                    if isinstance(r, int) and not isinstance(r, bool):
                        total += r
            elif "resource" in call:
                file_resource(call["resource"])
            else:
                r = fn(call["spec"])
                if isinstance(r, int) and not isinstance(r, bool):
                    total += r
        except Exception as e:
            if not call.get("catch"):
                raise
            _trace(("caught", name, spec.get("id"), type(e).__name__))
    if "raise" in spec:
        cls = spec["raise"]["cls"]
        msg = spec["raise"].get("msg", "boom")
        if cls == "NonMemoized":
            raise NonMemoizedException(msg)
        if cls == "LocalOnly":
            raise LocalOnlyError(msg, "x")
        if cls == "FnLocal":
            class FnLocalError(Exception):      # a class that cannot be located again by name
                pass
            raise FnLocalError(msg)
        if cls == "Nested":
            raise Outer.NestedError(msg)
        if cls == "Decorated":
            raise DecoratedError(msg, "users")
        raise {"ValueError": ValueError, "KeyError": KeyError, "IOError": IOError,
               "ZeroDivisionError": ZeroDivisionError}[cls](msg)
    val = make_value(spec.get("ret", {"k": "sum", "v": spec.get("id", 0)}), total)
    if spec.get("override"):
        return KeyOverrideResult(val, spec["override"])
    return val


@memento_function(cluster=CL, version="1")
def n0(spec):
    return _run("n0", spec)


@memento_function(cluster=CL, version="1")
def n1(spec):
    return _run("n1", spec)


@memento_function(cluster=CL, version="1")
def n2(spec):
    return _run("n2", spec)


@memento_function(cluster=CL, version="1")
def n3(spec):
    return _run("n3", spec)


@memento_function(cluster=CL, version="2")
def n4(spec, k=0):
    return _run("n4", spec, k)


@memento_function(cluster=CL, version="1")
def nrelay(spec):
    """hands on, unchanged, whatever n0 returns for spec["inner"] (on a hit: the stored result as read from the store)"""
    _trace(("exec", "nrelay", spec.get("id"), None))
    return n0(spec["inner"])


FUNCS = {"n0": n0, "n1": n1, "n2": n2, "n3": n3, "n4": n4}


# ---- partitions with merge parents (C17) -------------------------------------------------
def _part_value(v):
    """value descriptor for a partition member: small ints / strings / arrays"""
    return make_value(v)


def pnode_fn(spec):
    """the function that computes a link: links may live in two clusters (with different stores)"""
    return pnode2 if spec.get("cl") else pnode


def _pnode_body(spec):
    """spec: {"id", "own": [[key, value-descriptor]...], "parent": spec or None, "ondisk": bool, "cl": 0 / 1}"""
    from twosigma.memento.partition import InMemoryPartition
    from twosigma.memento.storage_filesystem import OnDiskPartition
    _trace(("exec", "pnode", spec.get("id"), None))
    parent = pnode_fn(spec["parent"])(spec["parent"]) if spec.get("parent") else None
    if spec.get("own_from"):
        # the own partition is one that another call returned (read back from the store when that call is memoized)
        p = pnode_fn(spec["own_from"])(spec["own_from"])
    elif spec.get("ondisk"):
        p = OnDiskPartition()
        if spec.get("reassign") and spec["own"]:
            # built incrementally: every key starts with the same initial value, then all but the first get their own
            for k, _ in spec["own"]:
                p[k] = _part_value(spec["own"][0][1])
            for k, v in spec["own"][1:]:
                p[k] = _part_value(v)
        else:
            for k, v in spec["own"]:
                p[k] = _part_value(v)
    elif spec.get("dd"):
        # the idiom of the partition module's docstring: a dictionary with a default factory
        import collections
        d = collections.defaultdict(list)
        for k, v in spec["own"]:
            d[k] = _part_value(v)
        p = InMemoryPartition(d)
    else:
        p = InMemoryPartition({k: _part_value(v) for k, v in spec["own"]})
    if parent is not None:
        p._merge_parent = parent
    return p


@memento_function(cluster=CL, version="1")
def pnode(spec):
    return _pnode_body(spec)


@memento_function(cluster="fc2", version="1")
def pnode2(spec):
    return _pnode_body(spec)


FUNCS["pnode"] = pnode
FUNCS["pnode2"] = pnode2


@memento_function(cluster=CL, version="1")
def prelay(spec):
    """returns, unchanged, the partition another memento function returned (spec: {"id", "inner": pnode spec, "depth"})"""
    _trace(("exec", "prelay", spec.get("id"), None))
    if spec.get("depth", 0) > 0:
        return prelay(dict(spec, depth=spec["depth"] - 1, id=spec["id"] * 10))
    return pnode_fn(spec["inner"])(spec["inner"])


FUNCS["prelay"] = prelay


# ---- calls with date / time arguments (C10: recorded argument hashes) ------------------------
@memento_function(cluster=CL, version="1")
def dchild(when, tag=0):
    _trace(("exec", "dchild", tag, None))
    return None if when is None else when.isoformat()


@memento_function(cluster=CL, version="1")
def dparent(whens, batch=False):
    _trace(("exec", "dparent", len(whens), None))
    if batch:
        return dchild.call_batch([{"when": w, "tag": i} for i, w in enumerate(whens)])
    return [dchild(w, tag=i) for i, w in enumerate(whens)]


FUNCS["dchild"] = dchild
FUNCS["dparent"] = dparent
