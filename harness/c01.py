"""C01 — memoized results are never stale with respect to code and data changes.
Theorems: Version/StaleProofs.v (same digest input => same un-memoized result; store across any
history of editions never returns a stale result; refutation when defaults are not hashed).
Correspondence: generated programs x edit histories, each edition delivered (a) to a fresh
interpreter against the same persistent store and (b) inside one running interpreter (reload /
re-executed definitions / rebinding of module attributes); every call's result is compared with
the plain, undecorated execution of the current edition (or must be the undeclared-dependency
error); the implementation's "version changed?" verdict for every pair of editions is compared
with the model's (equal keyed digest input)."""
import copy
import os
import random
from concurrent.futures import ThreadPoolExecutor

from . import common as C
from . import vprog

HEADER = """From Coq Require Import List Arith Bool.
From Memento Require Import Version.Rules Version.Stale.
Import ListNotations.
"""


class Interner:
    def __init__(self):
        self.d = {}

    def __call__(self, v):
        k = repr(v)
        if k not in self.d:
            self.d[k] = len(self.d) + 1
        return self.d[k]


def body_key(spec, n):
    return (bool(n.get("lam")), n["kind"], n["name"], n["const"], n["setconst"], n["tupconst"], n["nested"], n.get("sset"), n.get("pair"), n.get("gstr"), n.get("shadow"), bool(n.get("objdefault")), n["default"] is not None,
            n["kwdefault"] is not None, tuple(sorted(map(tuple, n["refs"]))), n["hidden"])


def coq_table(spec, intern):
    ids = {n["name"]: i for i, n in enumerate(spec["nodes"])}
    rows = []
    for n in spec["nodes"]:
        i = ids[n["name"]]
        code, dflt, refs = 0, 0, []
        if n["kind"] in "mp":
            code = intern(("code", body_key(spec, n)))
            dflt = intern(("dflt", n["default"], n["kwdefault"]))
            refs = [ids[r[0]] for r in n["refs"]]
        if n["kind"] == "m":
            k = "SMemento None" if n["explicit"] is None else "SMemento (Some %d)" % intern(("ver", n["explicit"]))
        elif n["kind"] == "p":
            k = "SPlain true"
        elif n["kind"] == "v":
            k = "SVar None" if n["vkind"] in ("unsupported", "mixedset") else "SVar (Some %d)" % intern(("val", n["value"]))
        else:
            k = "SUndef"
        rows.append("(%d, {| s_kind := %s; s_code := %d; s_defaults := %d; s_refs := %s |})" % (i, k, code, dflt, C.coq_list(map(str, refs))))
    return C.coq_list(rows), ids


def closure_fp(spec, name, seen=None):
    """everything the behaviour of [name] depends on (what the user of an explicit version must watch)"""
    seen = set() if seen is None else seen
    if name in seen:
        return ()
    seen.add(name)
    n = vprog.node(spec, name)
    if n["kind"] == "v":
        return ("v", name, repr(n["value"]))
    if n["kind"] == "u":
        return ("u", name)
    parts = [body_key(spec, n), n["default"], n["kwdefault"], n["explicit"] if n["kind"] == "m" else None]
    for r, _ in sorted(map(tuple, n["refs"])):
        parts.append(closure_fp(spec, r, seen))
    if n["hidden"]:
        parts.append(closure_fp(spec, n["hidden"], seen))
    return tuple(parts)


def honour_pins(old, new):
    """the author of an explicitly versioned function bumps it when anything beneath changes"""
    for n in new["nodes"]:
        if n["kind"] == "m" and n["explicit"] is not None:
            o = vprog.node(old, n["name"])
            if o["explicit"] == n["explicit"]:
                fo = closure_fp(dict(old, nodes=[dict(x, explicit=None) if x["name"] == n["name"] else x for x in old["nodes"]]), n["name"])
                fn = closure_fp(dict(new, nodes=[dict(x, explicit=None) if x["name"] == n["name"] else x for x in new["nodes"]]), n["name"])
                if fo != fn:
                    n["explicit"] = n["explicit"] + "x"
    return new


def make_history(rng, n_edits, concat_scenario=False):
    spec = vprog.gen_spec(rng, n_m=rng.randint(2, 4), n_p=rng.randint(1, 3), n_v=rng.randint(1, 3), p_hidden=0.12, p_explicit=0.2, allow_cycles=False,
                          pkg2=rng.random() < 0.4, lambdas=rng.random() < 0.4, twins=True, hdr=True)
    eds, descs = [spec], ["initial"]
    for _ in range(n_edits):
        nxt, d = vprog.edit(rng, eds[-1])
        # two or three edits at once now and then
        while rng.random() < 0.25:
            nxt, d2 = vprog.edit(rng, nxt)
            d += " + " + d2
        nxt = honour_pins(eds[-1], nxt)
        eds.append(nxt)
        descs.append(d)
    # sometimes return to an earlier edition (its stored results may be reused, and must be the right ones)
    if rng.random() < 0.3 and len(eds) > 2:
        eds.append(copy.deepcopy(eds[rng.randrange(len(eds) - 1)]))
        descs.append("revert to an earlier edition")
    return eds, descs


def concat_history():
    """two explicitly versioned dependencies whose version strings are re-cut ('1','23' -> '12','3') together with their bodies"""
    def mk(va, vb, ca, cb):
        def fn(name, kind, const, explicit=None, refs=()):
            return {"name": name, "kind": kind, "module": "a", "const": const, "default": None, "kwdefault": None, "setconst": None, "tupconst": None,
                    "sset": None, "pair": None, "nested": None, "explicit": explicit, "hidden": None, "refs": [[r, "bare"] for r in refs]}
        return {"pkg": "vpk", "nodes": [fn("m0", "m", ca, va), fn("m1", "m", cb, vb), fn("m2", "m", 5, None, ("m0", "m1"))]}
    return [mk("1", "23", 10, 20), mk("12", "3", 11, 22)], ["initial", "explicit versions '1','23' -> '12','3' with new bodies"]


def cross_package_history():
    """a memento function of one package uses a memento function of another package, which uses a plain helper and a
    variable of its own package; the helper's body, its default and the variable are edited"""
    def fn(name, kind, module, const, refs=(), default=None):
        return {"name": name, "kind": kind, "module": module, "const": const, "default": default, "kwdefault": None, "setconst": None, "tupconst": None,
                "sset": None, "pair": None, "nested": None, "explicit": None, "hidden": None, "refs": [list(r) for r in refs]}

    def mk(hconst, hdefault, gval):
        return {"pkg": "vpk", "nodes": [{"name": "G0", "kind": "v", "module": "c", "vkind": "int", "value": gval},
                                        fn("h0", "p", "c", hconst, [("G0", "bare")], hdefault),
                                        fn("m1", "m", "c", 20, [("h0", "bare")]),
                                        fn("h1", "p", "a", 3, [("m1", "attr")]),
                                        fn("m0", "m", "a", 30, [("m1", "attr")]),
                                        fn("m2", "m", "b", 40, [("h1", "attr")])]}
    return ([mk(5, 1, 2), mk(6, 1, 2), mk(6, 2, 2), mk(6, 2, 3)],
            ["initial", "helper-const: body constant of h0 (helper of another package's memento function)", "default value of h0", "value of variable G0"])


def shadow_history():
    """functions that read a module variable and also contain a nested scope with a parameter of the same name"""
    def fn(name, kind, module, const, refs=(), shadow=None):
        return {"name": name, "kind": kind, "module": module, "const": const, "default": None, "kwdefault": None, "setconst": None, "tupconst": None,
                "sset": None, "pair": None, "nested": 2, "explicit": None, "hidden": None, "shadow": shadow, "refs": [list(r) for r in refs]}

    def mk(g0, g1, pair=(101, 102), hpair=(111, 112)):
        spec = {"pkg": "vpk", "nodes": [{"name": "G0", "kind": "v", "module": "a", "vkind": "int", "value": g0},
                                        {"name": "G1", "kind": "v", "module": "a", "vkind": "int", "value": g1},
                                        fn("h0", "p", "a", 4, [("G1", "bare")], shadow="G1"),
                                        fn("m0", "m", "a", 10, [("G0", "bare")], shadow="G0"),
                                        fn("m1", "m", "a", 20, [("h0", "bare")])]}
        vprog.node(spec, "m1")["pair"] = list(pair)
        vprog.node(spec, "h0")["pair"] = list(hpair)
        return spec
    return ([mk(1, 2), mk(5, 2), mk(5, 7), mk(5, 7, pair=(102, 101)), mk(5, 7, pair=(102, 101), hpair=(112, 111))],
            ["initial", "value of variable G0 (also the name of a lambda parameter in m0)", "value of variable G1 (also the name of a lambda parameter in h0)",
             "swapped constants of m1", "swapped constants of h0"])


def builtin_shadow_history():
    """a function and a helper call a builtin by its bare name; then the module defines a plain function of that name"""
    def fn(name, kind, module, const, refs=()):
        return {"name": name, "kind": kind, "module": module, "const": const, "default": None, "kwdefault": None, "setconst": None, "tupconst": None,
                "sset": None, "pair": None, "nested": None, "explicit": None, "hidden": None, "shadow": None, "refs": [list(r) for r in refs]}

    def mk(defined):
        rnd = fn("round", "p", "a", 7) if defined else {"name": "round", "kind": "u", "module": "a"}
        return {"pkg": "vpk", "nodes": [rnd, fn("h0", "p", "a", 4, [("round", "live")]), fn("m0", "m", "a", 10, [("round", "live")]), fn("m1", "m", "a", 20, [("h0", "bare")]),
                                        fn("m2", "m", "b", 30, [])]}
    return [mk(False), mk(True)], ["initial", "define a plain function named round (a builtin until then), on its own"]


def genexpr_twin_history():
    """string literals that are the first constant of a generator expression's code object (in a memento function and in
    a plain helper), and two modules that each own a variable called SCALE, each read by a function of its own module"""
    def fn(name, kind, module, const, refs=(), gstr=None):
        return {"name": name, "kind": kind, "module": module, "const": const, "default": None, "kwdefault": None, "setconst": None, "tupconst": None,
                "sset": None, "pair": None, "nested": None, "explicit": None, "hidden": None, "shadow": None, "gstr": gstr, "refs": [list(r) for r in refs]}

    def mk(ga, gb, t0, t1):
        return {"pkg": "vpk", "nodes": [{"name": "T0", "kind": "v", "module": "a", "vkind": "int", "value": t0, "sym": "SCALE"},
                                        {"name": "T1", "kind": "v", "module": "b", "vkind": "int", "value": t1, "sym": "SCALE"},
                                        fn("h0", "p", "b", 4, [("T1", "bare")], gstr=gb),
                                        fn("m0", "m", "a", 10, [("T0", "bare"), ("h0", "attr")], gstr=ga),
                                        fn("m1", "m", "b", 20, [("T1", "bare")]),
                                        fn("m2", "m", "a", 30, [("m1", "attr"), ("T0", "bare")])]}
    return ([mk("id:", "k", 2, 12), mk("id::", "k", 2, 12), mk("id::", "key", 2, 12), mk("id::", "key", 3, 12), mk("id::", "key", 3, 14), mk("id::", "key", 14, 3)],
            ["initial", "string literal inside a generator expression of m0", "string literal inside a generator expression of h0",
             "value of variable T0 (a.SCALE)", "value of variable T1 (b.SCALE)", "values of a.SCALE and b.SCALE exchanged"])


def hidden_memoized_history():
    """a hidden dynamic call (not declared) of a function whose result is ALREADY memoized when the caller runs: the caller
    must still be refused (or be correct): it must not be stored under a version that ignores the callee, whose later
    edit would then go unnoticed"""
    def fn(name, kind, module, const, refs=(), hidden=None):
        return {"name": name, "kind": kind, "module": module, "const": const, "default": None, "kwdefault": None, "setconst": None, "tupconst": None,
                "sset": None, "pair": None, "nested": None, "explicit": None, "hidden": hidden, "shadow": None, "refs": [list(r) for r in refs]}

    def mk(c0, c2):
        return {"pkg": "vpk", "nodes": [fn("m0", "m", "a", c0), fn("m1", "m", "a", 20, hidden="m0"), fn("m2", "m", "b", c2), fn("m3", "m", "a", 40, hidden="m2")]}
    return [mk(3, 7), mk(4, 7), mk(4, 9)], ["initial", "const: body constant of m0 (called by m1 through a hidden dynamic call, memoized before m1 ran)",
                                             "const: body constant of m2 (called by m3 through a hidden dynamic call in another module)"]


def tuple_and_keyed_variables_history():
    """module variables of the less common tracked shapes: a tuple (holding a list) and a dictionary with integer keys"""
    def fn(name, kind, module, const, refs=()):
        return {"name": name, "kind": kind, "module": module, "const": const, "default": None, "kwdefault": None, "setconst": None, "tupconst": None,
                "sset": None, "pair": None, "nested": None, "explicit": None, "hidden": None, "shadow": None, "refs": [list(r) for r in refs]}

    def mk(t, d):
        return {"pkg": "vpk", "nodes": [{"name": "G0", "kind": "v", "module": "a", "vkind": "tuplist", "value": [t, [1, 2]]},
                                        {"name": "G1", "kind": "v", "module": "b", "vkind": "idict", "value": {1: d, 2: 3}},
                                        fn("h0", "p", "b", 4, [("G1", "bare")]), fn("m0", "m", "a", 10, [("G0", "bare")]), fn("m1", "m", "b", 20, [("h0", "bare")]),
                                        fn("m2", "m", "a", 30, [("m0", "bare"), ("m1", "attr")])]}
    return [mk(3, 5), mk(4, 5), mk(4, 6)], ["initial", "value of variable G0 (a tuple)", "value of variable G1 (a dictionary with integer keys)"]


def mutated_containers_history():
    """module-level lists and dictionaries edited in place inside the running process (the name stays bound to the same object)"""
    def fn(name, kind, module, const, refs=()):
        return {"name": name, "kind": kind, "module": module, "const": const, "default": None, "kwdefault": None, "setconst": None, "tupconst": None,
                "sset": None, "pair": None, "nested": None, "explicit": None, "hidden": None, "shadow": None, "refs": [list(r) for r in refs]}

    def mk(l, d):
        return {"pkg": "vpk", "nodes": [{"name": "G0", "kind": "v", "module": "a", "vkind": "list", "value": l},
                                        {"name": "G1", "kind": "v", "module": "b", "vkind": "dict", "value": {"k": d}},
                                        fn("h0", "p", "b", 4, [("G1", "bare")]), fn("m0", "m", "a", 10, [("G0", "bare")]), fn("m1", "m", "b", 20, [("h0", "bare")]),
                                        fn("m2", "m", "a", 30, [("m0", "bare"), ("m1", "attr")])]}
    return [mk([1, 2], 5), mk([1, 2, 4], 5), mk([1, 2, 4], 6), mk([9, 2, 4], 6)], ["initial", "value of variable G0 (list, edited in place)", "value of variable G1 (dictionary read by a helper, edited in place)",
                                                                                    "value of variable G0 (an element replaced in place)"]


def header_default_history():
    """a plain helper named only in the header of its user (default value of a parameter), in a plain helper and in a
    memento function; the helper's body is edited"""
    def fn(name, kind, module, const, refs=()):
        return {"name": name, "kind": kind, "module": module, "const": const, "default": None, "kwdefault": None, "setconst": None, "tupconst": None,
                "sset": None, "pair": None, "nested": None, "explicit": None, "hidden": None, "shadow": None, "refs": [list(r) for r in refs]}

    def mk(c0, c2):
        return {"pkg": "vpk", "nodes": [fn("h0", "p", "a", c0), fn("h1", "p", "a", 5, [("h0", "hdr")]), fn("m0", "m", "a", 10, [("h1", "bare")]),
                                        fn("h2", "p", "b", c2), fn("m1", "m", "b", 20, [("h2", "hdr")]), fn("m2", "m", "b", 30, [("m1", "bare")])]}
    return [mk(3, 7), mk(4, 7), mk(4, 9)], ["initial", "helper-const: body constant of h0 (named only in the header of h1)", "helper-const: body constant of h2 (named only in the header of m1)"]


DECL_PROGRAM = """
import builtins
from twosigma.memento import memento_function

OFFSET = 1

def _vt(ev):
    t = getattr(builtins, '_vt', None)
    if t is not None:
        t(ev)

@memento_function(cluster='fc')
def price_v1(x):
    return x + OFFSET

@memento_function(cluster='fc')
def price_v2(x):
    return x + 1000

price = price_v1

@memento_function(cluster='fc', dependencies=[price_v1])
def total_dynamic(x):
    # a hidden dynamic call, declared as the undeclared-dependency error asks
    return globals()['price_v1'](x) * 2

@memento_function(cluster='fc', dependencies=[price])
def total_direct(x):
    # an ordinary call through an alias, declared as well
    return price(x) * 3

@memento_function(cluster='fc')
def report(x):
    return [total_dynamic(x), total_direct(x)]
%s
"""

DECL_SCRIPT = """
import importlib, json, os, sys
root, store, rebind = sys.argv[1], sys.argv[2], sys.argv[3]
sys.path.insert(0, root)
os.environ['HOME'] = root
import logging; logging.disable(logging.CRITICAL)
import twosigma.memento as m
from twosigma.memento.storage_filesystem import FilesystemStorageBackend
m.Environment.set(m.Environment(name='x', base_dir=root, repos=[m.ConfigurationRepository(name='r', clusters={'fc': m.FunctionCluster(name='fc', storage=FilesystemStorageBackend(path=store))})]))
mod = importlib.import_module(sys.argv[4])
out = []
def obs(label):
    row = {'step': label}
    for name in ('total_dynamic', 'total_direct', 'report'):
        f = getattr(mod, name)
        try:
            row[name] = f(4)
        except Exception as e:
            row[name] = 'ERR ' + type(e).__name__
    out.append(row)
obs('initial')
if rebind == 'inproc':
    mod.price_v1 = mod.price_v2          # the implementation in use is switched inside the running process
    mod.price = mod.price_v2
    obs('after re-binding price_v1 and price to price_v2')
    mod.OFFSET = 5
    obs('after OFFSET = 5 (no longer used)')
print('@@' + json.dumps(out))
"""


def declared_dependency_scenario(scratch, rep, stats):
    """dependencies=[...] declared by hand (for a hidden dynamic call, and for an alias): the declared name is re-bound to
    another registered memento function inside the running process"""
    import json
    import subprocess
    root = os.path.join(scratch, "decl")
    os.makedirs(root, exist_ok=True)
    with open(os.path.join(root, "decl_a.py"), "w") as f:
        f.write(DECL_PROGRAM % "")
    with open(os.path.join(root, "drun.py"), "w") as f:
        f.write(DECL_SCRIPT)
    env = dict(os.environ, PYTHONPATH=C.REPO, PYTHONHASHSEED="0")
    want = {"initial": {"total_dynamic": 10, "total_direct": 15, "report": [10, 15]},
            "rebound": {"total_dynamic": 2008, "total_direct": 3012, "report": [2008, 3012]}}

    def run(rebind, mod, store):
        pr = subprocess.run([C.PY, os.path.join(root, "drun.py"), root, os.path.join(root, store), rebind, mod], capture_output=True, text=True, timeout=180, env=env)
        line = [l for l in pr.stdout.splitlines() if l.startswith("@@")]
        return json.loads(line[0][2:]) if line else [{"step": "script failed", "error": (pr.stderr or pr.stdout)[-400:]}]
    rows = run("inproc", "decl_a", "store-a")
    stats["declared_dependency_steps"] = len(rows)
    meta = {"program": "decl_a.py: total_dynamic (hidden call of price_v1, declared), total_direct (call through alias price, declared), report", "observed": rows}
    for row in rows:
        if "error" in row:
            rep.violation("C01:declared-dependency-scenario-raised", row["error"][:300], meta)
            return
        exp = want["initial"] if row["step"] == "initial" else want["rebound"]
        for name, v in exp.items():
            got = row.get(name)
            if got != v and not (isinstance(got, str) and got.startswith("ERR UndeclaredDependencyError")):
                rep.violation("C01:stale-result:in-process:declared-dependency-rebound", "%s(4) returned %r at step '%s'; the current program computes %r" % (name, got, row["step"], v), meta)
                return


def calls_of(spec):
    return [[m, x] for m in vprog.mnames(spec) if vprog.node(spec, m)["explicit"] is None for x in (1, 2)]


def run(tier, seed):
    rep = C.Report("C01", tier, seed)
    gate = C.proof_gate("C01")
    rng = random.Random(seed)
    n_hist = 8 if tier == "quick" else 60
    if not gate["ok"]:
        n_hist *= 2
    stats = {"histories": 0, "editions": 0, "edits": {}, "cross_process_calls": 0, "in_process_calls": 0, "reused_results": 0, "recomputed_after_edit": 0,
             "undeclared_errors": 0, "version_pairs": 0, "delivery": {"fresh-process": 0, "reload": 0, "exec": 0, "setattr": 0}}
    terms, metas = [], []
    with C.Scratch("c01") as scratch:
        jobs = []
        for hi in range(n_hist + 9):
            if hi == n_hist:
                eds, descs = concat_history()
            elif hi == n_hist + 1:
                eds, descs = cross_package_history()
            elif hi == n_hist + 2:
                eds, descs = shadow_history()
            elif hi == n_hist + 3:
                eds, descs = builtin_shadow_history()
            elif hi == n_hist + 4:
                eds, descs = genexpr_twin_history()
            elif hi == n_hist + 5:
                eds, descs = header_default_history()
            elif hi == n_hist + 6:
                eds, descs = hidden_memoized_history()
            elif hi == n_hist + 7:
                eds, descs = tuple_and_keyed_variables_history()
            elif hi == n_hist + 8:
                eds, descs = mutated_containers_history()
            else:
                eds, descs = make_history(rng, rng.randint(2, 4) if tier == "quick" else rng.randint(2, 6))
            how_ = rng.choice(["reload", "exec"])
            if any(r_[1] == "hdr" for e_ in eds for n_ in e_["nodes"] for r_ in (n_.get("refs") or [])):
                # a default value is bound when its function is defined: re-executing one definition on its own would leave the
                # users of an edited helper bound to the old object (which is what Python does, not a stale result) -> whole modules
                how_ = "reload"
            jobs.append((hi, eds, descs, how_, str(rng.randint(0, 100000))))

        def work(job):
            hi, eds, descs, how, hs = job
            base = os.path.join(scratch, "h%d" % hi)
            out = {"expected": [], "cross": [], "inproc": None, "errors": []}
            calls = calls_of(eds[0])
            ms = vprog.mnames(eds[0])
            store = os.path.join(base, "store")
            try:
                for k, spec in enumerate(eds):
                    pr = os.path.join(base, "plain%d" % k)
                    os.makedirs(pr)
                    vprog.render(spec, pr, plain=True)
                    out["expected"].append(vprog.run_plain(pr, spec, calls))
                    mr = os.path.join(base, "ed%d" % k)
                    os.makedirs(mr)
                    vprog.render(spec, mr)
                    out["cross"].append(vprog.run_edition(mr, spec, store, calls=calls, version_order=ms, hashseed=hs))
                # the same history inside one interpreter
                editions = []
                prev = None
                for k, spec in enumerate(eds):
                    files = {mod: vprog.render_module(spec, mod) for mod in vprog.modules_of(spec)}
                    ed = {"calls": calls, "version_order": ms, "how": how, "files": files, "setattrs": []}
                    if prev is not None:
                        # a pure variable edit is delivered by rebinding the module attribute
                        changed_vars = [n for n in spec["nodes"] if n["kind"] == "v" and n["vkind"] not in ("unsupported", "mixedset", "tuplist", "idict") and vprog.node(prev, n["name"])["value"] != n["value"]]
                        others = [n for n in spec["nodes"] if n["kind"] != "v" and n != vprog.node(prev, n["name"])]
                        newly_defined = [n for n in others if n["kind"] == "p" and vprog.node(prev, n["name"])["kind"] == "u"]
                        if changed_vars and not others:
                            ed["files"] = {}
                            # lists and dictionaries are edited in place (same object), the other kinds by re-binding the name
                            ed["setattrs"] = [[n["module"], vprog.sym(n), n["value"]] + (["mutate"] if n["vkind"] in ("list", "dict") else []) for n in changed_vars]
                        elif others and len(newly_defined) == len(others) and not changed_vars:
                            # only new definitions of names that were undefined: executed on their own, nothing else re-run
                            ed["files"] = {}
                            ed["snippets"] = [[n["module"], "\n".join(vprog.import_lines(spec, n["module"]) + vprog.def_lines(spec, n)[0]) + "\n"] for n in newly_defined]
                        else:
                            ed["files"] = {mod: src for mod, src in files.items() if src != vprog.render_module(prev, mod)}
                    editions.append(ed)
                    prev = spec
                ir = os.path.join(base, "inproc")
                os.makedirs(ir)
                out["inproc"] = vprog.run_inproc(ir, eds[0]["pkg"], editions, store=os.path.join(base, "store2"), hashseed=hs)
                out["editions"] = [{"files": sorted(e["files"]), "setattrs": e["setattrs"]} for e in editions]
            except Exception as e:
                out["errors"].append(str(e)[-500:])
            return out

        with ThreadPoolExecutor(max_workers=12) as ex:
            results = list(ex.map(work, jobs))

        for (hi, eds, descs, how, hs), out in zip(jobs, results):
            meta0 = {"editions": eds, "edits": descs, "in_process_delivery": how, "hashseed": hs}
            stats["histories"] += 1
            stats["editions"] += len(eds)
            for d in descs[1:]:
                for part in d.split(" + "):
                    key = part.split(" of ")[0].split(":")[0][:40]
                    stats["edits"][key] = stats["edits"].get(key, 0) + 1
            if out["errors"]:
                rep.violation("C01:run-failed", "running the history failed: %s" % out["errors"][0][-300:], meta0)
                continue
            for mode, runs in (("fresh-process", out["cross"]), (how, out["inproc"])):
                for k, (res, exp) in enumerate(zip(runs, out["expected"])):
                    if mode != "fresh-process" and k > 0:
                        dl = "setattr" if out["editions"][k]["setattrs"] else how
                        stats["delivery"][dl] += 1
                    elif mode == "fresh-process":
                        stats["delivery"]["fresh-process"] += 1
                    for c, e in zip(res["calls"], exp):
                        stats["cross_process_calls" if mode == "fresh-process" else "in_process_calls"] += 1
                        got = c["result"]
                        if got == ["exc", "UndeclaredDependencyError"]:
                            stats["undeclared_errors"] += 1
                            continue
                        if not c["execs"]:
                            stats["reused_results"] += 1
                        elif k > 0:
                            stats["recomputed_after_edit"] += 1
                        if got != e:
                            earlier = [j for j in range(k) if out["expected"][j][res["calls"].index(c)] == got]
                            kind = "stale" if earlier and not c["execs"] else "wrong"
                            feature = descs[k].split(" of ")[0].split(":")[0] if k < len(descs) else "?"
                            sig = "C01:%s-result:%s:%s" % (kind, "cross-process" if mode == "fresh-process" else "in-process", feature.replace(" ", "-")[:40])
                            rep.violation(sig, "edition %d (%s), delivered by %s: %s(%s) returned %s, un-memoized execution of the current program gives %s%s" % (
                                k, descs[k], mode, c["fn"], c["x"], got, e, (" (the value of edition %d)" % earlier[-1]) if earlier else ""),
                                dict(meta0, edition=k, call=[c["fn"], c["x"]], mode=mode))
            # the implementation's "version changed?" verdict against the model, for every pair of editions
            intern = Interner()
            tabs = [coq_table(s, intern) for s in eds]
            for mode, runs in (("fresh-process", out["cross"]), ("in-process", out["inproc"])):
                for a in range(len(eds)):
                    for b in range(a + 1, len(eds)):
                        for m in vprog.mnames(eds[0]):
                            if vprog.node(eds[a], m)["explicit"] is not None or vprog.node(eds[b], m)["explicit"] is not None:
                                continue
                            va, vb = runs[a]["versions"].get(m), runs[b]["versions"].get(m)
                            if str(va).startswith("ERR") or str(vb).startswith("ERR"):
                                rep.violation("C01:version-raised", "version() raised: %s / %s" % (va, vb), dict(meta0, function=m, mode=mode))
                                continue
                            stats["version_pairs"] += 1
                            terms.append("(%s, %s, %d, true, %s)" % (tabs[a][0], tabs[b][0], tabs[a][1][m], C.coq_bool(va == vb)))
                            metas.append(dict(meta0, pair=[a, b], function=m, mode=mode, versions=[va, vb]))
            if len(rep.samples) < 2:
                rep.samples.append({"edits": descs, "first_edition": eds[0]})
        declared_dependency_scenario(scratch, rep, stats)
    try:
        res = C.run_coq_cases("c01", HEADER, terms, "vers_case", shard=150, case_type="list (nat * sym) * list (nat * sym) * nat * bool * bool")
    except RuntimeError as e:
        rep.broken.append("correspondence C01 (model could not be evaluated): %s" % str(e)[:300])
        res = []
    for meta, r in zip(metas, res):
        if r == 2:
            rep.violation("C01:version-unchanged-after-relevant-edit:%s" % meta["mode"], "editions %s of %s differ in something the function depends on (model: different digest input) but the implementation reports the same version %s" % (
                meta["pair"], meta["function"], meta["versions"][0]), meta)
        elif r == 1:
            rep.violation("C01:version-changed-without-relevant-edit:%s" % meta["mode"], "editions %s do not differ in anything %s depends on, but versions differ: %s" % (meta["pair"], meta["function"], meta["versions"]), meta)
        elif r == 0:
            rep.violation("C01:model-not-closed", "saturation did not close", meta)
    rep.coverage.update({
        "evaluations": stats["cross_process_calls"] + stats["in_process_calls"] + len(terms), "distinct_nontrivial": len(set(terms)), "exhaustive": False,
        "rule": "generated programs (call DAGs over memento / plain functions in two modules, variables of supported and unsupported types, undefined names, defaults, keyword-only defaults, "
                "int-set / string-set / tuple constants, nested code, aliases, module attributes, hidden dynamic calls, explicitly versioned functions) x edit histories of 2-6 steps "
                "(1-3 edits per step, occasional revert) x delivery {fresh interpreter + same persistent store, in-process reload / re-executed definitions / setattr}; every call compared with "
                "plain undecorated execution of the current edition; every pair of editions compared with the model's version verdict; plus the explicit-version re-cut scenario",
        "stats": stats, "traces_validated_against_impl": len(terms),
    })
    rep.assumptions = ["authors of explicitly versioned functions bump the version whenever anything beneath changes (the generator does)",
                       "sha256 truncated to 64 bits is treated as injective", "edit histories are sampled"]
    return rep.finish(gate)
