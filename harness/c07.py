"""C07 — result blobs are content-addressed, deduplicated and immutable once referenced.
Theorems: Storage/VStoreProofs.v (integrity, dedup, immutability, forget keeps data).
Correspondence: storage histories with shared override keys and repeated contents on the real
filesystem backend; after every operation the whole data store is scanned and compared with the
model's object table; the property's own observables are checked directly on the files."""
import hashlib
import os
import random
from urllib.parse import unquote

from . import common as C
from . import backend_driver as BD

OVERRIDES = ["ov/a", "ov/b", "ovc", "ov/a#x"]

HEADER = """From Coq Require Import List ZArith String Bool.
From Memento Require Import Storage.Cache Storage.Spec Storage.VStore.
Import ListNotations. Open Scope Z_scope. Open Scope string_scope.
Definition vcase (c : bool * list (Z * string) * list (vop * list ((string * Z) * Z))) :=
  vcheck (snd (fst c)) (vinit (fst (fst c))) 0 (snd c).
"""


def scan(data_root):
    """all version objects of the data store: list of (key, uuid, digest)"""
    out = []
    for dirpath, dirnames, filenames in os.walk(data_root):
        parts = dirpath[len(data_root):].strip(os.sep).split(os.sep)
        if len(parts) >= 2 and parts[-2] == ".versions":
            uuid = parts[-1]
            base = "/".join(parts[:-2])
            for fn in filenames:
                if ".meta." in fn:
                    continue
                key = unquote((base + "/" if base else "") + fn)
                with open(os.path.join(dirpath, fn), "rb") as f:
                    digest = hashlib.sha256(f.read()).hexdigest()
                out.append((key, uuid, digest))
    return out


def published_integrity(data_root):
    """every content key that is published (has a .link) must lead to bytes that hash to the key's name;
    returns [(key, problem)]"""
    bad = []
    for dirpath, dirnames, filenames in os.walk(data_root):
        for fn in filenames:
            if not fn.endswith(".link"):
                continue
            rel = os.path.relpath(os.path.join(dirpath, fn), data_root)
            if not rel.startswith("c" + os.sep):
                continue
            name = unquote(fn[:-len(".link")])
            try:
                with open(os.path.join(dirpath, fn)) as f:
                    target = f.read()
                with open(target, "rb") as f:
                    digest = hashlib.sha256(f.read()).hexdigest()
            except OSError as e:
                # an unusable link is C08's subject (it must not count as existing); integrity speaks about bytes that can be read
                continue
            if digest != name:
                bad.append((name, "the published content key leads to bytes whose sha256 is %s" % digest))
    return bad


def fault_scenarios(m, scratch, rep, tier):
    """an interrupted write of a blob, then another function producing the same bytes (dedup path): no published
    content key may ever lead to other bytes, and every memento must read the bytes that were stored for it"""
    import shutil
    from . import c08, fnlib, fnmod
    c08.install()
    tr = fnlib.Trace()
    spec_f = {"id": 1, "ret": {"k": "bytes", "v": "00112233445566778899aabbccddeeff" * 8}}
    spec_g = dict(spec_f, id=2)
    n = 0
    for separate_meta in ((False,) if tier == "quick" else (False, True)):
        root = os.path.join(scratch, "c07-fault-%d" % separate_meta)
        shutil.rmtree(root, ignore_errors=True)
        c08.fresh_env(m, root, separate_meta, False)
        c08.FAULT.reset(root, record=True)
        ref, _ = c08.one_call(fnmod.n0, spec_f, tr, "n0")
        events = list(c08.FAULT.events)
        c08.FAULT.reset(None)
        roles = c08.classify_events(events)
        for i, (ev, pth) in enumerate(events):
            if ev != "open" or roles[i] not in (1, 2):
                continue
            for kind in ("error-mid", "crash-mid"):
                for cname, cfn, _ in (c08.OBJ_CUTS if roles[i] == 1 else c08.LINK_CUTS):
                    n += 1
                    shutil.rmtree(root, ignore_errors=True)
                    c08.fresh_env(m, root, separate_meta, False)
                    c08.FAULT.reset(root, at=i, kind=kind, cut=cfn)
                    try:
                        c08.one_call(fnmod.n0, spec_f, tr, "n0")
                    except c08.CrashNow:
                        pass
                    c08.FAULT.reset(None)
                    c08.fresh_env(m, root, separate_meta, False)
                    replay = {"fault": {"event": [ev, pth], "kind": kind, "cut": cname}, "separate_metadata_path": separate_meta}
                    outs = []
                    for fn, spec, fname in ((fnmod.n1, spec_g, "n1"), (fnmod.n0, spec_f, "n0"), (fnmod.n1, spec_g, "n1")):
                        out, ran = c08.one_call(fn, spec, tr, fname)
                        outs.append(out)
                        for key, what in published_integrity(os.path.join(root, "data")):
                            rep.violation("C07:published-bytes-do-not-hash-to-key:after-%s" % kind,
                                          "after an interrupted blob write (%s, file left %s) and a later store of the same bytes: %s" % (kind, cname, what), replay)
                            break
                    if any(o != ref for o in outs):
                        rep.violation("C07:memento-reads-other-bytes:after-%s" % kind,
                                      "after an interrupted blob write, calls producing / reading the same bytes gave %r instead of %r" % (outs, ref), replay)
        shutil.rmtree(root, ignore_errors=True)
    c08.FAULT.reset(None)
    return n


def partition_scenarios(m, scratch, rep, rng, tier):
    """partition results whose members repeat (within one partition, across partitions, staged in memory or on disk):
    equal bytes share one stored object, every object hashes to its key"""
    import gc
    import shutil
    from twosigma.memento.storage_filesystem import FilesystemStorageBackend
    from . import fnlib, fnmod
    n = 0
    for si in range(6 if tier == "quick" else 40):
        root = os.path.join(scratch, "c07-part-%d" % si)
        shutil.rmtree(root, ignore_errors=True)
        fnlib.set_env(m, root, {"fc": (FilesystemStorageBackend(path=os.path.join(root, "data"), memory_cache_mb=rng.choice([None, 1])), None)})
        vals = [{"k": "str", "v": "dup-%d" % si * 5}, {"k": "int", "v": 1000 + si}, {"k": "bytes", "v": "ab" * 20}, {"k": "nd", "v": [si, 1, 2], "dtype": "int64", "shape": [3]}]
        specs = []
        for pi in range(rng.randint(1, 3)):
            members = [["k%d" % j, rng.choice(vals)] for j in range(rng.randint(2, 5))]
            members[1][1] = members[0][1]                       # two members with equal bytes, new to the store when first written
            specs.append({"id": 40000 + si * 10 + pi, "ret": {"k": rng.choice(["part", "odpart"]), "v": members}})
        meta = {"partitions": specs}
        try:
            for sp in specs:
                fnmod.n0(sp)
        except Exception as e:
            rep.violation("C07:partition-call-raised", "%s: %s" % (type(e).__name__, str(e)[:150]), meta)
            continue
        n += 1
        per_key = {}
        for key, uuid, digest in scan(os.path.join(root, "data")):
            if key.startswith("c/"):
                per_key.setdefault(key, []).append((uuid, digest))
        for key, versions in per_key.items():
            if len(versions) > 1:
                rep.violation("C07:content-key-has-several-versions:partition-members", "content key %s holds %d stored objects after storing partitions with repeated members" % (key, len(versions)), meta)
                break
            if key.split("/")[-1] != versions[0][1] and "index" not in key:
                rep.violation("C07:published-bytes-do-not-hash-to-key:partition-members", "object under %s hashes to %s" % (key, versions[0][1]), meta)
                break
        gc.collect()
        shutil.rmtree(root, ignore_errors=True)
    # a partition stored under an OVERRIDE key, read back, and handed on unchanged by another function (no override there): the
    # second function's result is content-addressed like any other, and shares its object with an equal partition built afresh
    for si in range(2 if tier == "quick" else 12):
        root = os.path.join(scratch, "c07-relay-%d" % si)
        shutil.rmtree(root, ignore_errors=True)
        data = os.path.join(root, "data")
        members = [["k1", {"k": "int", "v": 7000 + si}], ["k2", {"k": "str", "v": "relay-%d" % si}]]
        inner = {"id": 41000 + si, "ret": {"k": "part", "v": members}, "override": "ov/relay%d" % si}
        fresh = {"id": 41500 + si, "ret": {"k": "part", "v": members}}
        meta = {"inner": inner, "relay": "nrelay(inner)", "fresh": fresh}
        try:
            fnlib.set_env(m, root, {"fc": (FilesystemStorageBackend(path=data), None)})
            fnmod.n0(inner)
            fnlib.set_env(m, root, {"fc": (FilesystemStorageBackend(path=data), None)})
            rspec = {"id": 41900 + si, "inner": inner}
            fnmod.nrelay(rspec)
            fnmod.n1(fresh)
            k_relay = fnmod.nrelay.memento(rspec).content_key.key
            k_fresh = fnmod.n1.memento(fresh).content_key.key
            n += 1
            if not k_relay.startswith("c/"):
                rep.violation("C07:result-without-override-not-content-addressed", "a partition handed on unchanged by another function (no key override) is recorded under %r" % k_relay, meta)
            elif k_relay != k_fresh:
                rep.violation("C07:equal-results-do-not-share-object", "an equal partition built afresh is stored under %r, the handed-on one under %r" % (k_fresh, k_relay), meta)
        except Exception as e:
            rep.violation("C07:partition-call-raised", "%s: %s" % (type(e).__name__, str(e)[:150]), meta)
        gc.collect()
        shutil.rmtree(root, ignore_errors=True)
    return n


def gen_history(rng, length, ids):
    ops = []
    pool = []
    for _ in range(length):
        r = rng.random()
        fname, arg = rng.choice(BD.KEY_FNS), rng.randrange(BD.N_ARGS)
        if r < 0.62:
            ids[0] += 1
            if pool and rng.random() < 0.4:
                vk, vid, n = rng.choice(pool)          # same bytes again, maybe from another function
            else:
                vk, vid, n = rng.choice("bbsnez"), ids[0], rng.randint(8, 300)
                if vk != "z":
                    pool.append((vk, vid, n))
            ov = rng.choice(OVERRIDES) if rng.random() < 0.3 else None
            ops.append(["memoize", fname, arg, ids[0], vk, vid, n, ov])
        elif r < 0.74:
            ops.append(["fcall", fname, arg])
        elif r < 0.82:
            ops.append(["ffn", fname])
        elif r < 0.85:
            ops.append(["fall"])
        elif r < 0.93:
            ops.append(["read", fname, arg])
        else:
            ops.append(["wmeta", fname, arg, "log", ids[0], False])
    return ops


def run_history(m, scratch, config, ops, tag):
    d = BD.Driver(m, scratch, config, 4096, tag=tag)
    data_root = os.path.join(d.root, "data")
    shared = "meta" not in config
    uu_index, cid_of_value, digest_of_cid = {}, {}, {}
    live = {}       # (fname,arg) -> (content key (key,uuid), digest at creation)
    last_vid = {}   # (fname,arg) -> id of the value its live memento was created with
    steps, bad = [], []
    for i, op in enumerate(ops):
        rec = d.apply(list(op))
        if rec is None:
            continue
        if rec["exc"]:
            bad.append(("exception", i, rec["exc"]))
            break
        tab = [t for t in scan(data_root) if not (shared and t[0].startswith("m/"))]
        kind = op[0]
        term = None
        if kind == "read":
            # a live memento keeps reading the value that was stored when it was created, whatever was written since under
            # the same override key for other calls
            want_vid = last_vid.get((op[1], op[2]))
            got = rec.get("out", "")
            if want_vid is not None and got != "BVal (Some %d)" % want_vid:
                bad.append(("memento-reads-other-value", i, "the memento of %r was created with value %d; reading it now gives %s" % ((op[1], op[2]), want_vid, got)))
        if kind == "memoize":
            last_vid[(op[1], op[2])] = 0 if op[4] == "z" else op[5]
        elif kind == "fcall":
            last_vid.pop((op[1], op[2]), None)
        elif kind == "ffn":
            for k in [k for k in last_vid if k[0] == op[1]]:
                last_vid.pop(k)
        elif kind == "fall":
            last_vid.clear()
        if kind == "memoize":
            _, fname, arg, mid, vk, vid, n, ov = op
            null = vk == "z"
            cid = 0
            if not null:
                cid = cid_of_value.setdefault((vk, vid, n), len(cid_of_value) + 1)
            ck = rec.get("content_key")
            if ck is not None:
                objs = [t for t in tab if t[0] == ck[0] and t[1] == ck[1]]
                if not objs:
                    bad.append(("content-key-without-object", i, "memento's content key %r has no object" % (ck,)))
                else:
                    digest_of_cid.setdefault(cid, objs[0][2])
                    live[(fname, arg)] = (ck, objs[0][2], cid)
            else:
                live.pop((fname, arg), None)
                if not null:
                    bad.append(("no-content-key", i, "non-null result memoized without a content key"))
            term = "VMemoize %s %d %d %s %s" % (d.ckey(fname, arg), mid, cid, C.coq_bool(null),
                                               "None" if ov is None else "(Some %s)" % C.coq_str(ov))
        elif kind == "fcall":
            term = "VForgetCall %s" % d.ckey(op[1], op[2])
            live.pop((op[1], op[2]), None)
        elif kind == "ffn":
            term = "VForgetFn %s" % C.coq_str(d.qn(op[1]))
            for k in [k for k in live if k[0] == op[1]]:
                live.pop(k)
        elif kind == "fall":
            term = "VForgetAll"
            live.clear()
        elif kind == "wmeta":
            term = "VWriteMeta %s %s %d" % (d.ckey(op[1], op[2]), C.coq_str(op[3]), op[4])
        for t in tab:
            uu_index.setdefault((t[0], t[1]), len(uu_index))
        # direct checks of the property's observables
        nver = {}
        for key, uuid, digest in tab:
            if key.startswith("c/"):
                if key[2:] != digest:
                    bad.append(("content-key-hash-mismatch", i, "bytes under %s hash to %s" % (key, digest)))
                nver[key] = nver.get(key, 0) + 1
        for key, n in nver.items():
            if n > 1:
                bad.append(("content-key-duplicated", i, "%d versions under %s" % (n, key)))
        present = {(t[0], t[1]): t[2] for t in tab}
        for call, (ck, digest, cid) in live.items():
            if present.get((ck[0], ck[1])) != digest:
                bad.append(("referenced-object-changed", i, "object %r referenced by the live memento of %r is %s" % (
                    ck, call, "gone" if (ck[0], ck[1]) not in present else "different")))
        if term is not None:
            digest_cid = {v: k for k, v in digest_of_cid.items()}
            objs = []
            for key, uuid, digest in tab:
                cid = digest_cid.get(digest)
                if cid is None:     # bytes nobody wrote: give them an id the model cannot have
                    cid = -1 - len(objs)
                objs.append("((%s, %d), %s)" % (C.coq_str(key), 0, C.coq_z(cid)))
            steps.append((term, tab, dict(digest_of_cid)))
    import shutil
    shutil.rmtree(d.root, ignore_errors=True)
    return steps, bad, shared, digest_of_cid


def case_term(steps, shared, digest_of_cid):
    """versions are compared as patterns: per store, the n-th version created is version n-1"""
    order = {}
    digest_cid = {v: k for k, v in digest_of_cid.items()}
    rows = []
    for term, tab, _ in steps:
        # new objects of this step, in a deterministic order (one data object per memoize)
        new = [t for t in tab if (t[0], t[1]) not in order]
        for t in sorted(new):
            order[(t[0], t[1])] = len(order)
        objs = []
        for key, uuid, digest in tab:
            cid = digest_cid.get(digest, -1)
            objs.append("((%s, %d), %s)" % (C.coq_str(key), order[(key, uuid)], C.coq_z(cid)))
        rows.append("(%s, %s)" % (term, C.coq_list(objs)))
    htab = C.coq_list(["(%d, %s)" % (cid, C.coq_str(dg)) for cid, dg in sorted(digest_of_cid.items())])
    return "(%s, %s, %s)" % (C.coq_bool(shared), htab, C.coq_list(rows))


def run(tier, seed):
    rep = C.Report("C07", tier, seed)
    gate = C.proof_gate("C07")
    rng = random.Random(seed)
    n_hist, length = (30, 25) if tier == "quick" else (400, 60)
    with C.Scratch("c07") as scratch:
        from . import implenv
        m = implenv.setup(scratch)
        ids = [0]
        terms, metas = [], []
        nontriv = set()
        dist = {"dedup_reuse": 0, "override_writes": 0, "null_override": 0, "ops": 0}
        for config in ("fs", "fs_meta", "fs_cache"):
            targeted = []
            if config == "fs":
                # an override key that itself contains '#' (the separator between key and version): written, then read back
                ids[0] += 2
                targeted = [[["memoize", BD.KEY_FNS[0], 0, ids[0] - 1, "b", ids[0] - 1, 64, OVERRIDES[3]], ["read", BD.KEY_FNS[0], 0],
                             ["memoize", BD.KEY_FNS[1], 1, ids[0], "n", ids[0], 64, OVERRIDES[3]], ["read", BD.KEY_FNS[1], 1], ["read", BD.KEY_FNS[0], 0]]]
            if config == "fs_cache":
                # two calls publish different arrays under ONE override key; both fall out of the memory cache; the later one
                # is read (decoded again, and kept alive), then the earlier one: it must read ITS array
                f0, big = BD.KEY_FNS[0], BD.KEY_FNS[-1]
                ids[0] += 6
                a, b_ = ids[0] - 5, ids[0] - 4
                targeted = [[["memoize", f0, 0, a, "n", a, 200, OVERRIDES[0]], ["memoize", f0, 1, b_, "n", b_, 200, OVERRIDES[0]],
                             ["memoize", big, 0, ids[0] - 3, "n", ids[0] - 3, 1500, None], ["memoize", big, 1, ids[0] - 2, "n", ids[0] - 2, 1500, None],
                             ["memoize", big, 2, ids[0] - 1, "n", ids[0] - 1, 1500, None], ["read", f0, 1], ["read", f0, 0], ["read", f0, 1]]]
            n_random = n_hist if config == "fs" else n_hist // 2
            for h in range(n_random + len(targeted)):
                ops = targeted[h - n_random] if h >= n_random else gen_history(rng, rng.randint(4, length), ids)
                steps, bad, shared, dg = run_history(m, scratch, config, ops, "%s%d" % (config, h))
                dist["ops"] += len(ops)
                seen_vals = set()
                for o in ops:
                    if o[0] == "memoize":
                        if o[7] is not None:
                            dist["override_writes"] += 1
                            if o[4] == "z":
                                dist["null_override"] += 1
                        elif (o[4], o[5], o[6]) in seen_vals:
                            dist["dedup_reuse"] += 1
                        seen_vals.add((o[4], o[5], o[6]))
                if any(o[0] == "memoize" and o[7] for o in ops) and any(o[0] in ("fcall", "ffn") for o in ops):
                    nontriv.add(hash(tuple(map(tuple, ops))))
                for sig, i, what in bad:
                    rep.violation("C07:%s" % sig, "backend %s: %s (step %d)" % (config, what, i),
                                  {"config": config, "ops": ops[:i + 1]})
                terms.append(case_term(steps, shared, dg))
                metas.append((config, ops, steps))
                if len(rep.samples) < 3:
                    rep.samples.append({"config": config, "ops": ops[:8]})
        n_fault = fault_scenarios(m, scratch, rep, tier)
        dist["interrupted_write_points"] = n_fault
        dist["partition_scenarios"] = partition_scenarios(m, scratch, rep, rng, tier)
        try:
            res = C.run_coq_cases("c07", HEADER, terms, "vcase",
                                  case_type="bool * list (Z * string) * list (vop * list ((string * Z) * Z))")
        except RuntimeError as e:
            rep.broken.append("correspondence C07 (model could not be evaluated): %s" % str(e)[:400])
            res = [None] * len(terms)
        for (config, ops, steps), r in zip(metas, res):
            if r is not None:
                term = steps[r][0].split()[0] if r < len(steps) else "?"
                rep.violation("C07:store-differs-from-model:%s" % term,
                              "backend %s: the data store's object table differs from the content-addressed store model after step %d (%s)" % (config, r, term),
                              {"config": config, "ops": ops[:r + 1], "data_store_after_step": steps[r][1] if r < len(steps) else None})
        rep.coverage.update({
            "evaluations": len(terms), "distinct_nontrivial": len(nontriv),
            "rule": "random storage histories with key-override writes to shared override keys %s, repeated contents across functions (dedup), null results, "
                    "forget call/function/everything, custom metadata, on filesystem backends (shared / separate metadata path / with cache); after EVERY step the "
                    "whole data store is scanned: sha256(bytes)==content key name, <=1 version per content key, every object referenced by a live memento unchanged, "
                    "and the object table equals the model's (versions compared as creation-order patterns); non-trivial = history with an override write and a forget" % OVERRIDES,
            "distribution": dist, "traces_validated_against_impl": len(terms),
        })
        rep.assumptions = ["crashes and I/O faults are C08's subject; here only: bytes reachable through a published content key after an interrupted blob or link write followed by a dedup store", "uuid4 returns fresh versions (model: counter)",
                           "the digest is an arbitrary function in the theorems; nothing assumes SHA-256 injective"]
    return rep.finish(gate)
