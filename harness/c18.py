"""C18 — declarative configuration is honoured, ordered, and reproducible from its dump.
Theorems: Config/ConfigProofs.v. Correspondence: the full matrix of backend options
{path, metadata path, memory cache size, read-only} x storage kinds x delivery forms
{constructor arguments, inline dict, JSON file, YAML file with template parameters, file +
overriding arguments}: the settings the backend ends up with are compared with the model's
[build], its dictionary form with [dump], the backend rebuilt from the dump with the original;
the settings are confirmed behaviourally (where files appear, whether a second call executes,
whether the memory cache serves after the files are removed); repository lists with duplicated
cluster names resolve as the model's [resolve], before and after a dump / rebuild."""
import itertools
import json
import os
import random
import shutil

from . import common as C

HEADER = """From Coq Require Import List Arith Bool.
From Memento Require Import Config.Config.
Import ListNotations.
"""

KINDS = ["filesystem", "memory", "null"]


def coq_opt(v, f=str):
    return "None" if v is None else "Some %s" % f(v)


def coq_opts(o):
    # cache sizes are counted in half megabytes in the model (fractional sizes such as 0.5 MB are legal)
    return "{| o_path := %s; o_meta := %s; o_cache := %s; o_ro := %s |}" % (
        coq_opt(o.get("path")), coq_opt(o.get("meta")), coq_opt(None if o.get("cache") is None else half(o["cache"])), coq_opt(o.get("ro"), C.coq_bool))


def half(mb):
    h = mb * 2
    return int(h) if h == int(h) else 9998


def coq_eff(e):
    return "{| e_path := %d; e_meta := %d; e_cache := %d; e_ro := %s |}" % (e["path"], e["meta"], half(e["cache"]), C.coq_bool(e["ro"]))


class Paths:
    def __init__(self, scratch):
        self.default = os.path.join(scratch, ".memento", "data")
        # characters that are special to HTML / XML escaping, to YAML flow syntax and to shells, but legal in a directory name
        sub = os.path.join(scratch, "R&D <1> #2, 50%")
        self.p = {0: self.default, 1: os.path.join(sub, "P1"), 2: os.path.join(sub, "M1"), 3: os.path.join(sub, "P2")}
        self.inv = {v: k for k, v in self.p.items()}

    def ident(self, path):
        return self.inv.get(path, 99)


def to_config(kind, o, paths, template=False):
    """option ids -> the storage configuration dictionary of the documented format"""
    cfg = {"type": kind}
    root = "{{ root }}" if template else os.path.dirname(paths.p[1])
    rel = {1: "P1", 2: "M1", 3: "P2"}
    if o.get("path") is not None:
        cfg["path"] = root + "/" + rel[o["path"]]
    if o.get("meta") is not None:
        cfg["metadata_path"] = (root + "/" + rel[o["meta"]]) if o["meta"] in rel else paths.p[o["meta"]]
    if o.get("cache") is not None:
        cfg["memory_cache_mb"] = "CACHEPLACEHOLDER" if template else o["cache"]
    if o.get("ro") is not None:
        cfg["readonly"] = "ROPLACEHOLDER" if template else o["ro"]
    return cfg


def to_kwargs(kind, o, paths):
    kw = {}
    if o.get("path") is not None:
        kw["path"] = paths.p[o["path"]]
    if o.get("meta") is not None:
        kw["metadata_path"] = paths.p[o["meta"]]
    if o.get("cache") is not None:
        kw["memory_cache_mb"] = o["cache"]
    if o.get("ro") is not None:
        kw["read_only"] = o["ro"]
    return kw


def observe(storage, paths):
    """effective settings of a live backend"""
    kind = storage.storage_type
    if kind == "filesystem":
        mc = storage._memory_cache
        cache = 0 if mc is None else mc.memory_cache_bytes / 1024 / 1024
        return {"path": paths.ident(storage.config_path), "meta": paths.ident(storage.metadata_config_path),
                "cache": cache, "ro": bool(storage.read_only)}
    return {"path": 0, "meta": 0, "cache": 0, "ro": bool(storage.read_only)}


def observe_dict(d, paths):
    o = {}
    if "path" in d:
        o["path"] = paths.ident(d["path"])
    if "metadata_path" in d:
        o["meta"] = paths.ident(d["metadata_path"])
    if "memory_cache_mb" in d:
        o["cache"] = d["memory_cache_mb"]
    if "readonly" in d:
        o["ro"] = bool(d["readonly"])
    return o


def run(tier, seed):
    rep = C.Report("C18", tier, seed)
    gate = C.proof_gate("C18")
    rng = random.Random(seed)
    stats = {"builds": 0, "by_form": {}, "dumps": 0, "behavioural": 0, "resolve_cases": 0, "env_roundtrips": 0}
    bterms, bmetas, dterms, dmetas, rterms, rmetas = [], [], [], [], [], []
    with C.Scratch("c18") as scratch:
        from . import implenv
        m = implenv.setup(scratch)
        import builtins
        import yaml
        from twosigma.memento import Environment, ConfigurationRepository, FunctionCluster
        from twosigma.memento.storage import StorageBackend
        from twosigma.memento.storage_filesystem import FilesystemStorageBackend
        from twosigma.memento.storage_memory import MemoryStorageBackend
        from twosigma.memento.storage_null import NullStorageBackend
        from . import fnmod
        paths = Paths(scratch)
        cfgdir = os.path.join(scratch, "cfg")
        os.makedirs(cfgdir)
        events = []
        builtins._vt = events.append
        uid = [0]

        def combos(kind):
            if kind == "filesystem":
                # meta: None, a distinct directory, or the same directory as the data (whatever that is)
                for path, meta, cache, ro in itertools.product([None, 1, 3], [None, 2, "same"], [None, 0, 4, 0.5, 1.5], [None, False, True]):
                    o = {"path": path, "cache": cache, "ro": ro}
                    o["meta"] = (path if path is not None else 0) if meta == "same" else meta
                    yield o
            else:
                for ro in (None, False, True):
                    yield {"path": None, "meta": None, "cache": None, "ro": ro}

        def build(kind, form, file_o, arg_o):
            """returns the storage backend built through the given delivery form"""
            n = uid[0] = uid[0] + 1
            if form == "args":
                if kind == "filesystem":
                    return FilesystemStorageBackend(**to_kwargs(kind, arg_o, paths))
                if kind == "memory":
                    return MemoryStorageBackend(**({"read_only": arg_o["ro"]} if arg_o.get("ro") is not None else {}))
                return None
            if form == "override":
                return FilesystemStorageBackend(config=to_config(kind, file_o, paths), **to_kwargs(kind, arg_o, paths))
            if form == "dict":
                return FunctionCluster(config={"name": "fc", "storage": to_config(kind, file_o, paths)}).storage
            ext = "json" if form == "json" else "yaml"
            ccfg = {"name": "fc", "description": "from %s file" % ext, "storage": to_config(kind, file_o, paths, template=(form == "yaml")), "runner": {"type": "local"}}
            rcfg = {"name": "repo%d" % n, "clusters": {"fc": "c%d.%s" % (n, ext)}}
            for name, body in (("c%d.%s" % (n, ext), ccfg), ("r%d.%s" % (n, ext), rcfg)):
                with open(os.path.join(cfgdir, name), "w") as f:
                    if ext == "json":
                        json.dump(body, f)
                    else:
                        yaml.safe_dump(body, f)
            # the cluster file of a YAML repository is itself loaded through the template engine only when the repository
            # passes parameters down; clusters are loaded without parameters, so template parameters are used in a repository
            # whose cluster is inline
            if form == "yaml":
                rcfg = {"name": "repo%d" % n, "clusters": {"fc": ccfg}}
                # the numeric and boolean options are template parameters too, rendered from Python values (False, 0.5, ...)
                text = yaml.safe_dump(rcfg).replace("ROPLACEHOLDER", "{{ ro }}").replace("CACHEPLACEHOLDER", "{{ cache }}")
                with open(os.path.join(cfgdir, "r%d.yaml" % n), "w") as f:
                    f.write(text)
                # the same (unchanged) template file is first loaded with OTHER parameters: what a file yields is a function of
                # the file and of the parameters it is rendered with
                try:
                    ConfigurationRepository.from_file(os.path.join(cfgdir, "r%d.yaml" % n), root=os.path.join(cfgdir, "decoy-root"),
                                                      ro=(not file_o["ro"]) if file_o.get("ro") is not None else True,
                                                      cache=(file_o["cache"] + 1) if file_o.get("cache") is not None else 7)
                except Exception:
                    pass
                repo = ConfigurationRepository.from_file(os.path.join(cfgdir, "r%d.yaml" % n), root=os.path.dirname(paths.p[1]), ro=file_o.get("ro"), cache=file_o.get("cache"))
            else:
                repo = ConfigurationRepository.from_file(os.path.join(cfgdir, "r%d.json" % n))
            return repo.clusters["fc"].storage

        none = {"path": None, "meta": None, "cache": None, "ro": None}
        for ki, kind in enumerate(KINDS):
            for o in combos(kind):
                for form in ("args", "dict", "json", "yaml"):
                    if form == "args" and kind == "null":
                        continue
                    file_o, arg_o = (none, o) if form == "args" else (o, none)
                    meta = {"kind": kind, "form": form, "file": file_o, "args": arg_o}
                    try:
                        st = build(kind, form, file_o, arg_o)
                    except Exception as e:
                        rep.violation("C18:build-raised:%s" % form, "%s: %s" % (type(e).__name__, str(e)[:200]), meta)
                        continue
                    got = observe(st, paths)
                    stats["builds"] += 1
                    stats["by_form"][form] = stats["by_form"].get(form, 0) + 1
                    bterms.append("(%d, %s, %s, %s)" % (ki, coq_opts(file_o), coq_opts(arg_o), coq_eff(got)))
                    bmetas.append(dict(meta, got=got))
                    # dictionary form and reconstruction
                    try:
                        d = st.to_dict()
                        dterms.append("(%d, %s, %s)" % (ki, coq_eff(got), coq_opts(observe_dict(d, paths))))
                        dmetas.append(dict(meta, got=got, dump=d))
                        st2 = StorageBackend.create(d["type"], d)
                        got2 = observe(st2, paths)
                        stats["dumps"] += 1
                        if got2 != got or st2.storage_type != st.storage_type:
                            feat = [k for k in got if got[k] != got2.get(k)]
                            rep.violation("C18:rebuilt-from-dump-differs:%s" % "+".join(feat), "backend %s rebuilt from its to_dict() %s has settings %s" % (got, d, got2), dict(meta, got=got, dump=d, rebuilt=got2))
                    except Exception as e:
                        rep.violation("C18:dump-raised", "%s: %s" % (type(e).__name__, str(e)[:200]), meta)
        # explicit arguments over a file
        fs = list(combos("filesystem"))
        pairs = [(a, b) for a in fs for b in fs]
        if tier == "quick":
            # every combination of what the file and the arguments say about the two paths, with sampled cache / read-only parts
            seen, sel = set(), []
            rng.shuffle(pairs)
            for a, b in pairs:
                k = (a["path"], a["meta"], b["path"], b["meta"], (a["cache"] is None, b["cache"] is None), (a["ro"] is None, b["ro"] is None))
                if k not in seen:
                    seen.add(k)
                    sel.append((a, b))
            pairs = sel
        for file_o, arg_o in pairs:
            meta = {"kind": "filesystem", "form": "override", "file": file_o, "args": arg_o}
            try:
                st = build("filesystem", "override", file_o, arg_o)
            except Exception as e:
                rep.violation("C18:build-raised:override", "%s: %s" % (type(e).__name__, str(e)[:200]), meta)
                continue
            got = observe(st, paths)
            stats["builds"] += 1
            stats["by_form"]["override"] = stats["by_form"].get("override", 0) + 1
            bterms.append("(0, %s, %s, %s)" % (coq_opts(file_o), coq_opts(arg_o), coq_eff(got)))
            bmetas.append(dict(meta, got=got))

        # a cluster built from a configuration AND an explicit storage object (or whose storage is replaced later): the
        # explicit object is the cluster's storage, and the cluster's dump describes that object and nothing of the file
        cpairs = [(a, b) for a in fs for b in fs if (a["meta"] is not None or a["cache"] is not None or a["ro"] is not None)]
        rng.shuffle(cpairs)
        stats["cluster_overrides"] = 0
        for file_o, arg_o in cpairs[:(60 if tier == "quick" else 1200)]:
            how = rng.choice(["constructor", "assigned"])
            meta = {"kind": "filesystem", "form": "cluster-override:" + how, "file": file_o, "args": arg_o}
            try:
                st = build("filesystem", "args", none, arg_o)
                ccfg = {"name": "fc", "storage": to_config("filesystem", file_o, paths), "runner": {"type": "local"}}
                if how == "constructor":
                    cl_ = FunctionCluster(config=ccfg, storage=st)
                else:
                    cl_ = FunctionCluster(config=ccfg)
                    cl_.storage = st
                got = observe(cl_.storage, paths)
                want = observe(st, paths)
                d = cl_.to_dict()["storage"]
                stats["cluster_overrides"] += 1
                dterms.append("(0, %s, %s)" % (coq_eff(got), coq_opts(observe_dict(d, paths))))
                dmetas.append(dict(meta, got=got, dump=d))
                got2 = observe(FunctionCluster(config=cl_.to_dict()).storage, paths)
                if got != want:
                    rep.violation("C18:explicit-storage-not-used", "a cluster given the storage %s explicitly uses %s" % (want, got), dict(meta, got=got))
                if got2 != got:
                    feat = [k for k in got if got[k] != got2.get(k)]
                    rep.violation("C18:rebuilt-from-dump-differs:cluster:%s" % "+".join(feat), "cluster with explicit storage %s (configuration file says %s) dumps its storage as %s; rebuilt from the dump it has %s" % (got, file_o, d, got2),
                                  dict(meta, got=got, dump=d, rebuilt=got2))
            except Exception as e:
                rep.violation("C18:cluster-override-raised", "%s: %s" % (type(e).__name__, str(e)[:200]), meta)

        # a configuration object can be used more than once: two clusters sharing one storage section (what a YAML alias
        # gives), the same dictionary handed to two environments, an environment built twice from one dump; using it
        # must not change it
        import copy as _copy
        stats["reused_configurations"] = 0
        for o in [x for x in fs if rng.random() < (0.15 if tier == "quick" else 1.0)]:
            meta = {"kind": "filesystem", "form": "configuration object used twice", "file": o}
            try:
                section = to_config("filesystem", o, paths)
                before = _copy.deepcopy(section)
                c1 = FunctionCluster(config={"name": "one", "storage": section, "runner": {"type": "local"}})
                c2 = FunctionCluster(config={"name": "two", "storage": section, "runner": {"type": "local"}})
                g1, g2 = observe(c1.storage, paths), observe(c2.storage, paths)
                stats["reused_configurations"] += 1
                if section != before:
                    rep.violation("C18:configuration-object-changed-by-use", "a storage section %r reads %r after a cluster was built from it" % (before, section), meta)
                if g1 != g2:
                    rep.violation("C18:second-use-of-configuration-differs", "two clusters built from one storage section have settings %s and %s" % (g1, g2), dict(meta, first=g1, second=g2))
                ecfg = {"name": "twice", "base_dir": scratch, "repos": [{"name": "r", "clusters": {"fc": {"name": "fc", "storage": section, "runner": {"type": "local"}}}}]}
                ebefore = _copy.deepcopy(ecfg)
                e1 = Environment(config=ecfg)
                e2 = Environment(config=ecfg)
                if ecfg != ebefore:
                    rep.violation("C18:configuration-object-changed-by-use", "an environment configuration was changed by building an environment from it", meta)
                dump = e1.to_dict()
                dbefore = _copy.deepcopy(dump)
                r1 = Environment(config=dump)
                r2 = Environment(config=dump)
                if dump != dbefore or dump != e1.to_dict():
                    rep.violation("C18:configuration-object-changed-by-use", "the dump of an environment was changed by rebuilding an environment from it (or no longer equals a fresh dump)", dict(meta, dump=dbefore, after=dump))
                for lab, ee in (("second environment from the same dictionary", e2), ("rebuilt from the dump", r1), ("rebuilt from the same dump again", r2)):
                    gg = observe(ee.get_cluster("fc").storage, paths)
                    if gg != g1:
                        rep.violation("C18:second-use-of-configuration-differs", "%s: settings %s, first use %s" % (lab, gg, g1), dict(meta, first=g1, later=gg))
            except Exception as e:
                rep.violation("C18:second-use-of-configuration-raised", "%s: %s" % (type(e).__name__, str(e)[:200]), meta)

        # the settings mean what they say: behaviour of a cluster configured from a file and of the one rebuilt from the dump
        def behave(env, expect, meta, label):
            m.Environment.set(env)
            for p in paths.p.values():
                shutil.rmtree(p, ignore_errors=True)
            uid[0] += 1
            spec = {"id": 700000 + uid[0], "ret": {"k": "int", "v": uid[0]}}
            del events[:]
            r1 = fnmod.n0(spec)
            r2 = fnmod.n0(spec)
            execs12 = len([e for e in events if e[0] == "exec"])

            def has_files(p):
                return any(fns for _, _, fns in os.walk(p)) if os.path.isdir(p) else False
            where = {k: has_files(p) for k, p in paths.p.items()}
            for p in paths.p.values():
                shutil.rmtree(p, ignore_errors=True)
            del events[:]
            r3 = fnmod.n0(spec)
            execs3 = len([e for e in events if e[0] == "exec"])
            stats["behavioural"] += 1
            want_where = {k: (not expect["ro"]) and k in (expect["path"], expect["meta"]) for k in paths.p}
            problems = []
            if r1 != uid[0] or r2 != uid[0] or r3 != uid[0]:
                problems.append("wrong results %s" % [r1, r2, r3])
            if where != want_where:
                problems.append("files appeared under %s, expected under %s" % (sorted(k for k in where if where[k]), sorted(k for k in want_where if want_where[k])))
            if execs12 != (2 if expect["ro"] else 1):
                problems.append("two calls executed the body %d times (read-only=%s)" % (execs12, expect["ro"]))
            cache_serves = (expect["cache"] > 0 and not expect["ro"])
            if execs3 != (0 if cache_serves else 1):
                problems.append("after removing the files a call executed the body %d times (memory cache of %s MB)" % (execs3, expect["cache"]))
            if problems:
                rep.violation("C18:behaviour-differs-from-settings:%s" % label, "; ".join(problems), dict(meta, expected=expect))

        beh = [o for o in fs if rng.random() < (0.35 if tier == "quick" else 1.0)]
        for o in beh:
            form = rng.choice(["json", "yaml", "dict"])
            meta = {"kind": "filesystem", "form": form, "file": o}
            try:
                st = build("filesystem", form, o, none)
                expect = observe(st, paths)
                env = Environment(name="e%d" % uid[0], base_dir=scratch, repos=[ConfigurationRepository(name="r", clusters={"fc": FunctionCluster(name="fc", storage=st)})])
                behave(env, expect, meta, "configured")
                env2 = Environment(config=env.to_dict())
                stats["env_roundtrips"] += 1
                behave(env2, expect, dict(meta, dump=env.to_dict()), "rebuilt-from-dump")
            except Exception as e:
                rep.violation("C18:behaviour-run-raised", "%s: %s" % (type(e).__name__, str(e)[:300]), meta)

        # priority order with duplicated cluster names, from files and after dump / rebuild
        for _ in range(120 if tier == "quick" else 1500):
            nrepos = rng.randint(0, 4)
            repos_spec = []
            tag = 0
            for ri in range(nrepos):
                names = rng.sample(range(4), rng.randint(0, 3))
                row = []
                for nm in names:
                    tag += 1
                    row.append((nm, tag))
                repos_spec.append(row)
            how = rng.choice(["objects", "inline", "files", "prepend-append"])
            meta = {"repos": repos_spec, "how": how}
            try:
                def cl(nm, t):
                    # the name inside the cluster configuration need not be the key the repository files it under
                    return {"name": ("cl%d" % nm) if t % 2 else ("name%d_of_tag%d" % (nm, t)), "description": "tag%d" % t, "storage": {"type": "memory"}}
                if how == "objects":
                    env = Environment(name="x", base_dir=scratch, repos=[ConfigurationRepository(name="r%d" % i, clusters={"cl%d" % nm: FunctionCluster(config=cl(nm, t)) for nm, t in row}) for i, row in enumerate(repos_spec)])
                elif how == "prepend-append":
                    # repositories are added one at a time, at either end, with look-ups in between
                    env = Environment(name="x", base_dir=scratch, repos=[])
                    # repository names may repeat (a set-up step that is run again): every added repository still takes the
                    # end of the priority list it was added at
                    rep_names = rng.random() < 0.5
                    objs = [ConfigurationRepository(name="r%d" % (i % 2 if rep_names else i), clusters={"cl%d" % nm: FunctionCluster(config=cl(nm, t)) for nm, t in row}) for i, row in enumerate(repos_spec)]
                    stats["repeated_repo_names"] = stats.get("repeated_repo_names", 0) + (1 if rep_names and len(objs) > 2 else 0)
                    current = []
                    for r, row in zip(objs, repos_spec):
                        if rng.random() < 0.5:
                            env.append_repo(r)
                            current = current + [row]
                        else:
                            env.prepend_repo(r)
                            current = [row] + current
                        for nm in range(4):
                            c = env.get_cluster("cl%d" % nm)
                            got = None if c is None else int(c.description[3:])
                            stats["resolve_cases"] += 1
                            rterms.append("(%d, %s, %s)" % (nm, C.coq_list([C.coq_list(["(%d, %d)" % p for p in rw]) for rw in current]), coq_opt(got)))
                            rmetas.append({"repos": current, "how": "after prepend/append with earlier look-ups", "name": nm, "got": got, "which": "configured"})
                    repos_spec = current
                    meta = {"repos": repos_spec, "how": how}
                elif how == "inline":
                    env = Environment(config={"name": "x", "base_dir": scratch, "repos": [{"name": "r%d" % i, "clusters": {"cl%d" % nm: cl(nm, t) for nm, t in row}} for i, row in enumerate(repos_spec)]})
                else:
                    uid[0] += 1
                    files = []
                    for i, row in enumerate(repos_spec):
                        fn = os.path.join(cfgdir, "e%d_r%d.json" % (uid[0], i))
                        with open(fn, "w") as f:
                            json.dump({"name": "r%d" % i, "clusters": {"cl%d" % nm: cl(nm, t) for nm, t in row}}, f)
                        files.append(os.path.basename(fn))
                    efn = os.path.join(cfgdir, "e%d.json" % uid[0])
                    with open(efn, "w") as f:
                        json.dump({"name": "x", "repos": files}, f)
                    from twosigma.memento.configuration import _load_config
                    env = Environment(config=_load_config(cfgdir, os.path.basename(efn)))
                env2 = Environment(config=env.to_dict())
                for nm in range(4):
                    for label, e in (("configured", env), ("rebuilt-from-dump", env2)):
                        c = e.get_cluster("cl%d" % nm)
                        got = None if c is None else int(c.description[3:])
                        stats["resolve_cases"] += 1
                        rterms.append("(%d, %s, %s)" % (nm, C.coq_list([C.coq_list(["(%d, %d)" % p for p in row]) for row in repos_spec]), coq_opt(got)))
                        rmetas.append(dict(meta, name=nm, got=got, which=label))
            except Exception as e:
                rep.violation("C18:environment-raised:%s" % how, "%s: %s" % (type(e).__name__, str(e)[:300]), meta)
        builtins._vt = None
        import gc
        gc.collect()
    for tag, terms, metas, checker, ctype in (("c18b", bterms, bmetas, "build_case", "nat * opts * opts * eff"), ("c18d", dterms, dmetas, "dump_case", "nat * eff * opts"),
                                              ("c18r", rterms, rmetas, "resolve_case", "nat * list (list (nat * nat)) * option nat")):
        try:
            res = C.run_coq_cases(tag, HEADER, terms, checker, shard=600, case_type=ctype)
        except RuntimeError as e:
            rep.broken.append("correspondence C18 %s (model could not be evaluated): %s" % (checker, str(e)[:300]))
            continue
        for meta, r in zip(metas, res):
            if r == 1:
                mdl = "model"
                diff = "+".join(sorted(k for k in ("path", "meta", "cache", "ro") if True))
                rep.violation("C18:settings-differ-from-model:%s:%s" % (meta["form"], meta["kind"]), "options file=%s args=%s delivered as %s gave a backend with %s" % (meta["file"], meta["args"], meta["form"], meta["got"]), meta)
            elif r == 2:
                rep.violation("C18:dump-differs-from-model:%s" % meta["kind"], "a backend with %s dumps as %s" % (meta["got"], meta["dump"]), meta)
            elif r == 3:
                rep.violation("C18:cluster-resolution-differs:%s" % meta["which"], "cluster cl%d resolved to %s in %s (%s)" % (meta["name"], meta["got"], meta["repos"], meta["how"]), meta)
    rep.coverage.update({
        "evaluations": len(bterms) + len(dterms) + len(rterms) + stats["behavioural"], "distinct_nontrivial": len(set(bterms)) + len(set(rterms)), "exhaustive": True,
        "rule": "ALL combinations of {path: absent/given} x {metadata path: absent/distinct/same as data} x {memory cache: absent/0/4 MB} x {read-only: absent/false/true} for the filesystem backend and of read-only for the memory and null backends, "
                "each delivered as constructor arguments, inline dict, JSON files (repository -> cluster file) and YAML file with template parameters; random file x argument pairs for overriding; to_dict of every backend and reconstruction from it; "
                "behavioural confirmation (file locations, executions, cache service) for a sample, also on the environment rebuilt from Environment.to_dict(); random repository lists (0-4 repositories, duplicated names) built from objects, inline dicts, files and prepend/append, resolved before and after dump / rebuild",
        "stats": stats, "traces_validated_against_impl": len(bterms) + len(dterms) + len(rterms),
    })
    rep.samples.append({"example_build": bmetas[5] if len(bmetas) > 5 else None})
    rep.assumptions = ["paths are compared as the strings given (relative paths and base_dir resolution of storage paths are not part of the matrix)", "the override pairs and the behavioural subset are sampled in the quick tier"]
    return rep.finish(gate)
