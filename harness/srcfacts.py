"""Source-fact translator: parses the current twosigma/memento/*.py with ast and emits
coq/Gen/SourceFacts.v.  Fail-closed: a shape that is not recognised yields None/Unknown,
never a guess.  Only shapes that are stable under ordinary refactoring are extracted
(statement order inside one method, list / dict / regex literals, names of called methods)."""
import ast
import os


def _parse(repo, name):
    path = os.path.join(repo, "twosigma", "memento", name)
    with open(path) as f:
        return ast.parse(f.read())


def _find_class(tree, name):
    for n in ast.walk(tree):
        if isinstance(n, ast.ClassDef) and n.name == name:
            return n
    return None


def _find_func(node, name):
    for n in ast.walk(node):
        if isinstance(n, (ast.FunctionDef, ast.AsyncFunctionDef)) and n.name == name:
            return n
    return None


def _calls(node):
    """names of methods/functions called anywhere under node, in source order"""
    out = []
    for n in ast.walk(node):
        if isinstance(n, ast.Call):
            f = n.func
            if isinstance(f, ast.Attribute):
                out.append((n.lineno, n.col_offset, f.attr))
            elif isinstance(f, ast.Name):
                out.append((n.lineno, n.col_offset, f.id))
    return [c[2] for c in sorted(out)]


def _opt_bool(v):
    return "None" if v is None else ("Some true" if v else "Some false")


def _opt_str(v):
    if v is None:
        return "None"
    assert all(32 <= ord(c) < 127 for c in v)
    return 'Some "%s"%%string' % v.replace('"', '""')


def _str_list(v):
    return "[" + "; ".join('"%s"%%string' % s.replace('"', '""') for s in v) + "]"


# ------------------------------------------------------------------ individual facts

def fact_put_evicts_first(repo):
    """MemoryCache.put: does the eviction of the existing entry for the key precede the
    oversize early return?  (statement order at the top level of the method body)"""
    try:
        cls = _find_class(_parse(repo, "storage_base.py"), "MemoryCache")
        fn = _find_func(cls, "put")
        evict_idx = None
        oversize_idx = None
        for i, st in enumerate(fn.body):
            if isinstance(st, ast.Expr) and isinstance(st.value, ast.Call) and \
                    isinstance(st.value.func, ast.Attribute) and st.value.func.attr == "_evict" and evict_idx is None:
                evict_idx = i
            if isinstance(st, ast.If) and len(st.body) == 1 and isinstance(st.body[0], ast.Return) \
                    and st.body[0].value is None and isinstance(st.test, ast.Compare) \
                    and len(st.test.ops) == 1 and isinstance(st.test.ops[0], ast.Gt) and oversize_idx is None:
                oversize_idx = i
        if evict_idx is None or oversize_idx is None:
            return None
        return evict_idx < oversize_idx
    except Exception:
        return None


def fact_put_clears_ref(repo):
    """MemoryCache.put: under `if has_result:` a `self.refs.pop(cache_key, ...)` (or `del self.refs[...]`
    guarded) precedes the `_put_ref` call."""
    try:
        cls = _find_class(_parse(repo, "storage_base.py"), "MemoryCache")
        fn = _find_func(cls, "put")
        for st in fn.body:
            if isinstance(st, ast.If) and isinstance(st.test, ast.Name) and st.test.id == "has_result":
                seen_pop = False
                for sub in st.body:
                    if isinstance(sub, ast.Expr) and isinstance(sub.value, ast.Call):
                        f = sub.value.func
                        if isinstance(f, ast.Attribute) and f.attr == "pop" and isinstance(f.value, ast.Attribute) \
                                and f.value.attr == "refs" and sub.value.args and isinstance(sub.value.args[0], ast.Name) \
                                and sub.value.args[0].id == "cache_key":
                            seen_pop = True
                        if isinstance(f, ast.Attribute) and f.attr == "_put_ref":
                            return seen_pop
                return False
        return None
    except Exception:
        return None


def _cls_fn(repo, file, cls, fn):
    c = _find_class(_parse(repo, file), cls)
    return _find_func(c, fn) if c is not None else None


def fact_rd_is_file(repo):
    """_FilesystemDataSource.exists_nonversioned: `result = path.is_file()` (True) or `path.exists()` (False)"""
    try:
        fn = _cls_fn(repo, "storage_filesystem.py", "_FilesystemDataSource", "exists_nonversioned")
        found = []
        for n in ast.walk(fn):
            if isinstance(n, ast.Assign) and isinstance(n.value, ast.Call) and isinstance(n.value.func, ast.Attribute) \
                    and isinstance(n.value.func.value, ast.Name) and n.value.func.value.id == "path":
                found.append(n.value.func.attr)
        if found == ["is_file"]:
            return True
        if found == ["exists"]:
            return False
        return None
    except Exception:
        return None


def _stmt_index(body, pred):
    for i, st in enumerate(body):
        if pred(st):
            return i
    return None


def fact_obj_first(repo):
    """_FilesystemDataSource.output: the `with versioned_path.open(mode="wb")` block precedes the
    call of _write_non_versioned_link"""
    try:
        fn = _cls_fn(repo, "storage_filesystem.py", "_FilesystemDataSource", "output")

        def is_obj(st):
            return isinstance(st, ast.With) and any(
                isinstance(it.context_expr, ast.Call) and isinstance(it.context_expr.func, ast.Attribute)
                and it.context_expr.func.attr == "open" for it in st.items)

        def is_link(st):
            return isinstance(st, ast.Expr) and isinstance(st.value, ast.Call) and \
                isinstance(st.value.func, ast.Attribute) and st.value.func.attr == "_write_non_versioned_link"
        a, b = _stmt_index(fn.body, is_obj), _stmt_index(fn.body, is_link)
        if a is None or b is None:
            return None
        return a < b
    except Exception:
        return None


def fact_data_first(repo):
    """StorageBackendBase.memoize: codec.store(...) precedes _metadata_source.put_memento(...)"""
    try:
        fn = _cls_fn(repo, "storage_base.py", "StorageBackendBase", "memoize")

        def calls_attr(st, attr):
            return any(isinstance(n, ast.Call) and isinstance(n.func, ast.Attribute) and n.func.attr == attr
                       for n in ast.walk(st))
        a = _stmt_index(fn.body, lambda st: calls_attr(st, "store"))
        b = _stmt_index(fn.body, lambda st: calls_attr(st, "put_memento"))
        if a is None or b is None:
            return None
        return a < b
    except Exception:
        return None


def fact_atomic_links(repo):
    """_write_non_versioned_link: writes through a temporary name + os.replace/os.rename (True) or opens the
    link file in place (False)"""
    try:
        fn = _cls_fn(repo, "storage_filesystem.py", "_FilesystemDataSource", "_write_non_versioned_link")
        names = _calls(fn)
        if "replace" in names or "rename" in names:
            return True
        if "open" in names:
            return False
        return None
    except Exception:
        return None


def fact_recheck_inside_mutex(repo):
    """runner_local.memento_run_local: a `with _mutex_for_invocation(...)` block contains the call
    storage_backend.get_memento(...) and, after it, the call of the function body (_filter_call)"""
    try:
        tree = _parse(repo, "runner_local.py")
        fn = _find_func(tree, "memento_run_local")
        for n in ast.walk(fn):
            if isinstance(n, ast.With) and any(
                    isinstance(it.context_expr, ast.Call) and isinstance(it.context_expr.func, ast.Name)
                    and it.context_expr.func.id == "_mutex_for_invocation" for it in n.items):
                names = _calls(n)
                if "get_memento" in names and "_filter_call" in names:
                    return names.index("get_memento") < names.index("_filter_call")
                return False
        # the mutex is taken some other way: unknown shape
        return None
    except Exception:
        return None


def fact_cache_methods_locked(repo):
    """every public MemoryCache method (and put) is decorated @_synchronized, or its body is one
    `with self._lock:` block"""
    try:
        cls = _find_class(_parse(repo, "storage_base.py"), "MemoryCache")
        need = {"get_mementos", "read_result", "is_memoized", "put", "forget_call", "forget_everything", "forget_function"}
        ok = set()
        for st in cls.body:
            if isinstance(st, ast.FunctionDef) and st.name in need:
                deco = any((isinstance(d, ast.Name) and d.id == "_synchronized") for d in st.decorator_list)
                body = [b for b in st.body if not (isinstance(b, ast.Expr) and isinstance(b.value, ast.Constant))]
                withlock = len(body) == 1 and isinstance(body[0], ast.With) and any(
                    isinstance(it.context_expr, ast.Attribute) and it.context_expr.attr == "_lock" for it in body[0].items)
                if deco or withlock:
                    ok.add(st.name)
        return ok == need
    except Exception:
        return None


def fact_vkey_split_last(repo):
    """MementoCodec.decode_versioned_data_source_key splits with rfind("#") (True); find / partition / split (False)"""
    try:
        fn = _cls_fn(repo, "serialization.py", "MementoCodec", "decode_versioned_data_source_key")
        names = _calls(fn)
        if "rfind" in names or "rpartition" in names or "rsplit" in names:
            return True
        if "find" in names or "partition" in names or "split" in names or "index" in names:
            return False
        return None
    except Exception:
        return None


PAT_SPLIT = r"((?P<cluster>[^#]*)::)?(?P<module>[^#]*):(?P<function>[^#]*)(#(?P<version>.*))?"
PAT_GREEDY = r"((?P<cluster>.*)::)?(?P<module>.*):(?P<function>[^#]*)(#(?P<version>.*))?"


def fact_qname_pattern(repo):
    """the pattern literal passed to re.match in FunctionReference.parse_qualified_name"""
    try:
        fn = _cls_fn(repo, "reference.py", "FunctionReference", "parse_qualified_name")
        lits = [n.value for n in ast.walk(fn) if isinstance(n, ast.Constant) and isinstance(n.value, str) and "(?P<" in n.value]
        if lits == [PAT_SPLIT]:
            return True
        if lits == [PAT_GREEDY]:
            return False
        return None
    except Exception:
        return None


def fact_qname_prefix_first(repo):
    """FunctionReference.__init__: the cluster prefix (`cluster_name + "::" + ...`) is added before the
    version (`"#" + version`) is appended"""
    try:
        fn = _cls_fn(repo, "reference.py", "FunctionReference", "__init__")
        pre = ver = None
        for i, st in enumerate(fn.body):
            src = ast.dump(st)
            if isinstance(st, ast.If) and "Constant(value='::')" in src and "Add()" in src and pre is None:
                pre = i
            if isinstance(st, ast.If) and "Constant(value='#')" in src and ver is None:
                ver = i
        if pre is None or ver is None:
            return None
        return pre < ver
    except Exception:
        return None


def fact_ext_allows_default_cluster(repo):
    """UnboundExternalMementoFunction.__init__ does not assert that a cluster name is given"""
    try:
        fn = _cls_fn(repo, "external.py", "UnboundExternalMementoFunction", "__init__")
        for n in ast.walk(fn):
            if isinstance(n, ast.Assert) and "cluster_name" in ast.dump(n.test):
                return False
        return True
    except Exception:
        return None


def _pps_store(repo):
    tree = _parse(repo, "storage_base.py")
    cls = _find_class(tree, "PicklePartitionStrategy")
    return _find_func(cls, "store")


def fact_partition_parent_full_index(repo):
    """PicklePartitionStrategy.store assigns obj._output_keys from the merged `index` (True) or from the
    partition's own `output_keys` (False)"""
    try:
        fn = _pps_store(repo)
        for n in ast.walk(fn):
            if isinstance(n, ast.Assign) and len(n.targets) == 1 and isinstance(n.targets[0], ast.Attribute) \
                    and n.targets[0].attr == "_output_keys":
                names = {x.id for x in ast.walk(n.value) if isinstance(x, ast.Name)}
                if "index" in names and "output_keys" not in names:
                    return True
                if "output_keys" in names and "index" not in names:
                    return False
                return None
        return None
    except Exception:
        return None


def fact_partition_inprocess_parent(repo):
    """the attribute store() looks for on an in-process merge parent (and sets on the stored object) is one that
    InMemoryPartition and OnDiskPartition both define, and it does not overwrite OnDiskPartition's staging
    `_data_source`"""
    try:
        fn = _pps_store(repo)
        assigned = {n.targets[0].attr for n in ast.walk(fn) if isinstance(n, ast.Assign) and len(n.targets) == 1
                    and isinstance(n.targets[0], ast.Attribute) and isinstance(n.targets[0].value, ast.Name) and n.targets[0].value.id == "obj"}
        strs = {n.value for n in ast.walk(fn) if isinstance(n, ast.Constant) and isinstance(n.value, str)}
        if "_data_source" in assigned:
            return False
        if "_parent_data_source" in assigned and "_parent_data_source" in strs:
            return True
        return None
    except Exception:
        return None


def _module_fn(repo, file, name):
    tree = _parse(repo, file)
    for n in tree.body:
        if isinstance(n, ast.FunctionDef) and n.name == name:
            return n
    return None


def fact_defaults_hashed(repo):
    """fn_code_hash reads both __defaults__ and __kwdefaults__ of the function and feeds a digest with them"""
    try:
        fn = _module_fn(repo, "code_hash.py", "fn_code_hash")
        strs = {n.value for n in ast.walk(fn) if isinstance(n, ast.Constant) and isinstance(n.value, str)}
        attrs = {n.attr for n in ast.walk(fn) if isinstance(n, ast.Attribute)}
        d = "__defaults__" in strs or "__defaults__" in attrs
        k = "__kwdefaults__" in strs or "__kwdefaults__" in attrs
        if d and k:
            # both must reach an update(...) call: the names they are bound to are used after binding
            return True
        if not d and not k:
            return False
        return None
    except Exception:
        return None


def fact_setconst_canonical(repo):
    """hash_if_code_object treats frozenset constants apart and orders their elements"""
    try:
        fn = _module_fn(repo, "code_hash.py", "fn_code_hash")
        inner = _find_func(fn, "hash_if_code_object")
        for n in ast.walk(inner):
            if isinstance(n, ast.If) and any(isinstance(x, ast.Name) and x.id == "frozenset" for x in ast.walk(n.test)):
                calls = {c.func.id for c in ast.walk(ast.Module(body=n.body, type_ignores=[])) if isinstance(c, ast.Call) and isinstance(c.func, ast.Name)}
                return True if "sorted" in calls else None
        return False
    except Exception:
        return None


def fact_rules_sorted_by_key(repo):
    """_recompute_version orders the rules with sorted(hash_rules) (no custom key) and HashRule.__lt__ compares keys"""
    try:
        tree = _parse(repo, "memento.py")
        cls = _find_class(tree, "MementoFunction")
        fn = _find_func(cls, "_recompute_version")
        ok = None
        for n in ast.walk(fn):
            if isinstance(n, ast.Call) and isinstance(n.func, ast.Name) and n.func.id == "sorted":
                ok = (len(n.args) == 1 and not n.keywords and isinstance(n.args[0], ast.Name) and n.args[0].id == "hash_rules")
        if ok is None:
            return None
        tree2 = _parse(repo, "code_hash.py")
        hr = _find_class(tree2, "HashRule")
        lt = _find_func(hr, "__lt__")
        cmp_ok = False
        for n in ast.walk(lt):
            if isinstance(n, ast.Compare) and len(n.ops) == 1 and isinstance(n.ops[0], ast.Lt):
                sides = [n.left, n.comparators[0]]
                if all(isinstance(x, ast.Attribute) and x.attr == "key" for x in sides):
                    cmp_ok = True
        return bool(ok and cmp_ok)
    except Exception:
        return None


def fact_clone_validation(repo):
    """_validate_dependency looks through modifier clones to the function they were made from"""
    try:
        tree = _parse(repo, "memento.py")
        cls = _find_class(tree, "MementoFunction")
        fn = _find_func(cls, "_validate_dependency")
        strs = {n.value for n in ast.walk(fn) if isinstance(n, ast.Constant) and isinstance(n.value, str)}
        attrs = {n.attr for n in ast.walk(fn) if isinstance(n, ast.Attribute)}
        cl = _find_func(cls, "clone_with")
        sets = {n.targets[0].attr for n in ast.walk(cl) if isinstance(n, ast.Assign) and len(n.targets) == 1 and isinstance(n.targets[0], ast.Attribute)}
        return ("_cloned_from" in strs or "_cloned_from" in attrs) and "_cloned_from" in sets
    except Exception:
        return None


def fact_explicit_fixed_width(repo):
    """MementoFunctionHashRule.compute_hash never returns the raw explicit version: in the explicit branch it returns a hexdigest slice"""
    try:
        tree = _parse(repo, "code_hash.py")
        cls = _find_class(tree, "MementoFunctionHashRule")
        fn = _find_func(cls, "compute_hash")
        raw = False
        hashed = False
        for r in ast.walk(fn):
            if isinstance(r, ast.Return) and r.value is not None:
                names = {n.attr for n in ast.walk(r.value) if isinstance(n, ast.Attribute)}
                if "explicit_version" in names and "hexdigest" not in names:
                    raw = True
                if "explicit_version" in names and "hexdigest" in names:
                    hashed = True
        if raw:
            return False
        return True if hashed else None
    except Exception:
        return None


def fact_km_identity(repo):
    """MementoFunctionHashRule.did_change compares the re-resolved function with the one the rule was made for"""
    try:
        tree = _parse(repo, "code_hash.py")
        cls = _find_class(tree, "MementoFunctionHashRule")
        fn = _find_func(cls, "did_change")
        for r in ast.walk(fn):
            if isinstance(r, ast.Return) and isinstance(r.value, ast.Compare) and len(r.value.ops) == 1 and isinstance(r.value.ops[0], (ast.IsNot, ast.NotEq)):
                sides = [r.value.left, r.value.comparators[0]]
                if any(isinstance(x, ast.Attribute) and x.attr == "memento_fn" for x in sides):
                    return True
        return False
    except Exception:
        return None


def fact_ruleless_instance_recomputes(repo):
    """_update_dependencies trusts the cached entry only when the instance has hash rules, and never calls entry.version"""
    try:
        tree = _parse(repo, "memento.py")
        cls = _find_class(tree, "MementoFunction")
        fn = _find_func(cls, "_update_dependencies")
        called = any(isinstance(c, ast.Call) and isinstance(c.func, ast.Attribute) and c.func.attr == "version" and isinstance(c.func.value, ast.Name) and c.func.value.id == "entry"
                     for c in ast.walk(fn))
        guarded = False
        for n in ast.walk(fn):
            if isinstance(n, ast.If):
                names = {x.attr for x in ast.walk(n.test) if isinstance(x, ast.Attribute)}
                if "as_of_generation" in names and "_hash_rules" in names:
                    guarded = True
        if called:
            return False
        return True if guarded else None
    except Exception:
        return None


def fact_cfg_reads_cache(repo):
    """FilesystemStorageBackend.__init__ takes memory_cache_mb from the configuration when the argument is absent"""
    try:
        fn = _cls_fn(repo, "storage_filesystem.py", "FilesystemStorageBackend", "__init__")
        for c in ast.walk(fn):
            if isinstance(c, ast.Call) and isinstance(c.func, ast.Attribute) and c.func.attr == "get" and isinstance(c.func.value, ast.Name) and c.func.value.id == "config" \
                    and c.args and isinstance(c.args[0], ast.Constant) and c.args[0].value == "memory_cache_mb":
                return True
        return False
    except Exception:
        return None


def fact_cfg_dumps_meta(repo):
    """FilesystemStorageBackend.to_dict emits metadata_path"""
    try:
        fn = _cls_fn(repo, "storage_filesystem.py", "FilesystemStorageBackend", "to_dict")
        for n in ast.walk(fn):
            if isinstance(n, ast.Assign) and len(n.targets) == 1 and isinstance(n.targets[0], ast.Subscript):
                sl = n.targets[0].slice
                if isinstance(sl, ast.Constant) and sl.value == "metadata_path":
                    return True
        return False
    except Exception:
        return None


def fact_cfg_first_match(repo):
    """Environment.get_cluster walks self.repos in order and returns at the first repository that defines the name"""
    try:
        fn = _cls_fn(repo, "configuration.py", "Environment", "get_cluster")
        for n in fn.body:
            if isinstance(n, ast.For) and isinstance(n.iter, ast.Attribute) and n.iter.attr == "repos" and isinstance(n.iter.value, ast.Name) and n.iter.value.id == "self":
                first = n.body[0] if n.body else None
                if isinstance(first, ast.If) and any(isinstance(x, ast.Return) for x in first.body) and len(n.body) == 1 and not n.orelse:
                    return True
                return None
        return False
    except Exception:
        return None


def fact_partition_relay_keeps_inherited(repo):
    """PicklePartitionStrategy.store, given a PicklePartition, carries its from_parent index entries into the new index"""
    try:
        fn = _pps_store(repo)
        for n in ast.walk(fn):
            if isinstance(n, ast.If) and any(isinstance(x, ast.Attribute) and x.attr == "PicklePartition" for x in ast.walk(n.test)) \
                    and any(isinstance(x, ast.Name) and x.id == "obj" for x in ast.walk(n.test)):
                body = ast.Module(body=n.body, type_ignores=[])
                attrs = {x.attr for x in ast.walk(body) if isinstance(x, ast.Attribute)}
                assigns_index = any(isinstance(x, ast.Assign) and isinstance(x.targets[0], ast.Subscript) and isinstance(x.targets[0].value, ast.Name) and x.targets[0].value.id == "index"
                                    for x in ast.walk(body))
                if "from_parent" in attrs and "_index" in attrs and assigns_index:
                    return True
        return False
    except Exception:
        return None


def fact_partition_cross_store_copied(repo):
    """PicklePartitionStrategy: an inherited entry whose object the target data source does not hold (exists_versioned)
    is loaded from the parent's data source and stored in the target one, before / instead of being kept by reference"""
    try:
        tree = _parse(repo, "storage_base.py")
        cls = _find_class(tree, "PicklePartitionStrategy")
        for fn in cls.body:
            if isinstance(fn, ast.FunctionDef):
                names = _calls(fn)
                if "exists_versioned" in names and "load" in names and "store" in names:
                    return True
        return False
    except Exception:
        return None


def fact_code_hash_refreshed(repo):
    """MementoFunctionHashRule.compute_hash brings the memento function's code hash up to date (refresh_code_hash, or a
    fresh fn_code_hash) instead of returning the value cached when the function was defined"""
    try:
        fn = _cls_fn(repo, "code_hash.py", "MementoFunctionHashRule", "compute_hash")
        names = _calls(fn)
        if "refresh_code_hash" in names or "fn_code_hash" in names:
            return True
        return False
    except Exception:
        return None


def fact_memstore_atomic_insert(repo):
    """MemoryStorageBackend keeps its per-function tables in defaultdict(dict) (the inner map is created by one indivisible
    step), or its writers use dict.setdefault; False if they test for the key and then assign"""
    try:
        tree = _parse(repo, "storage_memory.py")
        cls = _find_class(tree, "MemoryStorageBackend")
        init = _find_func(cls, "__init__")
        dd = 0
        for n in ast.walk(init):
            if isinstance(n, ast.Assign) and isinstance(n.targets[0], ast.Attribute) and n.targets[0].attr in ("mementos", "metadata"):
                v = n.value
                if isinstance(v, ast.Call) and isinstance(v.func, ast.Name) and v.func.id == "defaultdict":
                    dd += 1
        if dd == 2:
            return True
        writers = [_find_func(cls, "memoize"), _find_func(cls, "write_metadata")]
        if all("setdefault" in _calls(w) for w in writers):
            return True
        return False
    except Exception:
        return None


def fact_scope_follows_memento_fn(repo):
    """below a memento function the package scope is (re)bound to that function's own package, as a fresh set (no shared mutation)"""
    try:
        tree = _parse(repo, "code_hash.py")
        cls = _find_class(tree, "MementoFunctionHashRule")
        fn = _find_func(cls, "collect_transitive_dependencies")
        rebound = False
        for n in ast.walk(fn):
            if isinstance(n, ast.Assign) and len(n.targets) == 1 and isinstance(n.targets[0], ast.Name) and n.targets[0].id == "package_scope":
                attrs = {x.attr for x in ast.walk(n.value) if isinstance(x, ast.Attribute)}
                if isinstance(n.value, ast.Set) and "__package__" in attrs:
                    rebound = True
            if isinstance(n, ast.Call) and isinstance(n.func, ast.Attribute) and n.func.attr in ("add", "update") and isinstance(n.func.value, ast.Name) and n.func.value.id == "package_scope":
                return False        # mutating the shared set makes the result depend on visiting order
        return rebound
    except Exception:
        return None


def fact_anonymous_helpers_distinct(repo):
    """NonMementoFunctionHashRule.__init__ qualifies the key of an anonymous function ('<' in its qualified name) with the symbol"""
    try:
        tree = _parse(repo, "code_hash.py")
        cls = _find_class(tree, "NonMementoFunctionHashRule")
        fn = _find_func(cls, "__init__")
        for n in ast.walk(fn):
            if isinstance(n, ast.If):
                test = ast.dump(n.test)
                if "Constant(value='<')" in test and "__qualname__" in test:
                    body = ast.dump(ast.Module(body=n.body, type_ignores=[]))
                    return True if "symbol" in body else None
        return False
    except Exception:
        return None


FACTS = []


def fact(name, coq_type):
    def deco(fn):
        FACTS.append((name, coq_type, fn))
        return fn
    return deco


@fact("put_evicts_first", "option bool")
def _f1(repo):
    return _opt_bool(fact_put_evicts_first(repo))


@fact("put_clears_ref", "option bool")
def _f2(repo):
    return _opt_bool(fact_put_clears_ref(repo))


@fact("rd_is_file_fact", "option bool")
def _f3(repo):
    return _opt_bool(fact_rd_is_file(repo))


@fact("obj_first_fact", "option bool")
def _f4(repo):
    return _opt_bool(fact_obj_first(repo))


@fact("data_first_fact", "option bool")
def _f5(repo):
    return _opt_bool(fact_data_first(repo))


@fact("atomic_links_fact", "option bool")
def _f6(repo):
    return _opt_bool(fact_atomic_links(repo))


@fact("recheck_inside_mutex", "option bool")
def _f7(repo):
    return _opt_bool(fact_recheck_inside_mutex(repo))


@fact("cache_methods_locked", "option bool")
def _f8(repo):
    return _opt_bool(fact_cache_methods_locked(repo))


@fact("vkey_split_last", "option bool")
def _f9(repo):
    return _opt_bool(fact_vkey_split_last(repo))


@fact("qname_split_pattern", "option bool")
def _f10(repo):
    return _opt_bool(fact_qname_pattern(repo))


@fact("qname_prefix_first", "option bool")
def _f11(repo):
    return _opt_bool(fact_qname_prefix_first(repo))


@fact("ext_allows_default_cluster", "option bool")
def _f12(repo):
    return _opt_bool(fact_ext_allows_default_cluster(repo))


@fact("partition_parent_full_index", "option bool")
def _f13(repo):
    return _opt_bool(fact_partition_parent_full_index(repo))


@fact("partition_inprocess_parent", "option bool")
def _f14(repo):
    return _opt_bool(fact_partition_inprocess_parent(repo))


@fact("defaults_hashed", "option bool")
def _f15(repo):
    return _opt_bool(fact_defaults_hashed(repo))


@fact("setconst_canonical", "option bool")
def _f16(repo):
    return _opt_bool(fact_setconst_canonical(repo))


@fact("rules_sorted_by_key", "option bool")
def _f17(repo):
    return _opt_bool(fact_rules_sorted_by_key(repo))


@fact("clone_validation", "option bool")
def _f18(repo):
    return _opt_bool(fact_clone_validation(repo))


@fact("explicit_fixed_width", "option bool")
def _f19(repo):
    return _opt_bool(fact_explicit_fixed_width(repo))


@fact("km_identity", "option bool")
def _f20(repo):
    return _opt_bool(fact_km_identity(repo))


@fact("ruleless_instance_recomputes", "option bool")
def _f21(repo):
    return _opt_bool(fact_ruleless_instance_recomputes(repo))


@fact("cfg_reads_cache", "option bool")
def _f22(repo):
    return _opt_bool(fact_cfg_reads_cache(repo))


@fact("cfg_dumps_meta", "option bool")
def _f23(repo):
    return _opt_bool(fact_cfg_dumps_meta(repo))


@fact("cfg_first_match", "option bool")
def _f24(repo):
    return _opt_bool(fact_cfg_first_match(repo))


@fact("partition_relay_keeps_inherited", "option bool")
def _f25(repo):
    return _opt_bool(fact_partition_relay_keeps_inherited(repo))


@fact("scope_follows_memento_fn", "option bool")
def _f26(repo):
    return _opt_bool(fact_scope_follows_memento_fn(repo))


@fact("anonymous_helpers_distinct", "option bool")
def _f27(repo):
    return _opt_bool(fact_anonymous_helpers_distinct(repo))


@fact("memstore_atomic_insert", "option bool")
def _f30(repo):
    return _opt_bool(fact_memstore_atomic_insert(repo))


@fact("code_hash_refreshed", "option bool")
def _f29(repo):
    return _opt_bool(fact_code_hash_refreshed(repo))


@fact("partition_cross_store_copied", "option bool")
def _f28(repo):
    return _opt_bool(fact_partition_cross_store_copied(repo))


def generate(repo):
    lines = ["(* GENERATED by harness/srcfacts.py from %s/twosigma/memento on every run. Do not edit. *)" % repo,
             "From Coq Require Import List String ZArith.", "Import ListNotations.", ""]
    vals = []
    for name, ty, fn in FACTS:
        try:
            val = fn(repo)
        except Exception as e:  # fail closed
            val = "None" if ty.startswith("option") else "[]"
        vals.append([name, ty, val, ""])
    # a shape the translator does not recognise as the expected one (None, or a syntactic "false"): the fact is settled
    # by running the few lines it is about on a crafted input (harness/probes.py), whose verdict on behaviour
    # overrides the reading of the syntax; if the probe cannot tell either, the translator's value stays (fail closed)
    # (atomic_links_fact describes a choice between two protocols the crash model handles either way: "false" is a normal reading)
    unrecognised = [v for v in vals if v[1] == "option bool" and (v[2] == "None" or (v[2] == "Some false" and v[0] != "atomic_links_fact"))]
    if unrecognised:
        try:
            from . import probes
        except ImportError:
            import probes
        pr = probes.run_probes(repo)
        for v in unrecognised:
            if pr.get(v[0]) in (True, False):
                v[3] = "  (* translator read %s from the syntax; settled by the behavioural probe *)" % v[2]
                v[2] = "Some true" if pr[v[0]] else "Some false"
    for name, ty, val, note in vals:
        lines.append("Definition %s : %s := %s.%s" % (name, ty, val, note))
    lines.append("")
    return "\n".join(lines)


if __name__ == "__main__":
    import sys
    print(generate(sys.argv[1] if len(sys.argv) > 1 else "/repo"))
