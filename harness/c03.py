"""C03 — function versions are deterministic, so unchanged programs reuse stored results.
Theorem: Version/RulesProofs.v version_perm_invariant (the digest input does not depend on the
order in which references are visited). Correspondence: generated programs are loaded in fresh
interpreters under different PYTHONHASHSEED values, import orders, definition orders and
version-query orders; versions, rule lists and per-rule hashes must be identical; the rule set
must be the model's; the version must be the digest of the rule hashes in key order; a second
process running the unchanged program against the same store must execute no body."""
import hashlib
import os
import random
from concurrent.futures import ThreadPoolExecutor

from . import common as C
from . import vprog

HEADER = """From Coq Require Import List Arith Bool.
From Memento Require Import Version.Rules.
Import ListNotations.
"""


def ids_of(spec):
    return {n["name"]: i for i, n in enumerate(spec["nodes"])}


def coq_table(spec, hash_defaults_irrelevant=True):
    ids = ids_of(spec)
    rows = []
    for n in spec["nodes"]:
        i = ids[n["name"]]
        if n["kind"] == "m":
            k = "SMemento None" if n["explicit"] is None else "SMemento (Some %d)" % i
        elif n["kind"] == "p":
            k = "SPlain false" if n.get("outside") else "SPlain true"
        elif n["kind"] == "v":
            k = "SVar None" if n["vkind"] in ("unsupported", "mixedset") else "SVar (Some %d)" % i
        else:
            k = "SUndef"
        refs = C.coq_list([str(ids[r[0]]) for r in n.get("refs", [])])
        rows.append("(%d, {| s_kind := %s; s_code := %d; s_defaults := 0; s_refs := %s |})" % (i, k, i, refs))
    return C.coq_list(rows)


def parse_key(spec, key):
    """'Kind;parent;target' -> (K, parent id or None, target id); None for harness helpers (_vt, _num, builtins)"""
    ids = ids_of(spec)
    kind, parent, target = key.split(";")
    K = {"MementoFunction": "KM", "Function": "KF", "GlobalVariable": "KV", "UndefinedSymbol": "KU"}[kind]

    def nm(s):
        if "@" in s:                       # an anonymous function is identified by the symbol that names it
            s = s.split("@")[-1]
        base = s.split(":")[-1].split(".")[-1]
        if base.startswith("al_"):
            base = base.split("_")[-1]
        return base
    t = nm(target)
    if t not in ids:
        return None
    if parent == "None":
        par = None
    else:
        pn = nm(parent)
        if pn not in ids:
            return None
        par = ids[pn]
    return (K, par, ids[t])


def cross_package_spec():
    """a root that uses a memento function of another package and, directly, a plain function of that package"""
    def fn(name, kind, module, const, refs=(), **kw):
        d = {"name": name, "kind": kind, "module": module, "const": const, "default": None, "kwdefault": None, "setconst": None, "tupconst": None,
             "sset": None, "pair": None, "nested": None, "explicit": None, "hidden": None, "refs": [list(r) for r in refs]}
        d.update(kw)
        return d
    return {"pkg": "vpk", "nodes": [{"name": "G0", "kind": "v", "module": "c", "vkind": "int", "value": 4},
                                    fn("h0", "p", "c", 5, [("G0", "bare")]),
                                    fn("hx", "p", "c", 6, [("G0", "bare")], outside=True),
                                    fn("hy", "p", "c", 8, [], outside=True),
                                    fn("m1", "m", "c", 20, [("h0", "bare")]),
                                    fn("m3", "m", "c", 21, [("m1", "bare")]),
                                    fn("h1", "p", "a", 3, [("hy", "attr"), ("m3", "attr")]),
                                    fn("m0", "m", "a", 30, [("m1", "attr"), ("hx", "attr")]),
                                    fn("m2", "m", "b", 40, [("h1", "attr"), ("hx", "attr"), ("m0", "attr")])]}


def wrapper_helper_spec():
    """plain helpers reached through functools wrapper objects (partial, lru_cache): whatever the library makes of them, the
    versions must be the same in every process"""
    def fn(name, kind, module, const, refs=()):
        return {"name": name, "kind": kind, "module": module, "const": const, "default": None, "kwdefault": None, "setconst": None, "tupconst": None,
                "sset": None, "pair": None, "nested": None, "explicit": None, "hidden": None, "refs": [list(r) for r in refs]}
    return {"pkg": "vpk", "no_rules_case": True,
            "nodes": [fn("h0", "p", "a", 3), fn("h1", "p", "b", 5), fn("m0", "m", "a", 10, [("h0", "pwrap")]), fn("m1", "m", "b", 20, [("h1", "lwrap")]),
                      fn("m2", "m", "a", 30, [("m0", "bare"), ("h0", "lwrap")])]}


def shared_module_attribute_spec():
    """several functions of one module reach the SAME attributes of another module (`a.h0(x)`, `a.G0`), all below one root"""
    def fn(name, kind, module, const, refs=()):
        return {"name": name, "kind": kind, "module": module, "const": const, "default": None, "kwdefault": None, "setconst": None, "tupconst": None,
                "sset": None, "pair": None, "nested": None, "explicit": None, "hidden": None, "refs": [list(r) for r in refs]}
    helpers = [fn("h%d" % i, "p", "b", 10 + i, [("h0", "attr"), ("G0", "attr")] + ([("m9", "attr")] if i % 2 else [])) for i in range(1, 6)]
    return {"pkg": "vpk", "nodes": [{"name": "G0", "kind": "v", "module": "a", "vkind": "int", "value": 3}, fn("h0", "p", "a", 7), fn("m9", "m", "a", 9)] + helpers +
            [fn("m0", "m", "b", 30, [(h["name"], "bare") for h in helpers] + [("G0", "attr")]), fn("m1", "m", "b", 40, [("m0", "bare"), ("h0", "attr")])]}


def run(tier, seed):
    rep = C.Report("C03", tier, seed)
    gate = C.proof_gate("C03")
    rng = random.Random(seed)
    n_prog = 10 if tier == "quick" else 80
    n_cfg = 3 if tier == "quick" else 5
    if not gate["ok"]:          # search mode
        n_prog, n_cfg = n_prog * 3, 6
    stats = {"programs": n_prog, "processes": 0, "hashseeds": set(), "with_string_set_constant": 0, "functions_compared": 0, "second_process_calls": 0, "rules_compared": 0}
    terms, metas = [], []
    with C.Scratch("c03") as scratch:
        jobs = []
        for pi in range(n_prog + 3):
            spec = cross_package_spec() if pi == n_prog else wrapper_helper_spec() if pi == n_prog + 1 else shared_module_attribute_spec() if pi == n_prog + 2 else vprog.gen_spec(rng, n_m=rng.randint(2, 5), n_p=rng.randint(1, 3), n_v=rng.randint(1, 3), p_hidden=0.08, pkg2=rng.random() < 0.5, outside_helpers=True, lambdas=rng.random() < 0.5)
            if any(n.get("sset") for n in spec["nodes"]):
                stats["with_string_set_constant"] += 1
            ms = vprog.mnames(spec)
            cfgs = []
            for ci in range(n_cfg):
                root = os.path.join(scratch, "p%d_c%d" % (pi, ci))
                os.makedirs(root)
                vprog.render(spec, root, order_rng=None if ci == 0 else random.Random(rng.random()))
                order = list(ms)
                if ci:
                    rng.shuffle(order)
                hs = "0" if ci == 0 else str(rng.randint(1, 4000000))
                stats["hashseeds"].add(hs)
                cfgs.append({"root": root, "hashseed": hs, "import_order": ("a", "b") if ci % 2 == 0 else ("b", "a"), "version_order": order})
            jobs.append((pi, spec, ms, cfgs))

        def work(job):
            pi, spec, ms, cfgs = job
            store = os.path.join(scratch, "store%d" % pi)
            outs = []
            calls = [[m, 2] for m in ms]
            for ci, cfg in enumerate(cfgs):
                try:
                    # the first and the last configuration also run the calls, one after the other, against one store
                    do_calls = calls if ci in (0, len(cfgs) - 1) else []
                    outs.append(vprog.run_edition(cfg["root"], spec, store if do_calls else None, calls=do_calls,
                                                  version_order=cfg["version_order"], deps_of=ms, hashseed=cfg["hashseed"],
                                                  import_order=cfg["import_order"]))
                except Exception as e:
                    outs.append({"error": str(e)[-400:]})
            return outs

        with ThreadPoolExecutor(max_workers=12) as ex:
            results = list(ex.map(work, jobs))
        for (pi, spec, ms, cfgs), outs in zip(jobs, results):
            meta0 = {"spec": spec, "configs": [{k: v for k, v in c.items() if k != "root"} for c in cfgs]}
            stats["processes"] += len(outs)
            bad = [o for o in outs if "error" in o]
            if bad:
                rep.violation("C03:process-failed", "loading the program failed: %s" % bad[0]["error"][-200:], meta0)
                continue
            base = outs[0]
            for ci, o in enumerate(outs[1:], 1):
                for m in ms:
                    stats["functions_compared"] += 1
                    if o["versions"].get(m) != base["versions"].get(m):
                        # localise: which rule hash differs
                        d0 = dict(map(tuple, base["deps"][m]["rule_hashes"])) if isinstance(base["deps"].get(m), dict) else {}
                        d1 = dict(map(tuple, o["deps"][m]["rule_hashes"])) if isinstance(o["deps"].get(m), dict) else {}
                        diff = sorted(k for k in set(d0) | set(d1) if d0.get(k) != d1.get(k))
                        features = sorted({f for n in spec["nodes"] for f in ("sset", "setconst") if n.get(f) and any(n["name"] in k.split(";")[-1] for k in diff)})
                        sig = "C03:version-differs:" + ("string-set-constant" if "sset" in features else "other")
                        rep.violation(sig, "version of %s is %s under PYTHONHASHSEED=%s, import order %s, and %s under PYTHONHASHSEED=%s, import order %s; rules whose hash differs: %s" % (
                            m, base["versions"].get(m), cfgs[0]["hashseed"], cfgs[0]["import_order"], o["versions"].get(m), cfgs[ci]["hashseed"], cfgs[ci]["import_order"], diff[:4]),
                            dict(meta0, function=m, differing_rules=diff))
                    elif isinstance(base["deps"].get(m), dict) and isinstance(o["deps"].get(m), dict) and [k for k, _ in o["deps"][m]["rule_hashes"]] != [k for k, _ in base["deps"][m]["rule_hashes"]]:
                        rep.violation("C03:rule-list-differs", "same version but the ordered rule list of %s differs between processes" % m, dict(meta0, function=m))
            # version = digest of the rule hashes in key order; rule set = model's
            for m in ms:
                d = base["deps"].get(m)
                if not isinstance(d, dict):
                    rep.violation("C03:dependencies-raised", str(d)[:200], dict(meta0, function=m))
                    continue
                n = vprog.node(spec, m)
                keys = [k for k, _ in d["rule_hashes"]]
                if keys != sorted(keys):
                    rep.violation("C03:rules-not-in-key-order", "the rule list of %s is not ordered by key" % m, dict(meta0, function=m))
                if n["explicit"] is None:
                    h = hashlib.sha256()
                    for _, rh in d["rule_hashes"]:
                        if rh is not None:
                            h.update(rh.encode("utf-8"))
                    if h.hexdigest()[:16] != base["versions"][m]:
                        rep.violation("C03:version-not-digest-of-rules", "version of %s is not the digest of its rule hashes in key order" % m, dict(meta0, function=m))
                if spec.get("no_rules_case"):
                    continue
                rules = [parse_key(spec, k) for k in keys]
                rules = [r for r in rules if r is not None]
                stats["rules_compared"] += len(rules)
                rk = C.coq_list(["(%s, %s, %d)" % (k, "None" if p is None else "Some %d" % p, t) for (k, p, t) in rules])
                terms.append("(%s, %d, %s)" % (coq_table(spec), ids_of(spec)[m], rk))
                metas.append(dict(meta0, function=m, rules=keys))
            # the second process executes no body
            first, second = outs[0], outs[-1]
            for c1, c2 in zip(first["calls"], second["calls"]):
                stats["second_process_calls"] += 1
                if c2["execs"]:
                    rep.violation("C03:second-process-executes-body", "a second process (PYTHONHASHSEED=%s) running the unchanged program against the same store executed %s for %s(%s)" % (
                        cfgs[-1]["hashseed"], sorted(set(c2["execs"])), c2["fn"], c2["x"]), dict(meta0, call=[c2["fn"], c2["x"]]))
                elif c1["result"] != c2["result"]:
                    rep.violation("C03:second-process-result-differs", "%s(%s): %s then %s" % (c1["fn"], c1["x"], c1["result"], c2["result"]), dict(meta0, call=[c2["fn"], c2["x"]]))
            if len(rep.samples) < 2:
                rep.samples.append({"spec": spec, "versions": base["versions"]})
    try:
        res = C.run_coq_cases("c03", HEADER, terms, "rules_case", shard=300, case_type="list (nat * sym) * nat * list rule")
    except RuntimeError as e:
        rep.broken.append("correspondence C03 (model could not be evaluated): %s" % str(e)[:300])
        res = []
    for meta, r in zip(metas, res):
        if r is not None:
            rep.violation("C03:rule-set-differs-from-model:%d" % r, "the collected rule set differs from the model's (%s)" % ("saturation did not close" if r == 0 else "rule keys"), meta)
    stats["hashseeds"] = len(stats["hashseeds"])
    rep.coverage.update({
        "evaluations": stats["functions_compared"] + stats["second_process_calls"] + len(terms),
        "distinct_nontrivial": len(set(terms)), "exhaustive": False,
        "rule": "generated programs (memento / plain functions, variables, undefined names, cycles, aliases, module attributes, set and string-set constants, defaults, nested code) x fresh interpreters with "
                "different PYTHONHASHSEED, import order, definition order and version-query order; versions, ordered rule lists and per-rule hashes compared; the rule set compared with the model; "
                "a second process against the same store must execute no body",
        "stats": stats, "traces_validated_against_impl": len(terms),
    })
    rep.assumptions = ["PYTHONHASHSEED values are sampled", "the interpreter and the library versions are the same in both processes (the declared environment)"]
    return rep.finish(gate)
