"""Memento functions with assorted signatures (no var-positional / positional-only parameters);
each body reports the keyword arguments it received through the C-level trace callable."""
import builtins

from twosigma.memento import memento_function

CL = "sig"


def _got(name, kw):
    t = getattr(builtins, "_vt", None)
    if t is not None:
        t(("body", name, dict(kw)))
    return 0


@memento_function(cluster=CL, version="1")
def s0():
    return _got("s0", locals())


@memento_function(cluster=CL, version="1")
def s1(a):
    return _got("s1", locals())


@memento_function(cluster=CL, version="1")
def s2(a, b):
    return _got("s2", locals())


@memento_function(cluster=CL, version="1")
def s3(a, b, c):
    return _got("s3", locals())


@memento_function(cluster=CL, version="1")
def s3d(a, b=5, c=None):
    return _got("s3d", locals())


@memento_function(cluster=CL, version="1")
def sk(a, *, k, j=2):
    return _got("sk", locals())


@memento_function(cluster=CL, version="1")
def s4(x, y, z, w):
    return _got("s4", locals())


@memento_function(cluster=CL, version="1")
def svk(a, b=1, **extra):
    """further keywords are collected by a var-keyword parameter: each is a bound argument under its own name"""
    return _got("svk", dict(a=a, b=b, **extra))


def _passthrough(f):
    """an ordinary pass-through decorator (functools.wraps) below memento_function"""
    import functools

    @functools.wraps(f)
    def wrapper(*args, **kwargs):
        return f(*args, **kwargs)
    return wrapper


@memento_function(cluster=CL, version="1")
@_passthrough
def sdec(a, b=7):
    return _got("sdec", dict(a=a, b=b))


FUNCS = {"s0": s0, "s1": s1, "s2": s2, "s3": s3, "s3d": s3d, "sk": sk, "s4": s4, "svk": svk, "sdec": sdec}
PARAMS = {"s0": [], "s1": ["a"], "s2": ["a", "b"], "s3": ["a", "b", "c"], "s3d": ["a", "b", "c"],
          "sk": ["a", "k", "j"], "s4": ["x", "y", "z", "w"], "svk": ["a", "b"], "sdec": ["a", "b"]}
KWONLY = {"sk": {"k", "j"}}
VARKW = {"svk": ["z", "y", "opt"]}      # names that a var-keyword parameter of the function may collect
REQUIRED = {"s0": [], "s1": ["a"], "s2": ["a", "b"], "s3": ["a", "b", "c"], "s3d": ["a"], "sk": ["a", "k"],
            "s4": ["x", "y", "z", "w"], "svk": ["a"], "sdec": ["a"]}
DEFAULTS = {"s3d": {"b": 5, "c": None}, "sk": {"j": 2}, "svk": {"b": 1}, "sdec": {"b": 7}}


@memento_function(cluster=CL, version="1")
def tv(a, b=0):
    """a result that shows which value (and of which type) the body received"""
    _got("tv", locals())
    return "%s:%r|%s:%r" % (type(a).__name__, a, type(b).__name__, b)


@memento_function(cluster=CL, version="1")
def tu(a, b=0):
    """computes fine for every argument; for a == "bad" the result is something that cannot be stored"""
    _got("tu", locals())
    if a == "bad":
        return lambda: 1
    return "ok:%r" % (a,)
