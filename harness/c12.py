"""C12 — whatever was stored stays listable and readable as names and code evolve.
Theorems: Codec/QNameProofs.v. Correspondence: (a) the functional description of the qualified
name pattern is compared with Python's re (through FunctionReference.parse_qualified_name) on ALL
strings up to a length over the reduced alphabet {a . : # @} and on random longer ones; (b) random
admissible (cluster, module, function, version) quadruples go through real decorated functions:
qualified name -> parse -> from_qualified_name -> call -> memento / list_mementos /
list_memoized_functions; (c) evolutions of a pinned caller whose callee is re-versioned, removed,
renamed or moved to another cluster, in the default and in a named cluster: every read API must
return without raising, serve the current entry and mark vanished versions external."""
import importlib
import itertools
import os
import random
import sys
import textwrap

from . import common as C
from .c04 import ustr_term

HEADER = """From Coq Require Import List NArith Bool.
From Memento Require Import Codec.Json Codec.QName Gen.SourceFacts.
Import ListNotations. Open Scope N_scope.
Definition ofact (o : option bool) : bool := match o with Some b => b | None => false end.
Definition re_now (c : ustr * option parts) : option nat := re_case (ofact qname_split_pattern, fst c, snd c).
"""

ALPHA = "a.:#@"
VERS_ALPHA = "ab1._-+=:#@"


def parts_term(d):
    if d is None:
        return "None"
    o = lambda x: "None" if x is None else "(Some %s)" % ustr_term(x)   # noqa
    return "(Some (%s, %s, %s, %s))" % (o(d["cluster"]), ustr_term(d["module"]), ustr_term(d["function"]), o(d["version"]))


def regex_cases(rng, maxlen, nrandom):
    from twosigma.memento.reference import FunctionReference
    strs = []
    for n in range(0, maxlen + 1):
        for t in itertools.product(ALPHA, repeat=n):
            strs.append("".join(t))
    for _ in range(nrandom):
        strs.append("".join(rng.choice(ALPHA + "b::#") for _ in range(rng.randint(7, 16))))
    terms = []
    for s in strs:
        try:
            d = FunctionReference.parse_qualified_name(s)
        except ValueError:
            d = None
        terms.append("(%s, %s)" % (ustr_term(s), parts_term(d)))
    return strs, terms


def write_module(root, modname, body):
    parts = modname.split(".")
    d = root
    for p in parts[:-1]:
        d = os.path.join(d, p)
        os.makedirs(d, exist_ok=True)
        init = os.path.join(d, "__init__.py")
        if not os.path.exists(init):
            open(init, "w").close()
    with open(os.path.join(d, parts[-1] + ".py"), "w") as f:
        f.write(textwrap.dedent(body))
    importlib.invalidate_caches()
    sys.modules.pop(modname, None)       # a fresh import: reload() would keep names the new source no longer defines
    return importlib.import_module(modname)


def rand_str(rng, alpha, lo, hi):
    return "".join(rng.choice(alpha) for _ in range(rng.randint(lo, hi)))


def quadruples(m, scratch, rng, rep, n):
    """admissible quadruples through real functions and a real filesystem store"""
    from twosigma.memento.reference import FunctionReference
    from twosigma.memento.storage_filesystem import FilesystemStorageBackend
    from . import fnlib
    root = os.path.join(scratch, "qmods")
    os.makedirs(root, exist_ok=True)
    if root not in sys.path:
        sys.path.insert(0, root)
    tr = fnlib.Trace()
    total = 0
    for i in range(n):
        cluster = None if rng.random() < 0.3 else rand_str(rng, "ab1._-+=:@", 1, 6)
        if cluster is not None:
            while "::" in cluster:
                cluster = cluster.replace("::", ":")
        version = rng.choice(["1", "1:2", "a#b", "x::y", "1.0.3+build.7", "v=1@2", ":", "#", "a:b#c::d"]) if rng.random() < 0.6 else rand_str(rng, VERS_ALPHA, 1, 8)
        modname = rng.choice(["vqm%d" % i, "vqp%d.sub" % i])
        in_class = rng.random() < 0.25
        fname = "fn_%d" % i
        cl = "" if cluster is None else "cluster=%r, " % cluster
        if in_class:
            body = """
                import builtins
                from twosigma.memento import memento_function
                class Holder:
                    @staticmethod
                    @memento_function(%sversion=%r)
                    def %s(x):
                        builtins._vt(("exec", "%s", x, None))
                        return x + 1
                @memento_function(%sdependencies=[Holder.%s])
                def dep_%d(x):
                    return Holder.%s(x) + 1
            """ % (cl, version, fname, fname, cl, fname, i, fname)
            qual = "Holder." + fname
        else:
            body = """
                import builtins
                from twosigma.memento import memento_function
                @memento_function(%sversion=%r)
                def %s(x):
                    builtins._vt(("exec", "%s", x, None))
                    return x + 1
                @memento_function(%sdependencies=[%s])
                def dep_%d(x):
                    return %s(x) + 1
            """ % (cl, version, fname, fname, cl, fname, i, fname)
            qual = fname
        store = FilesystemStorageBackend(path=os.path.join(scratch, "qstore%d" % i))
        env = fnlib.set_env(m, scratch, {(cluster or "unused"): (store, None)})
        if cluster is None:
            env.default_cluster.storage = store
        meta = {"cluster": cluster, "module": modname, "function": qual, "version": version}
        total += 1
        try:
            mod = write_module(root, modname, body)
            fn = getattr(mod.Holder, fname) if in_class else getattr(mod, fname)
            qn = fn.fn_reference().qualified_name
            meta["qualified_name"] = qn
            parts = FunctionReference.parse_qualified_name(qn)
            want = {"cluster": cluster, "module": modname, "function": qual, "version": version}
            if parts != want:
                rep.violation("C12:qualified-name-mis-split", "%r splits into %r instead of %r" % (qn, parts, want), meta)
                continue
            # the name without its version is the same name minus exactly "#<version>", on the live reference, on the one
            # found by name and on the external one
            nov = ("" if cluster is None else cluster + "::") + modname + ":" + qual
            # (for functions defined inside a class the library composes this name from the bare function name; left alone)
            for label, rr in [] if in_class else (("live", fn.fn_reference()), ("by-name", FunctionReference.from_qualified_name(qn)), ("external", FunctionReference.from_qualified_name(qn, external=True, parameter_names=["x"]))):
                if rr.qualified_name_without_version != nov or rr.qualified_name != nov + "#" + version:
                    rep.violation("C12:qualified-name-mis-split", "%s reference of %r: name without version %r (expected %r)" % (label, qn, rr.qualified_name_without_version, nov), meta)
                    break
            ref = FunctionReference.from_qualified_name(qn)
            if ref.external or ref.qualified_name != qn:
                rep.violation("C12:current-function-not-found-by-name", "from_qualified_name(%r) gave %r (external=%s)" % (qn, ref.qualified_name, ref.external), meta)
                continue
            tr.clear()
            v1, v2 = fn(5), fn(5)
            if (v1, v2) != (6, 6) or len(tr.execs()) != 1:
                rep.violation("C12:stored-entry-not-served", "calls returned %r,%r with %d executions" % (v1, v2, len(tr.execs())), meta)
            mem = fn.memento(5)
            lm = fn.list_mementos()
            lf = [r.qualified_name for r in m.list_memoized_functions(cluster)]
            if mem is None or len(lm) != 1 or qn not in lf:
                rep.violation("C12:stored-entry-not-listed", "memento=%r list_mementos=%d list_memoized_functions=%r" % (mem is not None, len(lm), lf), meta)
            else:
                # the listed reference must resolve to the live function and find the entry again
                listed = [r for r in m.list_memoized_functions(cluster) if r.qualified_name == qn][0]
                if listed.external or len(listed.memento_fn.list_mementos()) != 1:
                    rep.violation("C12:listed-reference-does-not-resolve", "listed reference external=%s" % listed.external, meta)
            # the same name as an external reference (what a reader without the code gets), and modifier clones of that stub:
            # each still names exactly this function and version and finds the stored entry
            ext = FunctionReference.from_qualified_name(qn, external=True, parameter_names=["x"]).memento_fn
            for label, clone in (("stub", ext), ("ignore_result", ext.ignore_result()), ("with_prevent_further_calls", ext.with_prevent_further_calls(True)),
                                 ("with_context_args({})", ext.with_context_args({}))):
                cq = clone.fn_reference().qualified_name
                cm = clone.memento(5)
                cl_ = clone.list_mementos()
                if cq != qn or cm is None or len(cl_) != 1:
                    rep.violation("C12:external-stub-clone-loses-entry", "external stub of %r, %s: names %r, memento found=%s, list_mementos=%d (expected the same name, the entry, 1)"
                                  % (qn, label, cq, cm is not None, len(cl_)), meta)
                    break
            # an automatically versioned function of the same module that declares this one as a dependency: its call finds
            # the stored entry, and its dependency is this function at this version
            dep = getattr(mod, "dep_%d" % i)
            tr.clear()
            w = dep(5)
            dn = sorted(x.fn_reference().qualified_name for x in dep.dependencies().transitive_memento_fn_dependencies())
            if w != 7 or tr.execs() or dn != [qn]:
                rep.violation("C12:stored-entry-not-found-by-declared-dependent", "a function declaring %r as its dependency returned %r (expected 7) with %d executions of the stored call; its dependencies are %r"
                              % (qn, w, len(tr.execs()), dn), meta)
        except Exception as e:
            rep.violation("C12:exception:%s" % type(e).__name__, "%s: %s" % (type(e).__name__, str(e)[:200]), meta)
    return total


EVOLUTIONS = ["reversion", "remove", "rename", "recluster", "edit-body-autoversion", "zero-params", "fn-argument", "undecorate"]


def evolution(m, scratch, rng, rep, cluster, kind, idx, read_before=False, backend="fs"):
    from twosigma.memento.storage_filesystem import FilesystemStorageBackend
    from . import fnlib
    root = os.path.join(scratch, "emods")
    os.makedirs(root, exist_ok=True)
    if root not in sys.path:
        sys.path.insert(0, root)
    modname = "evo%d" % idx
    cl = "" if cluster is None else 'cluster="%s", ' % cluster
    zero = kind == "zero-params"
    callee_sig, callee_call = ("", "callee()") if zero else ("x", "callee(x)")

    via_arg = kind == "fn-argument"

    def src(callee_version, callee_name="callee", callee_cluster=cl, body="x + 1", with_callee=True, plain=False):
        lines = ["import builtins", "from twosigma.memento import memento_function", ""]
        if via_arg:
            # the callee reaches the caller's records as an ARGUMENT of another memento function
            lines += ["@memento_function(%sversion=\"1\")" % cl, "def apply_fn(fn, x):", "    return fn(x)", ""]
        if with_callee:
            ver = "" if callee_version is None else "version=%r" % callee_version
            # (plain: the callee keeps its name but loses its decorator -- it is an ordinary function now)
            lines += ([] if plain else ["@memento_function(%s%s)" % (callee_cluster, ver)]) + [
                      "def %s(%s):" % (callee_name, callee_sig),
                      "    builtins._vt((\"exec\", \"callee\", 0, None))",
                      "    return %s" % ("41" if zero else body), ""]
        call = callee_call.replace("callee", callee_name) if with_callee else "0"
        if via_arg:
            call = "apply_fn(%s, x)" % callee_name
        deps = "dependencies=[%s], " % callee_name if with_callee and not plain else ""
        lines += ["@memento_function(%s%sversion=\"1\")" % (cl, deps),
                  "def caller(x):",
                  "    builtins._vt((\"exec\", \"caller\", x, None))",
                  "    return (%s) * 2" % call, ""]
        return "\n".join(lines)
    if backend == "mem":
        from twosigma.memento.storage_memory import MemoryStorageBackend
        store, other = MemoryStorageBackend(), MemoryStorageBackend()
    else:
        store = FilesystemStorageBackend(path=os.path.join(scratch, "estore%d" % idx))
        other = FilesystemStorageBackend(path=os.path.join(scratch, "estore%d_other" % idx))
    env = fnlib.set_env(m, scratch, {(cluster or "unused"): (store, None), "elsewhere": (other, None)})
    if cluster is None:
        env.default_cluster.storage = store
    tr = fnlib.Trace()
    meta = {"cluster": cluster, "evolution": kind, "backend": backend}
    try:
        mod = write_module(root, modname, src("1" if kind != "edit-body-autoversion" else None))
        before = mod.caller(3)
        if read_before:
            # the entry is also read while the callee's version is still current (anything remembered from that read must not outlive the edit)
            meta["read_before_edit"] = True
            mod.caller.memento(3)
            mod.caller.list_mementos()
            mod.caller(3)
        if kind == "reversion" or kind == "zero-params" or kind == "fn-argument":
            mod = write_module(root, modname, src("2"))
        elif kind == "remove":
            mod = write_module(root, modname, src(None, with_callee=False))
        elif kind == "undecorate":
            mod = write_module(root, modname, src("1", plain=True))
        elif kind == "rename":
            mod = write_module(root, modname, src("1", callee_name="callee2"))
        elif kind == "recluster":
            mod = write_module(root, modname, src("1", callee_cluster='cluster="elsewhere", '))
        elif kind == "edit-body-autoversion":
            mod = write_module(root, modname, src(None, body="x + 2"))
    except Exception as e:
        rep.violation("C12:evolution-setup:%s" % type(e).__name__, "%s: %s" % (type(e).__name__, str(e)[:200]), meta)
        return
    checks = [("call", lambda: mod.caller(3)), ("memento", lambda: mod.caller.memento(3)), ("list_mementos", lambda: mod.caller.list_mementos()),
              ] + ([("list_mementos of the function that received it", lambda: mod.apply_fn.list_mementos())] if via_arg else []) + [
              ("list_memoized_functions", lambda: m.list_memoized_functions(cluster)),
              # every function the store lists -- the vanished callee version included, as an external stub -- lists its entries
              ("list_mementos of every listed function", lambda: [(r.qualified_name, bool(r.external), [mm.invocation_metadata.fn_reference_with_args.effective_kwargs for mm in r.memento_fn.list_mementos()])
                                                                  for r in m.list_memoized_functions(cluster)])]
    for name, f in checks:
        tr.clear()
        try:
            r = f()
        except Exception as e:
            rep.violation("C12:read-raises-after-evolution:%s:%s" % (name, "default" if cluster is None else "named"),
                          "after the callee was %s (%s cluster), %s raised %s: %s" % (kind, "default" if cluster is None else "named", name, type(e).__name__, str(e)[:150]), meta)
            continue
        if name == "call":
            ran = [e for e in tr.execs() if e[1] == "caller"]
            if r != before or ran:
                rep.violation("C12:current-entry-not-served-after-evolution", "caller's own version is current but the call returned %r (stored %r), body ran %d times" % (r, before, len(ran)), meta)
        if name == "list_memoized_functions" and kind in ("reversion", "zero-params", "remove", "rename", "fn-argument", "undecorate"):
            # the callee's version "1" no longer exists in the code: a listing that still names it names an external reference
            stale = [x.qualified_name for x in r if x.qualified_name.endswith(":callee#1") and not x.external]
            if stale:
                rep.violation("C12:vanished-version-not-external", "after the callee was %s, the listing reports %r as a local (non-external) function" % (kind, stale), meta)
        if name == "memento" and backend == "mem":
            continue        # the in-memory backend hands back the very objects that were stored: nothing is re-read
        if name == "list_mementos of every listed function":
            # (a listed name that resolves to a live function of ANOTHER cluster -- the re-clustered callee -- is looked up where
            # that function lives now; the property only asks that reading it does not raise)
            empty = [qn for qn, ext, entries in r if ext and not entries]
            if empty:
                rep.violation("C12:listed-function-lists-no-entries", "after the callee was %s, the store lists %r but no entries for them" % (kind, empty), dict(meta, listing=repr(r)[:400]))
        if name == "memento":
            if r is None:
                rep.violation("C12:current-entry-not-found-after-evolution", "caller.memento() is None although its version is current", meta)
            elif kind in ("reversion", "remove", "rename", "edit-body-autoversion", "zero-params", "undecorate"):
                refs = [x.fn_reference for x in r.invocation_metadata.invocations]
                if not refs or not all(x.external for x in refs if x.qualified_name.split("#")[0].endswith("callee")):
                    rep.violation("C12:vanished-version-not-external", "references to the vanished callee version are not reported as external: %r" % (refs,), meta)


def run(tier, seed):
    rep = C.Report("C12", tier, seed)
    gate = C.proof_gate("C12")
    rng = random.Random(seed)
    with C.Scratch("c12") as scratch:
        from . import implenv
        m = implenv.setup(scratch)
        maxlen, nrandom, nquad = (5, 400, 25) if tier == "quick" else (6, 20000, 1000)
        strs, terms = regex_cases(rng, maxlen, nrandom)
        try:
            res = C.run_coq_cases("c12", HEADER, terms, "re_now", shard=1500, case_type="ustr * option parts")
        except RuntimeError as e:
            rep.broken.append("correspondence C12 (model could not be evaluated): %s" % str(e)[:300])
            res = []
        nm = 0
        for s, r in zip(strs, res):
            if r is not None:
                nm += 1
                if nm <= 3:
                    rep.broken.append("C12 pattern description: parse_qualified_name(%r) differs from the functional description of the pattern in the source" % s)
        nq = quadruples(m, scratch, rng, rep, nquad)
        ne = 0
        for idx, (cluster, kind, rb) in enumerate(itertools.product([None, "named"], EVOLUTIONS, [False, True])):
            evolution(m, scratch, rng, rep, cluster, kind, idx, rb)
            ne += 1
        # the same evolutions over the in-memory backend (one process: the entries live as long as it does)
        for idx2, (cluster, kind) in enumerate(itertools.product([None, "named"], EVOLUTIONS)):
            evolution(m, scratch, rng, rep, cluster, kind, 1000 + idx2, False, backend="mem")
            ne += 1
        rep.samples = [{"regex_strings": strs[100:104]}, {"evolutions": EVOLUTIONS}]
        rep.coverage.update({
            "evaluations": len(strs) + nq + ne, "distinct_nontrivial": len(strs) + nq + ne,
            "exhaustive": True,
            "rule": "(a) ALL %d strings of length <= %d over {a . : # @} plus %d random longer ones: FunctionReference.parse_qualified_name vs the functional description of the source's pattern; "
                    "(b) %d random admissible quadruples (clusters over letters digits . _ - + = : @ without '::', module / package names, static-method qualnames, versions over the full alphabet incl. ':' '#' '::') "
                    "through real decorated functions and a filesystem store; (c) %d evolutions {%s} x {default, named} cluster with all read APIs" % (
                        len(strs) - nrandom, maxlen, nrandom, nq, ne, ", ".join(EVOLUTIONS)),
            "pattern_mismatches": nm, "traces_validated_against_impl": len(strs),
        })
        rep.assumptions = ["Python's re on the source's pattern is described functionally (validated exhaustively on short strings, not proved)",
                           "module / function names are dotted identifiers (Python syntax)", "clusters contain no '#' (forced by the format: C12_cluster_hash_ambiguous)"]
    return rep.finish(gate)
