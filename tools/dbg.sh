#!/bin/bash
# usage: dbg.sh File.v LINE  -> shows goals just before LINE
f=$1; n=$2
head -$((n-1)) $f > /tmp/dbg_$$.v; echo "Show. Abort." >> /tmp/dbg_$$.v
coqc -Q /verif/coq Memento /tmp/dbg_$$.v 2>&1 | grep -v conda | tail -${3:-40}; rm -f /tmp/dbg_$$.*
