#!/bin/bash
pkill -f "[s]eedslot.py"
sleep 1
pkill -f "[p]artest.sh"
sleep 1
pkill -f "/venv/bin/python ./[c]heck"
sleep 1
pkill -f "[t]imeout 3000 ./check"
