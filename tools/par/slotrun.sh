#!/bin/bash
# slotrun.sh <slot> <outfile> <name=patch> ... : for each patch, run ALL quick checks in slot copy (snapshot /var/tmp/par/snap)
slot=$1; out=$2; shift 2
V=/var/tmp/par/v$slot; R=/var/tmp/par/r$slot
mkdir -p $V; rsync -a --delete --exclude .git --exclude evidence --exclude replays /var/tmp/par/snap/ $V/; mkdir -p $V/evidence $V/replays
if [ ! -d $R/.git ]; then rm -rf $R; git clone -q /repo $R; fi
git -C $R fetch -q origin; git -C $R checkout -q -f $(cat /var/tmp/par/snap.head); git -C $R clean -fdq
for item in "$@"; do
  a=${item%%=*}; P=${item#*=}
  git -C $R checkout -q -- .
  if ! git -C $R apply $P 2>/dev/null; then echo "$a NOAPPLY" >> $out; continue; fi
  for c in ${CHECKS:-C01 C02 C03 C04 C05 C06 C07 C08 C09 C10 C11 C12 C13 C14 C15 C16 C17 C18 C19}; do
    o=$(cd $V && VERIF_REPO=$R VERIF_EVIDENCE_DIR=$V/evidence timeout 2400 ./check $c --tier ${TIER:-quick} 2>&1 | grep -E "^VIOLATION|^FAIL" | head -2 | cut -c1-220 | tr '\n' ' ')
    [ -n "$o" ] && echo "$a $c: $o" >> $out
  done
  git -C $R checkout -q -- .
  echo "$a done" >> $out
done
echo "SLOT$slot DONE" >> $out
