#!/usr/bin/env python3
"""seedslot.py <slot> <id> ... : run seeded changes against their own property's quick check (thorough if quick misses) in an isolated slot"""
import json, os, subprocess, sys
slot = sys.argv[1]
os.makedirs('/var/tmp/seedres', exist_ok=True)
for sid in sys.argv[2:]:
    prop = sid.split('-')[0]
    patch = '/verif/seeded/%s/patch.diff' % sid
    res = ''
    for tier in ('quick', 'thorough'):
        p = subprocess.run(['/var/tmp/par/partest.sh', slot, patch, prop, tier], capture_output=True, text=True)
        if 'NOAPPLY' in p.stdout:
            res = 'patch does not apply'; break
        lines = [l for l in p.stdout.splitlines() if l.startswith('VIOLATION')]
        if lines:
            nf = all('no-failing-input-found' in l for l in lines)
            sig = ''
            try:
                rp = [l.split('replay=')[1].split()[0] for l in lines if 'no-failing-input-found' not in l]
                if rp:
                    sig = json.load(open(rp[0])).get('signature', '')
            except Exception:
                pass
            res = '%s check %s: %d VIOLATION line(s)%s%s' % (prop, tier, len(lines), ' (obligation only, no failing input found)' if nf else '', (', e.g. ' + sig) if sig else '')
            break
    if not res:
        res = 'NOT detected by %s quick or thorough' % prop
    json.dump({'id': sid, 'res': res}, open('/var/tmp/seedres/%s.json' % sid, 'w'))
    print(sid, res, flush=True)
print('SLOT', slot, 'DONE', flush=True)
