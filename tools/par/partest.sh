#!/bin/bash
# partest.sh <slot> <patch|none> <prop> [tier]  : isolated copy of /verif and /repo per slot
slot=$1; patch=$2; prop=$3; tier=${4:-quick}
V=/var/tmp/par/v$slot; R=/var/tmp/par/r$slot
mkdir -p $V
rsync -a --delete --exclude .git --exclude evidence --exclude replays ${SRC:-/verif}/ $V/
mkdir -p $V/evidence $V/replays
if [ ! -d $R/.git ]; then rm -rf $R; git clone -q /repo $R; fi
git -C $R fetch -q origin; git -C $R checkout -q -f $(git -C /repo rev-parse HEAD); git -C $R checkout -q -- .; git -C $R clean -fdq
if [ "$patch" != none ]; then git -C $R apply $patch || { echo "NOAPPLY"; exit 3; }; fi
cd $V
VERIF_REPO=$R VERIF_EVIDENCE_DIR=$V/evidence timeout 3000 ./check $prop --tier $tier 2>&1 | grep -E "^VIOLATION|^FAIL|^PASS|^KNOWN" | cut -c1-300
git -C $R checkout -q -- .
