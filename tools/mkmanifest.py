#!/venv/bin/python
"""Regenerates /verif/MANIFEST.json from the table below (kept here so that the manifest stays
valid and consistent while checks are added)."""
import json
import os

VERIF = os.path.dirname(os.path.dirname(os.path.abspath(__file__)))

BASE_NOTE = ("Trusted: Coq 8.16.1 kernel (vm_compute for generated cases / Gen/Facts*.v obligations / refutation witnesses; no native_compute), "
             "the source-fact translator harness/srcfacts.py, the Python correspondence harness, and the oracles listed in DESIGN.md sections I.4 and I.7. "
             "Every property theorem is 'Closed under the global context' (Print Assumptions output is parsed on every run). ")

CHECKS = {
    "C06": dict(
        technique="Coq proof (invariant by induction over cache operations + LRU-prefix theorem) tied to the code by per-operation differential execution of the model (vm_compute) against MemoryCache and by AST source facts",
        text="Theorems over Storage/Cache.v for every budget, key set and history of any length: usage <= budget, usage = sum of resident sizes, "
             "oversize never resident, victims are exactly the least-recently-used prefix for the least n that makes room, served reads / is-memoized hits refresh recency, "
             "any covering sequence of forgets returns the counter to zero. The model is compared with the real MemoryCache after every operation of generated histories "
             "(answers, memory_usage, resident set) with eviction-order probes. Also: the invariant (honest accounts, budget, every resident entry exactly once in the LRU list) checked THROUGH a storage backend: single calls, batches with repeated elements, warm store / cold cache, forgetting.",
        note="Assumes the size estimator returns non-negative sizes (hypothesis op_ok; sizes fed to the model are the implementation's own estimates). "
             "Weak-reference collection is an explicit environment operation. Concurrency is C09's subject.",
        ref="6/C06"),
}

CHECKS["C05"] = dict(
    technique="Coq proof (simulation: write-through cache over a dictionary-like store refines the dictionary, for all histories/budgets) + differential execution of real backends against the dictionary spec inside Coq + AST source facts",
    text="Theorem cache_layer_refines_dict (Storage/LayerProofs.v): StorageBackendBase with a MemoryCache of any budget answers every operation of every history exactly as the dictionary keyed by (qualified name, arg hash), "
         "instantiated with the facts extracted from the current source (Gen/Facts*.v); prefix_scope makes f/f1 and #1/#10 safe. The filesystem (shared / separate metadata path, with / without cache) and memory backends are run on generated histories "
         "and fixed scenarios; every answer, the cache's usage / resident set and store touches are compared with the model by vm_compute. Also: the same bytes memoized again after forget-everything / forget-function, custom metadata (plain and stored with the data) across re-memoizing the same result, listings with a limit, sibling calls with equal metadata.",
    note="The data-source stack below the cache (directory tree emulation of versioned objects, metadata paths) is represented by its dictionary specification in the theorem and tied to the code by differential execution only. "
         "Hypothesis wfop: qualified names contain no '/'. Reads go through a freshly fetched memento, as the runner does.",
    ref="6/C05")
CHECKS["C07"] = dict(
    technique="Coq proof (invariants of the content-addressed versioned store by induction over histories) + whole-store scan after every operation compared with the model's object table by vm_compute",
    text="Theorems over Storage/VStore.v for every history: bytes under a content key hash to it (digest = arbitrary function, no injectivity assumed), a content key never has two versions, stored objects are never modified or removed "
         "by later memoizes / override-key rewrites / null-with-override / forgets of calls and functions, a memento keeps reading its bytes, forget deletes nothing from the data store. The real filesystem backends are driven with shared override keys "
         "and repeated contents; after every step all files are re-hashed and the object table is compared with the model. Also: interrupted blob / link writes followed by a dedup store; partitions with repeated members; a live memento keeps reading ITS value (two calls under one override key, evicted, read in turn); override keys containing '#'; a partition stored under an override key and handed on by another function is content-addressed there.",
    note="Fault-free histories (crash points are C08). uuid4 freshness is an oracle (version counter). forget_everything on a shared data/metadata tree removes the data as well (by design of the recursive delete) and is excluded from immutability.",
    ref="6/C07")
CHECKS["C19"] = dict(
    technique="Coq proof (read-only step never changes the stored dictionary; reads refine the dictionary) + audit-hook / tree-snapshot observation of real read-only, null-storage and null-runner configurations compared with the model",
    text="Theorem readonly_never_writes_and_reads_as_dict (all histories, any cache budget): memoize is skipped, forgets and metadata writes are rejected, reads answer as the dictionary, the stored state is unchanged. "
         "Implementation: pre-populated stores reopened read-only five ways (argument / config / registry, with / without cache) under random histories; every operation's file-system audit events and a full tree re-hash must show no mutation; "
         "function-level call sequences through read-only, null-storage and null-runner clusters with execution traces. Also: separate metadata path, null runner over a populated store whose result data is lost, bodies that return on-disk / in-memory partitions through a read-only store (nothing may appear under the store while the result is alive), recursive forgetting of memoized exceptions, stores populated at one path and opened read-only at another, a cluster configured read-only beside a live writable cluster on the same directory.",
    note="File-system mutation is observed via CPython audit events plus re-hashing the tree; writes bypassing both (e.g. from C extensions) would be missed. force_local() is outside the null-runner claim.",
    ref="6/C19")

CHECKS["C08"] = dict(
    technique="Coq proof by reflection over a finite store model (closed reachable set under calls / crash prefixes / I/O faults, every state good => all histories) for the configuration extracted from the source + exhaustive fault injection on the real filesystem backend compared with the model's prediction",
    text="Theorem crash_safe_all_histories: for any sequence, of any length, of calls by two functions producing the same bytes, each completing or cut at any primitive file operation (link files caught empty / at a directory boundary / elsewhere), "
         "every later call returns the value, raises nothing, and the next one is served from the store; instantiated with the reader / write-order facts extracted from the current source, with refutation theorems for the exists() reader, link-before-object and memento-before-data. "
         "Implementation: every mutating file-system call of the memoizing call x {death before, ENOSPC before, death / ENOSPC mid-write with 4 truncation shapes} x scenarios, restart, recovery calls F,F,G,G; outcomes compared with the model and with the property directly. Also: after an injected crash nothing more reaches the file system (clean-up code runs but its file operations are refused, as after a real process death); a faulted write when another function already memoized the same result; raw io.FileIO writers see a short write followed by an error.",
    note="Fault granularity: Python-level file-system calls; file content after a fault is old, empty or a prefix. Not modelled: power loss with unsynced page cache, torn renames, concurrent writers. "
         "Restart is simulated in-process by rebuilding all backend objects. The model covers the plain content-addressed value path; null / exception / override / partition / nested scenarios are checked on the implementation only.",
    ref="6/C08")

CHECKS["C09"] = dict(
    technique="Coq proof (invariant over all schedules, any number of threads and keys: mutual exclusion per call, single flight, progress for flat calls; C06 invariant for any sequence of atomic cache operations) + source facts (look-up inside the mutex, cache methods locked) + real threads under a deterministic scheduler with preemption-bounded systematic exploration",
    text="Theorems over Runner/Threads.v for every schedule (list of thread ids) of any number of threads calling any keys on a cold or warm store: the body of a key runs at most once at every point, exactly once at the end if it was not memoized, never otherwise; "
         "two threads are never inside the critical section of one key; unless all are done some thread can move (flat calls). With every public MemoryCache method atomic (source fact: they hold the cache lock) the operations of all threads form one sequence and C06's invariant holds after any sequence. "
         "Implementation: real threads stopped at every method call on the cache / metadata source / data source, every function call in runner_local.py and every body start (plus every source line inside MemoryCache in line mode), "
         "schedules explored systematically by increasing number of preemptions and sampled randomly; per-thread values, escaped exceptions, body counts and cache accounting are checked after every schedule. Also: every line of the per-call lock table function and of the link writer as scheduling points (exhaustive / bounded enumeration); the in-memory storage backend with every line of its methods a scheduling point (store listing after the threads = sequential); automatically versioned functions with nested calls right after another definition, every function call inside memento.py a scheduling point; readers vs writers of the cache at line granularity (every resident entry exactly once in the LRU list); a cluster described by a configuration dictionary first used by two threads at once; two threads storing partition results of different calls (read back by a fresh backend).",
    note="Partial for: CPython's own switch points (the scheduler decides interleavings only at the listed points), nested memento calls / lock ordering along the call tree (progress theorem is for flat calls), and the blocked-thread heuristic "
         "(a granted thread that does not reach its next point within 30 ms is treated as waiting for a lock).",
    ref="6/C09")

CHECKS["C04"] = dict(
    technique="Coq proof (canonical JSON: insertion sort on keys is order-independent; keyword dictionaries equal as finite maps have equal pre-images; keyword order irrelevance through _compute_effective_kwargs) + exact differential check: SHA-256 of the model's pre-image bytes vs arg_hash",
    text="Theorems over Codec/Json.v + Codec/ArgHash.v: the normalized JSON of an object does not depend on member order at any depth; two effective-kwargs dictionaries binding equal values to the same names have the same pre-image; "
         "keyword order is irrelevant for every signature / partial application / positional split; every presentation that binds has the key of the all-keyword presentation of its own binding; positional and keyword arguments fixed by partial application are "
         "positional / keyword arguments of the call (any signature, any lengths); the encoding that is hashed is injective on normalized (tag-free) values of any type and depth, two normalized values have the same normalized JSON value IF AND ONLY IF their canonical forms (dictionary members in key order at every depth) coincide, and injectivity is refuted without the restriction (a dictionary spelled like a tagged date IS that date: the implementation normalizes it, checked); "
         "the body receives exactly the kwargs the key was computed from; non-empty context args are a member of the hashed dictionary. "
         "The model prints the exact pre-image bytes (Python's ensure_ascii escaping, surrogate pairs, decimal integers); the harness hashes them with hashlib and compares with the implementation for generated bindings in paired presentations, "
         "and checks hit / miss and minimally different bindings directly. Also: values equal for Python but different once normalized (+-0.0, equal instants with different offsets) incl. on a re-opened store, batch presentations under context arguments, redefinition with reordered parameters, var-keyword signatures, several partials derived from one keyword-partial, function-valued arguments carrying call modifiers, negative fractional UTC offsets, a function stacked on a pass-through decorator.",
    note="PARTIAL: injectivity ('differs whenever a bound value or its type differs') is proved for the JSON value that is hashed (C04_encoding_injective_partial, C04_same_hashed_value_iff_same_canonical_value_partial: all normalized values), not for its text rendering nor SHA-256: that last step is checked on the exact pre-image bytes of generated "
         "minimally-different bindings. Partial keywords combined with call positionals (functools-style skipping of bound names) are covered by the general all-keyword theorem and the differential check, not by a flattening theorem. Float repr and isoformat are oracles.",
    ref="6/C04")
CHECKS["C11"] = dict(
    technique="Coq proof (decode (encode x) = x by nested structural induction for arguments, function references, references with arguments and mementos; key#version split; emitted documents satisfy the frozen format predicate) + byte-exact differential check of the emitted JSON + implementation round trip",
    text="Theorems over Codec/Wire.v: decode_arg/decode_fnref/decode_memento invert the encoders for every well-formed value of any nesting depth (all 12 components of a memento), the argument hash recomputed from decoded arguments is the original, "
         "key#version splits back at the last '#' (refuted for the first '#'; the source fact says rfind), every emitted memento has exactly the frozen member names in the frozen order and typed {type,value} arguments. "
         "Implementation: json.dumps(encode_memento(m)) is compared byte for byte with the model's rendering; encode -> dumps -> strict RFC 8259 parse -> decode is compared component-wise. Also: one effective call recorded in two calling conventions; function arguments whose partial arguments are Python-equal values of different types.",
    note="dateutil / isoformat are oracles (isoformat never ends in 'Z'); from_qualified_name is the identity on a reference's parts here (its behaviour is C12). numpy-array and bytes arguments are outside the modelled domain. "
         "Known finding: NaN / Infinity tokens are not RFC 8259 JSON.",
    ref="6/C11")

CHECKS["C12"] = dict(
    technique="Coq proof (parse (build parts) = parts for the '#'-free pattern and prefix-before-version construction, for every version string; resolve never errors) + source facts (pattern literal, construction order, external stub) + exhaustive comparison of the pattern's functional description with Python's re on all short strings + real-function quadruples and code evolutions",
    text="Theorems over Codec/QName.v: for any cluster without '#', dotted-identifier module/function names and ANY version string (':' '#' '::' included) the qualified name splits back into exactly its parts; resolving a stored reference against any registry never errors and yields the local function when the version is current, an external reference otherwise; "
         "refutations for the greedy pattern, for prefix-after-version and for the default-cluster assertion; the format is ambiguous without '#'-free clusters. The source's pattern literal, construction order and external stub are extracted every run. "
         "Implementation: parse_qualified_name vs the functional description on all strings up to length 5/6 over {a . : # @}; random admissible quadruples through real decorated functions, a filesystem store and all listing APIs; "
         "caller/callee evolutions (re-version, remove, rename, re-cluster, body edit, zero-parameter callee) in default and named clusters. Also: entries read before the callee is edited in the same process; memento functions passed as arguments; every listed function (vanished versions included) lists its entries; the evolutions over the in-memory backend.",
    note="That Python's re computes what parse_split / parse_greedy say is validated (exhaustively on short strings), not proved. 'Entries stored under it can be found again' is carried by the C05 storage refinement and checked here on the real store.",
    ref="6/C12")

RUN_NOTE = "Model: call DAGs (callees have smaller ids), values = id + sum of successful sub-calls, failures memoized as outcomes and caught by callers; exceptions propagating through callers, ignore_result and remote runners are outside the model. "
CHECKS["C02"] = dict(
    technique="Coq proof (memoizing evaluator of call DAGs = un-memoized reference semantics on every consistent store; second call runs nothing; cache transparency from C05) + differential runs of generated DAGs on all backends + recursive result-domain generator with type-aware equality",
    text="Theorems over Runner/Run.v for every call DAG, every store consistent with it and every context: a memoized call returns exactly what an un-memoized execution returns (values and memoized exceptions), a later call executes no body, consistency is preserved; "
         "with C05's theorem the same holds behind a cache of any size, and forgetting removes exactly that call. Implementation: DAGs on memory / filesystem / filesystem+cache (two sizes) vs the model; generated values over the documented result domain "
         "(incl. bool vs int, date vs timestamp, float32 vs float64, -0.0/NaN, empty containers, non-ASCII, numpy dtypes/shapes, pandas objects, partitions, results larger than the cache) x backends x {normal, ignore_result, force_local}: body counts, equality and type of first and later values, "
         "recorded result type vs value read back, forget; exception record/replay for rebuildable / non-rebuildable / function-local / nested / not-to-be-memoized classes. Also: on-disk partitions, numpy float scalars, pandas Timestamps (result type judged by an independent oracle), results dropped and collected between calls, exceptions of function-local classes, an exception recorded by one process and replayed by another in which the defining module is not imported yet; the first (computing) call raises the body's own exception; results carrying named time zones.",
    note=RUN_NOTE + "Pickle / pandas / numpy fidelity is an oracle for the model (modelled, not verified) and is what the value-domain part samples.",
    ref="6/C02")
CHECKS["C10"] = dict(
    technique="Coq proof (the memento returned by the memoizing evaluator equals a store-independent specification of the call tree, for all programs and all consistent stores; batch = element-wise) + differential runs over subsets of pre-memoized sub-calls + scheduled concurrent scenario",
    text="Theorem provenance_exact: for every call DAG, every consistent store and context, the recorded (or found) memento lists exactly the direct sub-calls in order with their keys and exactly the functions invoked transitively beneath the call, itself included; hence identical whatever was memoized before "
         "(computed, found before the run, found by the batch pre-check, failing), single or batch. Implementation: generated DAGs with repeated / batched / failing sub-calls and context overrides x all (or sampled) subsets of sub-calls memoized beforehand x backends, compared with the model and with the exact tree; "
         "plus the case 'found inside the per-call mutex' under a deterministic two-thread schedule. Also: sub-calls with date / time arguments (recorded argument hashes, re-read from disk); sub-calls made with ignore_result() singly and as a batch under every subset of pre-memoized sub-calls; sub-calls that fail without leaving a memento; resource handles.",
    note=RUN_NOTE + "Resource handles are exercised by C11's generator only, not by this model.",
    ref="6/C10")
CHECKS["C15"] = dict(
    technique="Coq proof (flipping 'make the sub-calls as one batch' anywhere leaves the whole run result unchanged: outcomes, store, executions, mementos, for all programs and stores) + root-level call_batch / map_over_range vs individual calls on twin stores",
    text="Theorem batch_eq_elementwise (no assumption on the store): bulk pre-check then element-by-element equals one-after-the-other for any mix of memoized, new, duplicated and failing elements; elements are transparent and run at most once. "
         "Implementation: batch-heavy DAGs vs the model; root-level batches (0-6 elements, duplicates, failures) x pre-memoized subsets x raise_first_exception x context args compared with individual calls on a twin store by position, store state and executions; map_over_range over lists, ranges and one-shot iterables with partial prefixes. Also: batches mixing Python-equal values (1 / 1.0 / True), elements whose result cannot be stored, several different pre-memoized elements (failures among them) on every kind of backend, raise_first_exception with a later failure memoized beforehand.",
    note=RUN_NOTE, ref="6/C15")
CHECKS["C16"] = dict(
    technique="Coq proof (the effective context is a component of every key; recorded sub-call keys = inherit-or-override of the caller's context, for all programs / stores) + context-heavy DAGs vs the model + direct separation / prevention checks",
    text="Theorems: nested calls are recorded under the caller's effective context unless the edge overrides it (the explicit empty override included), entries stored under one context are invisible under another, calls are transparent and served per context. "
         "Implementation: DAGs where most edges override the context (incl. on batched edges) under two root contexts on three backends vs the model; results under different contexts must be computed and then served separately; prevented calls must refuse nested calls with RuntimeError whether or not they are memoized. Also: prevention on inner edges, None-valued context entries, context values equal for Python (1 / True / 1.0).",
    note=RUN_NOTE + "'Bodies never receive context arguments' is observed (a generated body receiving one would raise TypeError), not modelled; with_prevent_further_calls is checked on the implementation only.",
    ref="6/C16")

CHECKS["C17"] = dict(
    technique="Coq proof (index of a stored merge chain = overlay of the links' own dictionaries, by induction on the chain; own/from-parent flags) + source facts (which index an in-process parent contributes) + differential runs over chains x parent provenances x staging kinds",
    text="Theorems over Storage/Partition.v: a partition reads back with exactly its keys and values; one merge = parent entries marked from_parent overlaid by own keys; for chains of any length, whether each parent was read back from the store or taken from this process, "
         "lookup in the stored index = the overlay of the links (own keys win, parent-only keys remain); refutation when an in-process parent only remembers the keys it wrote itself. Implementation: random chains of length 0-4 with overlapping keys, in-memory / on-disk staging, "
         "parent provenance {first call in this process, disk, memory cache}; every link read back four ways and compared with the model and the overlay law; parents re-read after their children are stored. Also: partitions handed on unchanged by another function, default-factory staging dicts, empty middle links, pandas members, parents taken from the memory cache as written (never re-read), parent-only keys holding None; 'stored' is judged by a fresh backend having nothing to execute; members that are partitions themselves; chains alternating between two clusters with different stores (theorems over Storage/PartitionStores.v); on-disk partitions built by assigning keys more than once.",
    note="Member values are small ints / strings / arrays / None identified by embedded ids; pickle fidelity of members is C02's oracle.",
    ref="6/C17")

CHECKS["C14"] = dict(
    technique="Coq proof (collected rule set = reachability in the reference graph, by soundness of saturation + completeness of a checked fixpoint; transitive / direct sets characterised) + differential runs over reference graphs (exhaustive for small N, random beyond) incl. enforcement of undeclared calls",
    text="Theorems over Version/Rules.v: for every program, once saturation is closed (a boolean evaluated on every case) the collected hash rules are exactly the rules reachable from the function; the reported transitive memento dependencies are exactly the memento functions reachable through memento functions and in-scope plain functions; "
         "the direct ones exactly those named in the body; no rule is collected twice. Implementation: ALL graphs on 1..2 (quick) / 1..3 (thorough) nodes of kinds {auto memento, pinned memento, plain} with every edge set (self loops, cycles), plus random graphs on 3-6 nodes with reference forms {bare, module attribute, alias, decorator-wrapped}; "
         "transitive / direct sets, function rule keys and dependency-graph edges compared with the model and with plain reachability; hidden dynamic calls outside the closure must raise UndeclaredDependencyError directly and through every modifier clone, also after the target was once legitimately passed as an argument. Also: references inside the argument of a dereferenced call, explicitly versioned intermediate nodes, __init__-module packages, memento functions behind class-based decorators and functools.lru_cache, hidden edges exercised through call_batch and map_over_range, memento functions of another package named through their module.",
    note="Name resolution is performed by the implementation on live objects; the model receives resolved edges. The enforcement half is decided by the harness (the model fixes which calls are outside the closure).",
    ref="6/C14")

CHECKS["C03"] = dict(
    technique="Coq proof (the digest input = rule contents in canonical key order is invariant under any reordering of reference iteration; keys identify rules) + differential fresh-interpreter runs across PYTHONHASHSEED / import order / definition order / query order, rule set vs model, second process executes no body",
    text="Theorems over Version/Rules.v: two presentations of a program that differ only in the order in which each function's references are iterated feed the same sequence of rule contents to the digest (collect is order-dependent as a list, the sorted list is not); rule sort keys are injective. "
         "Implementation: generated programs (memento / plain functions, variables, undefined names, cycles, aliases, module attributes, int-set and string-set constants, defaults, nested code) are loaded in fresh interpreters under different hash seeds, import orders, definition orders and version-query orders; "
         "versions, ordered rule lists and per-rule hashes must be identical, the rule set must be the model's, the version must be the digest of rule hashes in key order, and a second process against the same store must execute no body. Also: a second package with an out-of-scope helper, unorderable set globals, object-valued defaults, lambda helpers, plain helpers behind functools.partial / lru_cache objects, several functions reaching the same attributes of another module.",
    note="PYTHONHASHSEED values are sampled. sha256 and the byte-level content of each rule hash are not modelled (contents are abstract numbers); per-rule hashes are compared between processes instead.",
    ref="6/C03")

CHECKS["C01"] = dict(
    technique="Coq proof (equal digest input => equal un-memoized result for arbitrary body semantics; a store keyed by (function, version) never returns a stale result over any history of editions, by invariant; refutations for unhashed defaults and variable-width concatenation) + source facts + differential runs: edit histories delivered cross-process and in-process vs plain execution, version verdicts vs model",
    text="Theorems over Version/Rules.v + Version/Stale.v: for ANY semantics of bodies that depends on the code, the defaults and the values of referenced names, and ANY two editions: same reference structure and same digest input (rule contents in key order) imply the same result; with arbitrary structure the same from the keyed input (PARTIAL: the implementation's digest omits the keys); "
         "for any version function under which equal versions imply equal behaviour and any history of editions and calls against a persistent store, the memoizing evaluator (look-ups at every memento function, nested results stored) returns exactly what un-memoized evaluation of the current edition returns (invariant over the store); "
         "fixed-width concatenation is injective; refutations: defaults not hashed, variable-width rule hashes. Source facts: defaults hashed, explicit versions hashed to the common width. "
         "Implementation: generated programs x edit histories (bodies, constants incl. swapped constants, defaults, keyword-only defaults, set / string-set / tuple constants, nested code, call edges, variable values, explicit versions) delivered to fresh interpreters against one persistent store and inside one interpreter (reload / exec / setattr); "
         "every call compared with plain undecorated execution of the current edition (or UndeclaredDependencyError); every pair of editions: implementation's version-changed verdict = model's. Also: a second package (helpers of another package's memento function), nested scopes named like globals, builtins shadowed in the running process, object-valued defaults, lambda helpers, string literals inside generator expressions, same-named variables of two modules, helpers named only in the header (default value) of their user, dependencies declared by hand and re-bound in the running process, hidden calls of already memoized functions, tuple-valued and integer-keyed module variables, lists / dictionaries edited in place in the running process.",
    note="Body semantics is abstract in the model (any function of code, defaults and referenced values); sha256 truncation is treated as injective; symbols of the model are invocations (programs numbered topologically = recursion terminates). Histories are sampled.",
    ref="6/C01")

CHECKS["C13"] = dict(
    technique="Coq proof (state machine of the generation counter + version cache + per-rule change detection: every query answers with the from-scratch version, by an invariant over all event histories; key lemma: unchanged observations => same rule set and contents; refutation without identity comparison) + source facts + differential in-process event histories vs fresh interpreters",
    text="Theorems over Version/VCache.v: worlds map names to definitions with fresh stamps per executed definition; if no rule collected in an earlier world observes a change (variable value, identity of a plain / memento function, definedness), the from-scratch version is unchanged (reachability both ways + contents); "
         "for every history of Define / Alias / Query events, each query returns the from-scratch version of the current world (invariant J); refuted when memento-function rules only check 'still a memento function' (alias re-binding). Source facts: identity comparison in did_change; rule-less instances recompute. "
         "Implementation: generated programs x histories of 4-12 in-process events {redefine memento / plain, new default, rebind / mutate variable, define undefined name, memento <-> plain, rebind alias, clone, unregistered wrapper, change-then-clone} with version queries after every event, "
         "each answer compared with a fresh interpreter's version of the program as it stands; successive from-scratch versions compared with the model's version verdict. Also: builtin names defined later, definition as None, lists mutated inside tuples, clones made right after a change, mutable module variables used as default values and mutated in place (source fact code_hash_refreshed), clones made before / after such a mutation.",
    note="Not modelled in Coq: the version computed while a function is being decorated, clones / unregistered instances (they share or lack rules), the cluster lock; the harness exercises the first two against the implementation. Rebinding a variable of an unsupported type to a supported one is outside the property (untracked variable).",
    ref="6/C13")

CHECKS["C18"] = dict(
    technique="Coq proof (option resolution file vs argument, dump / rebuild round trip, first-match cluster resolution over repository lists of any length, environment dump round trip; refutations for an unread / undumped option) + source facts + exhaustive option matrix x delivery forms against the implementation incl. behavioural confirmation",
    text="Theorems over Config/Config.v: for every storage kind and option combination, building from a configuration equals building from the same constructor arguments; arguments override the file option by option; building from the dump of any reachable settings gives the settings back; "
         "a name resolves to c iff some repository defines it as c and no earlier one defines it (any list), to nothing iff none does; prepend wins, append loses; an environment rebuilt from its dump resolves every name to an equivalent cluster; refutations when memory_cache_mb is not read or metadata_path not dumped. "
         "Source facts: the option is read, the path is dumped, get_cluster returns at the first match. Implementation: ALL option combinations x {constructor arguments, inline dict, JSON files, YAML with template parameters}, all informative file x argument override pairs, "
         "to_dict and reconstruction of every backend, behavioural confirmation (where files appear, executions, cache service after removing files) incl. on the environment rebuilt from Environment.to_dict(), repository lists built four ways with look-ups between prepend / append. Also: special characters in template parameters, cluster keys different from names, fractional cache sizes, clusters given an explicit storage object over a configuration (constructor or later assignment), explicit read_only=False over a file saying true, one configuration object used twice, boolean / numeric options rendered from Python values in YAML templates.",
    note="Paths are compared as given strings; storage kinds are the registered ones (filesystem, memory, null) and runners local / null; plugin backends are out of scope.",
    ref="6/C18")

NOT_YET = {}

# scenarios added in the late rounds of seeded changes (11 to 15)
LATE = {
    "C02": "exception classes that compose their text in __str__ (message of the replayed memoized-exception); strings with \\r\\n / \\r / other line separators; arrays compared type-strictly (a memory map is not an ndarray).",
    "C05": "two calls under one override key with metadata stored with the data object; the identical result object memoized again (memento read through the cache); metadata keys that are prefixes of each other toggled between plain and stored-with-data.",
    "C12": "versions containing '#' on functions declared in dependencies=[...]; modifier clones of external stubs (versions containing '::'); a callee that loses its decorator but keeps its name; the name without its version.",
    "C13": "module variables as defaults of keyword-only parameters; a plain helper of another package given the memento decorator (first definition under that name).",
    "C14": "hidden calls back to a function already executing up the stack; a refused hidden call repeated without forgetting.",
    "C15": "batch elements naming an undeclared keyword.",
    "C16": "context arguments re-attached to a function that already carries Python-equal ones of another type; calls under context arguments forgotten through their memento.",
    "C17": "own values equal for Python to the parent's but of another type; on-disk partitions with many equal-sized own values; an own partition that was itself read back from the store.",
    "C18": "repository names repeated across prepend_repo / append_repo; the same template file loaded first with other parameters.",
    "C19": "a store whose result data object is missing, read through the read-only backend; a null-runner cluster's function called from inside a local-runner memento function.",
}
for _p, _t in LATE.items():
    CHECKS[_p]["text"] = CHECKS[_p]["text"].rstrip() + " Late rounds: " + _t


def main():
    props = [json.loads(l) for l in open(os.path.join(VERIF, "properties.jsonl"))]
    checks, na = [], []
    for p in props:
        pid = p["id"]
        if pid in CHECKS:
            c = CHECKS[pid]
            checks.append({
                "property_id": pid,
                "quick_cmd": "./check %s --tier quick" % pid,
                "thorough_cmd": "./check %s --tier thorough" % pid,
                "evidence_file": "/verif/evidence/%s.json" % pid,
                "replay_cmd_template": "./check %s --replay {path}" % pid,
                "engine": "coq-model+correspondence",
                "level_claimed": {"category": "proof", "text": c["text"], "design_ref": c["ref"]},
                "level_note": BASE_NOTE + c["note"],
                "technique": c["technique"],
            })
        else:
            na.append({"property_id": pid, "reason": NOT_YET.get(pid, "check not built yet in this round (planned: Coq model + correspondence, see DESIGN.md section 6); not claimed")})
    man = {
        "version": 1,
        "setup_cmd": "cd /verif && ./setup.sh",
        "hooks": {"guard": "TWOSIGMA_MEMENTO_VERIF", "enable": "no source hooks exist: checks observe /repo through public APIs, audit hooks and monkey-patching from the harness process; the guard variable is set by the checks but read by nothing in /repo",
                  "baseline_off_cmd": "cd /repo && /venv/bin/python -m pytest -ra -q -p no:cacheprovider --timeout=900 --continue-on-collection-errors",
                  "source_commits": [], "add_only": True},
        "engines": [{"name": "coq-model+correspondence", "path": "/verif/coq, /verif/harness, /verif/check",
                     "serves_properties": sorted(CHECKS),
                     "kind_free_text": "Coq 8.16 development (models, proofs, property files) + Python harness that regenerates source facts, drives the implementation, evaluates the model on the same inputs inside Coq and compares"}],
        "checks": checks,
        "not_applicable": na,
        "notes": "See DESIGN.md. KNOWN_FINDINGS.txt lists recorded findings and fixed defects.",
    }
    with open(os.path.join(VERIF, "MANIFEST.json"), "w") as f:
        json.dump(man, f, indent=1)
    print("checks:", len(checks), "not_applicable:", len(na))


if __name__ == "__main__":
    main()
