From Coq Require Import List Arith Bool Lia.
From Memento Require Import Config.Config.
Import ListNotations.

Definition full : scfg := {| reads_cache := true; dumps_meta := true |}.

(** an option given in the configuration has the effect of the same constructor argument *)
Theorem file_equals_args k o : build full k o no_opts = build full k no_opts o.
Proof. destruct k, o as [[p|] [m|] [c|] [r|]]; reflexivity. Qed.

(** explicit arguments override the file, option by option; absent ones fall back to it *)
Theorem args_override k file args :
  let e := build full k file args in
  e_ro e = pick (o_ro args) (o_ro file) false /\
  (k = Filesystem ->
     e_path e = pick (o_path args) (o_path file) 0 /\
     e_meta e = pick (o_meta args) (o_meta file) (e_path e) /\
     e_cache e = pick (o_cache args) (o_cache file) 0).
Proof.
  destruct k; simpl; (split; [reflexivity|]); try (intros; discriminate).
  intros _. split; [reflexivity|]. split; [reflexivity|].
  unfold pick. destruct (o_cache args), (o_cache file); reflexivity.
Qed.

(** building from the dump gives the same effective settings *)
Theorem dump_roundtrip k e : reachable_eff k e -> build full k (dump full k e) no_opts = e.
Proof.
  destruct e as [p m c r]. destruct k; simpl.
  - intros _. unfold pick. simpl.
    destruct (Nat.eqb_spec m p) as [->|Hn]; destruct (Nat.eqb_spec c 0) as [->|Hc]; reflexivity.
  - intros (-> & -> & ->). reflexivity.
  - intros (-> & -> & ->). reflexivity.
Qed.

Lemma build_reachable c k file args : reachable_eff k (build c k file args).
Proof. destruct k; simpl; auto. Qed.

(** cluster names resolve to the first repository, in priority order, that defines them *)
Theorem resolve_first name e c : resolve name e = Some c <->
  exists pre r post, e = pre ++ r :: post /\ Forall (fun r' => lookup name r' = None) pre /\ lookup name r = Some c.
Proof.
  induction e as [|r e IH]; simpl.
  - split; [discriminate|]. intros (pre & r & post & E & _). destruct pre; discriminate.
  - destruct (lookup name r) as [c'|] eqn:El.
    + split.
      * intros H. inversion H. subst. exists [], r, e. repeat split; auto.
      * intros (pre & r' & post & E & Hpre & Hl). destruct pre as [|r0 pre]; simpl in E; inversion E; subst.
        -- congruence.
        -- inversion Hpre. congruence.
    + rewrite IH. split.
      * intros (pre & r' & post & -> & Hpre & Hl). exists (r :: pre), r', post. repeat split; auto.
      * intros (pre & r' & post & E & Hpre & Hl). destruct pre as [|r0 pre]; simpl in E; inversion E; subst.
        -- congruence.
        -- inversion Hpre. exists pre, r', post. auto.
Qed.

Theorem resolve_none name e : resolve name e = None <-> Forall (fun r => lookup name r = None) e.
Proof.
  induction e as [|r e IH]; simpl; [split; auto|].
  destruct (lookup name r) eqn:El.
  - split; [discriminate|]. intros H. inversion H. congruence.
  - rewrite IH. split; [intros H; constructor; auto|intros H; inversion H; auto].
Qed.

Corollary prepend_wins name r e c : lookup name r = Some c -> resolve name (r :: e) = Some c.
Proof. intros H. simpl. rewrite H. reflexivity. Qed.

Corollary append_loses name r e c : resolve name e = Some c -> resolve name (e ++ [r]) = Some c.
Proof.
  induction e as [|r0 e IH]; simpl; [discriminate|]. destruct (lookup name r0); auto.
Qed.

(** an environment rebuilt from its dump resolves every name to an equivalent cluster *)
Definition env_ok (e : env) : Prop :=
  Forall (Forall (fun nc => reachable_eff (c_storage (snd nc)) (c_eff (snd nc)))) e.

Lemma lookup_load_dump name r : Forall (fun nc => reachable_eff (c_storage (snd nc)) (c_eff (snd nc))) r ->
  lookup name (map (fun nd => (fst nd, load_cluster full (snd nd))) (map (fun nc => (fst nc, dump_cluster full (snd nc))) r)) = lookup name r.
Proof.
  induction r as [|[n c] r IH]; intros H; simpl; [reflexivity|]. inversion H as [|? ? Hc Hr]; subst.
  destruct (Nat.eqb name n).
  - f_equal. destruct c as [k e rk]. unfold load_cluster, dump_cluster. simpl in *. rewrite (dump_roundtrip k e Hc). reflexivity.
  - apply IH. exact Hr.
Qed.

Theorem env_dump_roundtrip name e : env_ok e -> resolve name (load_env full (dump_env full e)) = resolve name e.
Proof.
  induction e as [|r e IH]; intros H; simpl; [reflexivity|]. inversion H as [|? ? Hr He]; subst.
  rewrite (lookup_load_dump name r Hr). destruct (lookup name r); [reflexivity|]. apply IH. exact He.
Qed.

(** refutations: what goes wrong when the source does not read / dump an option *)
Theorem cache_not_read_refuted :
  let c := {| reads_cache := false; dumps_meta := true |} in
  let o := {| o_path := None; o_meta := None; o_cache := Some 4; o_ro := None |} in
  build c Filesystem o no_opts <> build c Filesystem no_opts o /\
  build c Filesystem (dump c Filesystem (build c Filesystem no_opts o)) no_opts <> build c Filesystem no_opts o.
Proof. split; discriminate. Qed.

Theorem meta_not_dumped_refuted :
  let c := {| reads_cache := true; dumps_meta := false |} in
  let e := {| e_path := 1; e_meta := 2; e_cache := 0; e_ro := false |} in
  build c Filesystem (dump c Filesystem e) no_opts <> e.
Proof. discriminate. Qed.
