(** Declarative configuration (configuration.py, storage.py, storage_filesystem.py,
    storage_memory.py, storage_null.py, runner.py).

    A backend is built from a configuration dictionary (inline, or read from a JSON / YAML
    file: the same dictionary after loading) and explicit constructor arguments; options are
    optional in both. Paths are abstract identifiers (0 = the default data path). *)
From Coq Require Import List Arith Bool.
Import ListNotations.

Inductive skindc := Filesystem | Memory | Null.
Inductive rkindc := Local | NullRunner.

Record opts := { o_path : option nat; o_meta : option nat; o_cache : option nat; o_ro : option bool }.
Definition no_opts : opts := {| o_path := None; o_meta := None; o_cache := None; o_ro := None |}.

(** what the source does, as extracted from it: is memory_cache_mb read from the configuration,
    does to_dict emit metadata_path *)
Record scfg := { reads_cache : bool; dumps_meta : bool }.

(** effective settings of a storage backend: where data and metadata go, the size of the
    memory cache (0 = none), whether writes are suppressed *)
Record eff := { e_path : nat; e_meta : nat; e_cache : nat; e_ro : bool }.

Definition pick {A} (arg file : option A) (d : A) : A :=
  match arg with Some a => a | None => match file with Some f => f | None => d end end.

Definition build (c : scfg) (k : skindc) (file args : opts) : eff :=
  match k with
  | Filesystem =>
    let path := pick (o_path args) (o_path file) 0 in
    {| e_path := path;
       e_meta := pick (o_meta args) (o_meta file) path;
       e_cache := match o_cache args with
                  | Some n => n
                  | None => if reads_cache c then match o_cache file with Some n => n | None => 0 end else 0
                  end;
       e_ro := pick (o_ro args) (o_ro file) false |}
  | Memory | Null =>
    {| e_path := 0; e_meta := 0; e_cache := 0; e_ro := pick (o_ro args) (o_ro file) false |}
  end.

(** to_dict *)
Definition dump (c : scfg) (k : skindc) (e : eff) : opts :=
  match k with
  | Filesystem =>
    {| o_path := Some (e_path e);
       o_meta := if dumps_meta c then (if Nat.eqb (e_meta e) (e_path e) then None else Some (e_meta e)) else None;
       o_cache := if Nat.eqb (e_cache e) 0 then None else Some (e_cache e);
       o_ro := Some (e_ro e) |}
  | Memory | Null => {| o_path := None; o_meta := None; o_cache := None; o_ro := Some (e_ro e) |}
  end.

(** clusters, repositories, environments *)
Record cluster := { c_storage : skindc; c_eff : eff; c_runner : rkindc }.
Definition repo : Type := list (nat * cluster).           (* cluster name -> cluster *)
Definition env : Type := list repo.                       (* priority order *)

Fixpoint lookup (name : nat) (r : repo) : option cluster :=
  match r with [] => None | (n, c) :: rest => if Nat.eqb name n then Some c else lookup name rest end.

Fixpoint resolve (name : nat) (e : env) : option cluster :=
  match e with [] => None | r :: rest => match lookup name r with Some c => Some c | None => resolve name rest end end.

(** dump of an environment and reconstruction from the dump *)
Record dcluster := { d_storage : skindc; d_opts : opts; d_runner : rkindc }.
Definition dump_cluster (c : scfg) (cl : cluster) : dcluster :=
  {| d_storage := c_storage cl; d_opts := dump c (c_storage cl) (c_eff cl); d_runner := c_runner cl |}.
Definition load_cluster (c : scfg) (d : dcluster) : cluster :=
  {| c_storage := d_storage d; c_eff := build c (d_storage d) (d_opts d) no_opts; c_runner := d_runner d |}.
Definition dump_env (c : scfg) (e : env) : list (list (nat * dcluster)) :=
  map (map (fun nc => (fst nc, dump_cluster c (snd nc)))) e.
Definition load_env (c : scfg) (d : list (list (nat * dcluster))) : env :=
  map (map (fun nd => (fst nd, load_cluster c (snd nd)))) d.

(** effective settings a backend can have at all (what constructors produce) *)
Definition reachable_eff (k : skindc) (e : eff) : Prop :=
  match k with Filesystem => True | _ => e_path e = 0 /\ e_meta e = 0 /\ e_cache e = 0 end.

(** ---- correspondence support ---- *)
Definition eff_eqb (a b : eff) : bool :=
  Nat.eqb (e_path a) (e_path b) && Nat.eqb (e_meta a) (e_meta b) && Nat.eqb (e_cache a) (e_cache b) && Bool.eqb (e_ro a) (e_ro b).

Definition skind_of (n : nat) : skindc := match n with 0 => Filesystem | 1 => Memory | _ => Null end.

(** (kind, file options, argument options, what the implementation's backend ended up with) *)
Definition build_case (c : nat * opts * opts * eff) : option nat :=
  let '(k, file, args, got) := c in
  if eff_eqb (build {| reads_cache := true; dumps_meta := true |} (skind_of k) file args) got then None else Some 1.

(** (kind, effective settings, what the implementation's to_dict gave) *)
Definition oopt_eqb (a b : option nat) : bool :=
  match a, b with None, None => true | Some x, Some y => Nat.eqb x y | _, _ => false end.
Definition obool_eqb (a b : option bool) : bool :=
  match a, b with None, None => true | Some x, Some y => Bool.eqb x y | _, _ => false end.
Definition dump_case (c : nat * eff * opts) : option nat :=
  let '(k, e, got) := c in
  let d := dump {| reads_cache := true; dumps_meta := true |} (skind_of k) e in
  if oopt_eqb (o_path d) (o_path got) && oopt_eqb (o_meta d) (o_meta got) && oopt_eqb (o_cache d) (o_cache got) && obool_eqb (o_ro d) (o_ro got)
  then None else Some 2.

(** (cluster name, for every repository the names it defines with a tag, the tag found or None) *)
Definition resolve_case (c : nat * list (list (nat * nat)) * option nat) : option nat :=
  let '(name, repos, got) := c in
  let mk tag := {| c_storage := Memory; c_eff := {| e_path := 0; e_meta := 0; e_cache := tag; e_ro := false |}; c_runner := Local |} in
  let e := map (map (fun nt => (fst nt, mk (snd nt)))) repos in
  if oopt_eqb (option_map (fun cl => e_cache (c_eff cl)) (resolve name e)) got then None else Some 3.
