(** Executable model of [MementoCodec] (serialization.py): the cross-language JSON form of
    arguments (typed {type, value}), function references (nested partials), function references
    with arguments, invocation metadata, mementos, and versioned data-source keys.
    Decoders look members up by name (like the Python code) and recurse on what they find, so
    they carry a fuel argument; the theorems show fuel > depth suffices.
    Oracles: [isoformat] strings of dates/datetimes (never contain "Z"); float tokens;
    [FunctionReference.from_qualified_name] (C12) is the identity on the reference's parts. *)
From Coq Require Import List NArith ZArith String Ascii Bool.
From Memento Require Import Codec.Json Codec.ArgHash.
Import ListNotations.
Open Scope N_scope.

Fixpoint jget (k : ustr) (l : list (ustr * jv)) : option jv :=
  match l with
  | [] => None
  | (k', v) :: r => if ustr_eqb k k' then Some v else jget k r
  end.

(* ---------- datetimes: isoformat().replace("+00:00", "Z") and back ---------- *)

Definition utc_suffix : ustr := u "+00:00".

Fixpoint ends_with (s suf : ustr) : bool :=
  if ustr_eqb s suf then true else match s with [] => false | _ :: r => ends_with r suf end.

Fixpoint strip_suffix (s suf : ustr) : ustr :=
  if ustr_eqb s suf then [] else match s with [] => [] | c :: r => c :: strip_suffix r suf end.

Definition encode_dt (iso : ustr) : ustr :=
  if ends_with iso utc_suffix then strip_suffix iso utc_suffix ++ [90] else iso.   (* 90 = "Z" *)

Definition decode_dt (s : ustr) : ustr :=
  if ends_with s [90] then strip_suffix s [90] ++ utc_suffix else s.

(* re.match(r"^\d\d\d\d-\d\d-\d\d$") *)
Definition is_digit (c : N) : bool := (48 <=? c) && (c <=? 57).
Definition is_date_only (s : ustr) : bool :=
  match s with
  | [a; b; c; d; h1; e; f; h2; g; h] =>
    is_digit a && is_digit b && is_digit c && is_digit d && (h1 =? 45) && is_digit e && is_digit f
    && (h2 =? 45) && is_digit g && is_digit h
  | _ => false
  end.

(* ---------- arguments ---------- *)

Definition typed (t : string) (v : option jv) : jv :=
  match v with
  | Some x => JObj [(u "type", JStr (u t)); (u "value", x)]
  | None => JObj [(u "type", JStr (u t))]
  end.

Fixpoint encode_arg (a : arg) : jv :=
  match a with
  | ANone => typed "null"%string None
  | ABool b => typed "boolean"%string (Some (JBool b))
  | AStr s => typed "string"%string (Some (JStr s))
  | AInt z => typed "number"%string (Some (JInt z))
  | AFloat t => typed "number"%string (Some (JFloat t))
  | AFn qn pa pkw names =>
    typed "twosigma.memento.FunctionReference"
      (Some (JObj [(u "qualifiedName", JStr qn);
                   (u "partialArgs", JArr (map encode_arg pa));
                   (u "partialKwargs", JObj (map (fun kv => (fst kv, encode_arg (snd kv))) pkw));
                   (u "parameterNames", JArr (map JStr names))]))
  | AList l => typed "list_result"%string (Some (JArr (map encode_arg l)))
  | ADict l => typed "dictionary"%string (Some (JObj (map (fun kv => (fst kv, encode_arg (snd kv))) l)))
  | ADateTime iso => typed "timestamp"%string (Some (JStr (encode_dt iso)))
  | ADate iso => typed "date"%string (Some (JStr (encode_dt iso)))
  end.

Fixpoint opt_all {A} (l : list (option A)) : option (list A) :=
  match l with
  | [] => Some []
  | Some x :: r => match opt_all r with Some xs => Some (x :: xs) | None => None end
  | None :: _ => None
  end.

Definition jstrs (l : list jv) : option (list ustr) :=
  opt_all (map (fun j => match j with JStr s => Some s | _ => None end) l).

Fixpoint decode_arg (fuel : nat) (j : jv) : option arg :=
  match fuel with
  | O => None
  | S f =>
    let dlist (l : list jv) := opt_all (map (decode_arg f) l) in
    let dkw (l : list (ustr * jv)) :=
      opt_all (map (fun kv => match decode_arg f (snd kv) with Some a => Some (fst kv, a) | None => None end) l) in
    match j with
    | JObj members =>
      match jget (u "type") members with
      | Some (JStr t) =>
        if ustr_eqb t (u "null") then Some ANone else
        match jget (u "value") members with
        | None => None
        | Some v =>
          if ustr_eqb t (u "boolean") then match v with JBool b => Some (ABool b) | _ => None end
          else if ustr_eqb t (u "string") then match v with JStr s => Some (AStr s) | _ => None end
          else if ustr_eqb t (u "number") then
            match v with JInt z => Some (AInt z) | JFloat x => Some (AFloat x) | _ => None end
          else if ustr_eqb t (u "twosigma.memento.FunctionReference") then
            match v with
            | JObj fm =>
              match jget (u "qualifiedName") fm, jget (u "partialArgs") fm, jget (u "partialKwargs") fm,
                    jget (u "parameterNames") fm with
              | Some (JStr qn), Some (JArr pa), Some (JObj pkw), Some (JArr names) =>
                match dlist pa, dkw pkw, jstrs names with
                | Some pa', Some pkw', Some names' => Some (AFn qn pa' pkw' names')
                | _, _, _ => None
                end
              | _, _, _, _ => None
              end
            | _ => None
            end
          else if ustr_eqb t (u "list_result") then
            match v with JArr l => option_map AList (dlist l) | _ => None end
          else if ustr_eqb t (u "dictionary") then
            match v with JObj l => option_map ADict (dkw l) | _ => None end
          else if ustr_eqb t (u "date") || ustr_eqb t (u "timestamp") then
            match v with
            | JStr s => if is_date_only s then Some (ADate (decode_dt s)) else Some (ADateTime (decode_dt s))
            | _ => None
            end
          else None
        end
      | _ => None
      end
    | _ => None
    end
  end.

(* ---------- versioned data-source keys: "key#version", split at the LAST '#' ---------- *)

Definition hash_cp : N := 35.

Definition encode_vkey (k : ustr * ustr) : ustr := fst k ++ [hash_cp] ++ snd k.

(* index of the last '#': rfind *)
Fixpoint split_last (s : ustr) : option (ustr * ustr) :=
  match s with
  | [] => None
  | c :: r =>
    match split_last r with
    | Some (a, b) => Some (c :: a, b)
    | None => if c =? hash_cp then Some ([], r) else None
    end
  end.

(* the variant that splits at the FIRST '#' (what a mutated decoder would do) *)
Fixpoint split_first (s : ustr) : option (ustr * ustr) :=
  match s with
  | [] => None
  | c :: r => if c =? hash_cp then Some ([], r)
              else match split_first r with Some (a, b) => Some (c :: a, b) | None => None end
  end.

Definition decode_vkey (use_rfind : bool) (s : ustr) : option (ustr * ustr) :=
  if use_rfind then split_last s else split_first s.

(* ---------- references, invocation metadata, mementos ---------- *)

Record fnref := { f_qn : ustr; f_pargs : list arg; f_pkw : list (ustr * arg); f_names : list ustr }.

Definition encode_fnref (r : fnref) : jv :=
  JObj [(u "qualifiedName", JStr (f_qn r));
        (u "partialArgs", JArr (map encode_arg (f_pargs r)));
        (u "partialKwargs", JObj (map (fun kv => (fst kv, encode_arg (snd kv))) (f_pkw r)));
        (u "parameterNames", JArr (map JStr (f_names r)))].

Definition dec_list (fuel : nat) (l : list jv) := opt_all (map (decode_arg fuel) l).
Definition dec_kw (fuel : nat) (l : list (ustr * jv)) :=
  opt_all (map (fun kv => match decode_arg fuel (snd kv) with Some a => Some (fst kv, a) | None => None end) l).

Definition decode_fnref (fuel : nat) (j : jv) : option fnref :=
  match j with
  | JObj fm =>
    match jget (u "qualifiedName") fm, jget (u "partialArgs") fm, jget (u "partialKwargs") fm,
          jget (u "parameterNames") fm with
    | Some (JStr qn), Some (JArr pa), Some (JObj pkw), Some (JArr names) =>
      match dec_list fuel pa, dec_kw fuel pkw, jstrs names with
      | Some pa', Some pkw', Some names' => Some {| f_qn := qn; f_pargs := pa'; f_pkw := pkw'; f_names := names' |}
      | _, _, _ => None
      end
    | _, _, _, _ => None
    end
  | _ => None
  end.

Record fra := { r_fn : fnref; r_args : list arg; r_kwargs : list (ustr * arg); r_ctx : list (ustr * arg) }.

Definition encode_fra (x : fra) : jv :=
  JObj [(u "fnReference", encode_fnref (r_fn x));
        (u "args", JArr (map encode_arg (r_args x)));
        (u "kwargs", JObj (map (fun kv => (fst kv, encode_arg (snd kv))) (r_kwargs x)));
        (u "contextArgs", JObj (map (fun kv => (fst kv, encode_arg (snd kv))) (r_ctx x)))].

Definition decode_fra (fuel : nat) (j : jv) : option fra :=
  match j with
  | JObj m =>
    match jget (u "fnReference") m, jget (u "args") m, jget (u "kwargs") m, jget (u "contextArgs") m with
    | Some fr, Some (JArr a), Some (JObj k), Some (JObj c) =>
      match decode_fnref fuel fr, dec_list fuel a, dec_kw fuel k, dec_kw fuel c with
      | Some fr', Some a', Some k', Some c' => Some {| r_fn := fr'; r_args := a'; r_kwargs := k'; r_ctx := c' |}
      | _, _, _, _ => None
      end
    | _, _, _, _ => None
    end
  | _ => None
  end.

Record resource := { res_type : ustr; res_url : ustr; res_version : option ustr }.

Definition encode_resource (r : resource) : jv :=
  JObj [(u "resourceType", JStr (res_type r)); (u "url", JStr (res_url r));
        (u "version", match res_version r with Some v => JStr v | None => JNull end)].

Definition decode_resource (j : jv) : option resource :=
  match j with
  | JObj m =>
    match jget (u "resourceType") m, jget (u "url") m, jget (u "version") m with
    | Some (JStr t), Some (JStr url), Some (JStr v) => Some {| res_type := t; res_url := url; res_version := Some v |}
    | Some (JStr t), Some (JStr url), Some JNull => Some {| res_type := t; res_url := url; res_version := None |}
    | _, _, _ => None
    end
  | _ => None
  end.

Record memento := {
  m_time : ustr;                          (* isoformat of the time instant *)
  m_fra : fra;
  m_invocations : list fra;
  m_resources : list resource;
  m_runtime : string;                     (* float token of runtime.total_seconds() *)
  m_result_type : ustr;
  m_deps : list fnref;
  m_runner : jv;                          (* opaque dictionary, stored as is *)
  m_corr : ustr;
  m_content_key : option (ustr * ustr)
}.

Definition encode_memento (m : memento) : jv :=
  JObj [(u "time", JStr (encode_dt (m_time m)));
        (u "invocationMetadata",
           JObj [(u "fnReferenceWithArgs", encode_fra (m_fra m));
                 (u "invocations", JArr (map encode_fra (m_invocations m)));
                 (u "resources", JArr (map encode_resource (m_resources m)));
                 (u "runtimeSeconds", JFloat (m_runtime m));
                 (u "resultType", JStr (m_result_type m))]);
        (u "functionDependencies", JArr (map encode_fnref (m_deps m)));
        (u "runner", m_runner m);
        (u "correlationId", JStr (m_corr m));
        (u "contentKey", match m_content_key m with Some k => JStr (encode_vkey k) | None => JNull end)].

Definition decode_memento (use_rfind : bool) (fuel : nat) (j : jv) : option memento :=
  match j with
  | JObj m =>
    match jget (u "time") m, jget (u "invocationMetadata") m, jget (u "functionDependencies") m,
          jget (u "runner") m, jget (u "correlationId") m, jget (u "contentKey") m with
    | Some (JStr t), Some (JObj im), Some (JArr deps), Some runner, Some (JStr corr), Some ck =>
      match jget (u "fnReferenceWithArgs") im, jget (u "invocations") im, jget (u "resources") im,
            jget (u "runtimeSeconds") im, jget (u "resultType") im with
      | Some fr, Some (JArr invs), Some (JArr ress), Some (JFloat rt), Some (JStr rty) =>
        match decode_fra fuel fr, opt_all (map (decode_fra fuel) invs), opt_all (map decode_resource ress),
              opt_all (map (decode_fnref fuel) deps),
              (match ck with
               | JNull => Some None
               | JStr s => option_map Some (decode_vkey use_rfind s)
               | _ => None end) with
        | Some fr', Some invs', Some ress', Some deps', Some ck' =>
          Some {| m_time := decode_dt t; m_fra := fr'; m_invocations := invs'; m_resources := ress';
                  m_runtime := rt; m_result_type := rty; m_deps := deps'; m_runner := runner;
                  m_corr := corr; m_content_key := ck' |}
        | _, _, _, _, _ => None
        end
      | _, _, _, _, _ => None
      end
    | _, _, _, _, _, _ => None
    end
  | _ => None
  end.

(* ---------- the frozen cross-language wire format ---------- *)

Definition keys_are (names : list string) (j : jv) : bool :=
  match j with
  | JObj m => (fix go (ns : list string) (ms : list (ustr * jv)) : bool :=
                 match ns, ms with
                 | [], [] => true
                 | n :: ns', (k, _) :: ms' => ustr_eqb k (u n) && go ns' ms'
                 | _, _ => false
                 end) names m
  | _ => false
  end.

Definition member (k : string) (j : jv) : jv :=
  match j with JObj m => match jget (u k) m with Some v => v | None => JNull end | _ => JNull end.

Definition elems (j : jv) : list jv := match j with JArr l => l | _ => [] end.

Definition fnref_format (j : jv) : bool := keys_are ["qualifiedName"; "partialArgs"; "partialKwargs"; "parameterNames"]%string j.
Definition fra_format (j : jv) : bool :=
  keys_are ["fnReference"; "args"; "kwargs"; "contextArgs"]%string j && fnref_format (member "fnReference"%string j).

Definition memento_format (j : jv) : bool :=
  keys_are ["time"; "invocationMetadata"; "functionDependencies"; "runner"; "correlationId"; "contentKey"]%string j
  && keys_are ["fnReferenceWithArgs"; "invocations"; "resources"; "runtimeSeconds"; "resultType"]%string (member "invocationMetadata"%string j)
  && fra_format (member "fnReferenceWithArgs"%string (member "invocationMetadata"%string j))
  && forallb fra_format (elems (member "invocations"%string (member "invocationMetadata"%string j)))
  && forallb (keys_are ["resourceType"; "url"; "version"]%string) (elems (member "resources"%string (member "invocationMetadata"%string j)))
  && forallb fnref_format (elems (member "functionDependencies"%string j)).

(** typed argument encoding: {type, value} with a known tag (null has no value) *)
Definition known_tags : list string :=
  ["null"; "boolean"; "string"; "number"; "twosigma.memento.FunctionReference"; "list_result"; "dictionary";
   "timestamp"; "date"]%string.

Definition arg_format_top (j : jv) : bool :=
  match j with
  | JObj [(k1, JStr t)] => ustr_eqb k1 (u "type") && ustr_eqb t (u "null")
  | JObj [(k1, JStr t); (k2, _)] =>
    ustr_eqb k1 (u "type") && ustr_eqb k2 (u "value") && existsb (fun n => ustr_eqb t (u n)) known_tags
  | _ => false
  end.
