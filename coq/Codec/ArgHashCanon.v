(** C04, continued: the normalized JSON value that is hashed is equal for two normalized argument
    values exactly when their canonical forms (dictionaries ordered by key, at every depth) are equal. *)
From Coq Require Import List NArith ZArith String Ascii Bool Lia Permutation.
From Memento Require Import Codec.Json Codec.ArgHash Codec.ArgHashProofs Codec.WireProofs Codec.ArgHashInj.
Import ListNotations.
Open Scope N_scope.

(** canonical form of an argument value: members of every dictionary in key order *)
Fixpoint canon (a : arg) : arg :=
  match a with
  | AList l => AList (map canon l)
  | ADict l => ADict (sort_kv (map (fun kv => (fst kv, canon (snd kv))) l))
  | AFn q pa pkw n => AFn q (map canon pa) (sort_kv (map (fun kv => (fst kv, canon (snd kv))) pkw)) n
  | x => x
  end.

(** [enc] with the members of the tagged objects written in key order *)
Fixpoint enc' (a : arg) : jv :=
  match a with
  | ANone => JNull
  | ABool b => JBool b
  | AInt z => JInt z
  | AFloat t => JFloat t
  | AStr s => JStr s
  | ADateTime iso => JObj [(u "_mementoType", JStr (u "datetime")); (u "iso8601", JStr iso)]
  | ADate iso => JObj [(u "_mementoType", JStr (u "date")); (u "iso8601", JStr iso)]
  | AList l => JArr (map enc' l)
  | ADict l => JObj (map (fun kv => (fst kv, enc' (snd kv))) l)
  | AFn qn pa pkw names =>
    JObj [(u "_mementoType", JStr (u "FunctionReference"));
          (u "parameterNames", JArr (map JStr names));
          (u "partialArgs", match pa with [] => JNull | _ => JArr (map enc' pa) end);
          (u "partialKwargs", JObj (map (fun kv => (fst kv, enc' (snd kv))) pkw));
          (u "qualifiedName", JStr qn)]
  end.

Lemma insert_kv_map_values {A B} (f : A -> B) (kv : ustr * A) l :
  insert_kv (fst kv, f (snd kv)) (map (fun x => (fst x, f (snd x))) l)
  = map (fun x => (fst x, f (snd x))) (insert_kv kv l).
Proof.
  induction l as [|h t IH]; simpl; auto.
  destruct (ustr_leb (fst kv) (fst h)); simpl; auto. rewrite IH. reflexivity.
Qed.

Lemma sort_kv_map_values {A B} (f : A -> B) (l : list (ustr * A)) :
  sort_kv (map (fun x => (fst x, f (snd x))) l) = map (fun x => (fst x, f (snd x))) (sort_kv l).
Proof.
  unfold sort_kv. induction l as [|h t IH]; simpl; auto.
  rewrite IH. apply (insert_kv_map_values f h).
Qed.

Lemma sort2 {A} (a b : A) :
  sort_kv [(u "_mementoType", a); (u "iso8601", b)] = [(u "_mementoType", a); (u "iso8601", b)].
Proof. vm_compute. reflexivity. Qed.

Lemma sort5 {A} (a b c d e : A) :
  sort_kv [(u "_mementoType", a); (u "qualifiedName", b); (u "partialArgs", c); (u "partialKwargs", d); (u "parameterNames", e)]
  = [(u "_mementoType", a); (u "parameterNames", e); (u "partialArgs", c); (u "partialKwargs", d); (u "qualifiedName", b)].
Proof. vm_compute. reflexivity. Qed.

Lemma map_normalize_JStr l : map normalize (map JStr l) = map JStr l.
Proof. induction l; simpl; congruence. Qed.

Lemma map_map_values {A B C} (f : A -> B) (g : B -> C) (l : list (ustr * A)) :
  map (fun x => (fst x, g (snd x))) (map (fun x => (fst x, f (snd x))) l) = map (fun x => (fst x, g (f (snd x)))) l.
Proof. rewrite map_map. reflexivity. Qed.

Lemma map_ext_Forall {A B} (f g : A -> B) l : Forall (fun x => f x = g x) l -> map f l = map g l.
Proof. induction 1; simpl; congruence. Qed.

(** normalizing the encoding = encoding the canonical form *)
Theorem normalize_enc_canon : forall a, normalize (enc a) = enc' (canon a).
Proof.
  induction a using arg_ind'; try reflexivity.
  - (* list *) simpl. f_equal. rewrite !map_map. apply map_ext_Forall. exact H.
  - (* dict *) simpl. f_equal. rewrite <- (sort_kv_map_values enc'). rewrite !map_map. cbn [fst snd]. f_equal.
    apply map_ext_Forall. eapply Forall_impl; [|exact H]. intros [k v] Hv. simpl in *. congruence.
  - (* fn *) cbn [enc normalize map fst snd]. rewrite sort5. cbn [canon enc']. f_equal.
    assert (Hpa : map normalize (map enc pa) = map enc' (map canon pa)).
    { rewrite !map_map. apply map_ext_Forall. exact H. }
    assert (Hpk : sort_kv (map (fun kv => (fst kv, normalize (snd kv))) (map (fun kv => (fst kv, enc (snd kv))) pkw))
                  = map (fun kv => (fst kv, enc' (snd kv))) (sort_kv (map (fun kv => (fst kv, canon (snd kv))) pkw))).
    { rewrite <- (sort_kv_map_values enc'). rewrite !map_map. cbn [fst snd]. f_equal.
      apply map_ext_Forall. eapply Forall_impl; [|exact H0]. intros [k v] Hv. simpl in *. congruence. }
    repeat (f_equal; try assumption).
    + rewrite map_normalize_JStr. reflexivity.
    + destruct pa as [|x r]; [reflexivity|]. cbn [map normalize]. f_equal. exact Hpa.
Qed.

(* ---------- enc' is injective on tag-free values (same argument as for enc) ---------- *)

Definition inj_at' (a : arg) : Prop := forall b, tagfree a = true -> tagfree b = true -> enc' a = enc' b -> a = b.

Lemma map_enc'_inj l : Forall inj_at' l -> forall l', forallb tagfree l = true -> forallb tagfree l' = true ->
  map enc' l = map enc' l' -> l = l'.
Proof.
  induction 1 as [|x r Hx Hr IH]; intros [|y r'] H1 H2 E; simpl in *; try discriminate; auto.
  apply andb_true_iff in H1 as [H1a H1b]. apply andb_true_iff in H2 as [H2a H2b].
  injection E as E1 E2. f_equal; [apply Hx; auto | apply IH; auto].
Qed.

Lemma map_enc'_kv_inj (p : ustr * arg -> bool) l :
  Forall (fun kv => inj_at' (snd kv)) l -> forall l',
  (forall kv, p kv = true -> tagfree (snd kv) = true) ->
  forallb p l = true -> forallb p l' = true ->
  map (fun kv => (fst kv, enc' (snd kv))) l = map (fun kv => (fst kv, enc' (snd kv))) l' -> l = l'.
Proof.
  induction 1 as [|[k v] r Hx Hr IH]; intros [|[k' v'] r'] Hp H1 H2 E; simpl in *; try discriminate; auto.
  apply andb_true_iff in H1 as [H1a H1b]. apply andb_true_iff in H2 as [H2a H2b].
  injection E as E1 E2 E3. subst k'. f_equal.
  - f_equal. apply Hx; auto. apply (Hp (k, v)); auto. apply (Hp (k, v')); auto.
  - eapply IH; eauto.
Qed.

Lemma tag_member_not_tagfree' (l : list (ustr * arg)) (j : jv) rest :
  forallb (fun kv => negb (ustr_eqb (fst kv) tag) && tagfree (snd kv)) l = true ->
  map (fun kv => (fst kv, enc' (snd kv))) l = (tag, j) :: rest -> False.
Proof.
  destruct l as [|[k0 v0] r]; simpl; intros H E; [discriminate|].
  injection E as E1 _ _. subst k0. unfold tag in H. rewrite ustr_eqb_refl in H. simpl in H. discriminate.
Qed.

Theorem enc'_injective : forall a, inj_at' a.
Proof.
  induction a using arg_ind'; intros bb Ha Hb E; destruct bb; simpl in E; try discriminate E;
    try (injection E; intros; subst; reflexivity).
  - reflexivity.
  - exfalso. simpl in Hb. symmetry in E. injection E as E. eapply tag_member_not_tagfree'; eauto.
  - exfalso. simpl in Hb. symmetry in E. injection E as E. eapply tag_member_not_tagfree'; eauto.
  - injection E as E. f_equal. simpl in Ha, Hb. eapply map_enc'_inj; eauto.
  - exfalso. simpl in Ha. injection E as E. eapply tag_member_not_tagfree'; eauto.
  - exfalso. simpl in Ha. injection E as E. eapply tag_member_not_tagfree'; eauto.
  - injection E as E. f_equal. simpl in Ha, Hb.
    eapply (map_enc'_kv_inj (fun kv => negb (ustr_eqb (fst kv) tag) && tagfree (snd kv))); eauto.
    intros kv Hkv. apply andb_true_iff in Hkv. tauto.
  - exfalso. simpl in Ha. injection E as E. eapply tag_member_not_tagfree'; eauto.
  - exfalso. simpl in Hb. symmetry in E. injection E as E. eapply tag_member_not_tagfree'; eauto.
  - simpl in Ha, Hb. apply andb_true_iff in Ha as [Ha1 Ha2]. apply andb_true_iff in Hb as [Hb1 Hb2].
    injection E as En Epa Epk Eq.
    assert (qn = qn0) by congruence. subst.
    assert (names = pnames) by (apply map_JStr_inj; auto). subst.
    assert (pkw = pkw0).
    { eapply (map_enc'_kv_inj (fun kv => tagfree (snd kv))); eauto. }
    subst. f_equal.
    assert (Hm : map enc' pa = map enc' pargs).
    { destruct pa, pargs; simpl in Epa |- *; try discriminate Epa; auto. injection Epa; intros; congruence. }
    eapply map_enc'_inj; eauto.
Qed.

(* ---------- canonical forms of tag-free values are tag-free ---------- *)

Lemma forallb_perm {A} (p : A -> bool) l l' : Permutation l l' -> forallb p l = forallb p l'.
Proof.
  induction 1; simpl; auto.
  - congruence.
  - destruct (p x), (p y); reflexivity.
  - congruence.
Qed.

Lemma forallb_map_Forall {A B} (f : A -> B) (p : A -> bool) (q : B -> bool) l :
  Forall (fun x => p x = true -> q (f x) = true) l -> forallb p l = true -> forallb q (map f l) = true.
Proof.
  induction 1 as [|x r Hx Hr IH]; simpl; auto. intros H. apply andb_true_iff in H as [H1 H2].
  rewrite Hx by auto. simpl. auto.
Qed.

Theorem canon_tagfree : forall a, tagfree a = true -> tagfree (canon a) = true.
Proof.
  induction a using arg_ind'; simpl; auto.
  - (* list *) intros Hl. eapply forallb_map_Forall; eauto.
  - (* dict *) intros Hl. rewrite (forallb_perm _ _ _ (sort_perm _)).
    eapply (forallb_map_Forall (fun kv => (fst kv, canon (snd kv)))); [|exact Hl].
    eapply Forall_impl; [|exact H]. intros [k v] Hv Hp. simpl in *.
    apply andb_true_iff in Hp as [Hp1 Hp2]. rewrite Hp1. simpl. auto.
  - (* fn *) intros Hf. apply andb_true_iff in Hf as [Hf1 Hf2]. apply andb_true_iff. split.
    + eapply forallb_map_Forall; eauto.
    + rewrite (forallb_perm _ _ _ (sort_perm _)).
      eapply (forallb_map_Forall (fun kv => (fst kv, canon (snd kv)))); [|exact Hf2].
      eapply Forall_impl; [|exact H0]. intros [k v] Hv Hp. simpl in *. auto.
Qed.

(** the JSON value that is hashed is the same for two normalized values EXACTLY when their
    canonical forms are the same: the only thing the key forgets is the order of dictionary members *)
Theorem normalized_encoding_iff_canonical : forall a b,
  tagfree a = true -> tagfree b = true ->
  (normalize (enc a) = normalize (enc b) <-> canon a = canon b).
Proof.
  intros a b Ha Hb. rewrite !normalize_enc_canon. split.
  - intros E. apply enc'_injective; auto using canon_tagfree.
  - intros E. rewrite E. reflexivity.
Qed.

(** for the dictionaries of effective keyword arguments: same pre-image value iff the two calls bind
    the same canonical value to the same parameter names *)
Corollary same_hashed_value_iff_same_binding : forall (eff eff' : kwargs),
  tagfree (ADict eff) = true -> tagfree (ADict eff') = true ->
  (normalize (enc (ADict eff)) = normalize (enc (ADict eff'))
   <-> sort_kv (map (fun kv => (fst kv, canon (snd kv))) eff) = sort_kv (map (fun kv => (fst kv, canon (snd kv))) eff')).
Proof.
  intros eff eff' H H'. rewrite (normalized_encoding_iff_canonical _ _ H H'). simpl. split.
  - intros E. injection E. auto.
  - intros E. rewrite E. reflexivity.
Qed.

Example canon_witness :
  canon (ADict [(u "b", AInt 1); (u "a", ADict [(u "y", ANone); (u "x", AFloat "1.0")])])
  = ADict [(u "a", ADict [(u "x", AFloat "1.0"); (u "y", ANone)]); (u "b", AInt 1)].
Proof. vm_compute. reflexivity. Qed.
