(** C04: the memo key is canonical in the bound argument values. *)
From Coq Require Import List NArith ZArith String Ascii Bool Lia Permutation Sorted.
From Memento Require Import Codec.Json Codec.ArgHash.
Import ListNotations.
Open Scope N_scope.

(* ---------- the key order ---------- *)

Lemma ustr_eqb_eq a b : ustr_eqb a b = true <-> a = b.
Proof.
  revert b. induction a as [|x a IH]; destruct b as [|y b]; simpl; split; intros H; try discriminate; auto.
  - apply andb_true_iff in H as [H1 H2]. apply N.eqb_eq in H1. apply IH in H2. congruence.
  - inversion H; subst. rewrite N.eqb_refl. simpl. apply IH. reflexivity.
Qed.

Lemma ustr_eqb_refl a : ustr_eqb a a = true.
Proof. apply ustr_eqb_eq. reflexivity. Qed.

Lemma ustr_leb_total a b : ustr_leb a b = true \/ ustr_leb b a = true.
Proof.
  revert b. induction a as [|x a IH]; destruct b as [|y b]; simpl; auto.
  destruct (N.ltb_spec x y), (N.ltb_spec y x); auto; try lia.
Qed.

Lemma ustr_leb_trans a b c : ustr_leb a b = true -> ustr_leb b c = true -> ustr_leb a c = true.
Proof.
  revert b c. induction a as [|x a IH]; intros [|y b] [|z c]; simpl; auto; try discriminate.
  destruct (N.ltb_spec x y), (N.ltb_spec y x), (N.ltb_spec y z), (N.ltb_spec z y),
           (N.ltb_spec x z), (N.ltb_spec z x); intros; try discriminate; try lia; auto.
  eapply IH; eauto.
Qed.

Lemma ustr_leb_antisym a b : ustr_leb a b = true -> ustr_leb b a = true -> a = b.
Proof.
  revert b. induction a as [|x a IH]; intros [|y b]; simpl; auto; try discriminate.
  destruct (N.ltb_spec x y), (N.ltb_spec y x); intros; try discriminate; try lia.
  assert (x = y) by lia. subst. f_equal. apply IH; auto.
Qed.

(* ---------- insertion sort on keys ---------- *)

Section Sort.
Context {A : Type}.
Definition kle (a b : ustr * A) : Prop := ustr_leb (fst a) (fst b) = true.

Lemma insert_perm (kv : ustr * A) l : Permutation (insert_kv kv l) (kv :: l).
Proof.
  induction l as [|h t IH]; simpl; auto.
  destruct (ustr_leb (fst kv) (fst h)); auto.
  rewrite IH. apply perm_swap.
Qed.

Lemma sort_perm (l : list (ustr * A)) : Permutation (sort_kv l) l.
Proof.
  induction l as [|h t IH]; simpl; auto. rewrite insert_perm. auto.
Qed.

Lemma insert_sorted (kv : ustr * A) l : StronglySorted kle l -> StronglySorted kle (insert_kv kv l).
Proof.
  induction 1 as [|h t Hs IH Hall]; simpl; [repeat constructor|].
  destruct (ustr_leb (fst kv) (fst h)) eqn:E.
  - constructor; [constructor; auto|]. constructor; [exact E|].
    rewrite Forall_forall in *. intros x Hx. unfold kle. eapply ustr_leb_trans; [exact E|apply Hall; auto].
  - constructor; auto. rewrite Forall_forall in *. intros x Hx.
    apply (Permutation_in _ (insert_perm kv t)) in Hx. destruct Hx as [<-|Hx]; [|auto].
    unfold kle. destruct (ustr_leb_total (fst h) (fst kv)); congruence.
Qed.

Lemma sort_sorted (l : list (ustr * A)) : StronglySorted kle (sort_kv l).
Proof. induction l; simpl; [constructor|apply insert_sorted; auto]. Qed.

Definition nodupk (l : list (ustr * A)) : Prop := NoDup (map fst l).

Lemma nodupk_in_eq (l : list (ustr * A)) a b : nodupk l -> In a l -> In b l -> fst a = fst b -> a = b.
Proof.
  induction l as [|h t IH]; simpl; [tauto|]. intros Hnd. inversion Hnd as [|? ? Hni Hnd']; subst.
  intros [->|Ha] [->|Hb] E; auto.
  - exfalso. apply Hni. rewrite E. apply in_map; auto.
  - exfalso. apply Hni. rewrite <- E. apply in_map; auto.
Qed.

Lemma sorted_perm_eq (l l' : list (ustr * A)) :
  StronglySorted kle l -> StronglySorted kle l' -> Permutation l l' -> nodupk l -> l = l'.
Proof.
  revert l'. induction l as [|h t IH]; intros l' Hs Hs' Hp Hnd.
  - apply Permutation_nil in Hp. auto.
  - destruct l' as [|h' t']; [apply Permutation_sym, Permutation_nil in Hp; discriminate|].
    inversion Hs as [|? ? Hst Hall]; subst. inversion Hs' as [|? ? Hst' Hall']; subst.
    assert (h = h').
    { assert (Hin' : In h' (h :: t)) by (eapply Permutation_in; [apply Permutation_sym; eauto|left; auto]).
      assert (Hin : In h (h' :: t')) by (eapply Permutation_in; eauto; left; auto).
      destruct Hin as [E|Hin]; [auto|]. destruct Hin' as [E|Hin']; [auto|].
      rewrite Forall_forall in Hall, Hall'.
      apply (nodupk_in_eq (h :: t)); auto; [left; auto|right; auto|].
      apply ustr_leb_antisym; [apply Hall; auto|apply Hall'; auto]. }
    subst h'. f_equal. apply IH; auto.
    + eapply Permutation_cons_inv; eauto.
    + inversion Hnd; auto.
Qed.

(** sorting is canonical: any two orders of the same members give the same sorted list *)
Theorem sort_kv_canonical (l l' : list (ustr * A)) : Permutation l l' -> nodupk l -> sort_kv l = sort_kv l'.
Proof.
  intros Hp Hnd. apply sorted_perm_eq; try apply sort_sorted.
  - rewrite sort_perm, Hp. symmetry. apply sort_perm.
  - unfold nodupk. eapply Permutation_NoDup; [|exact Hnd]. apply Permutation_map. symmetry. apply sort_perm.
Qed.
End Sort.

(** the canonical JSON of an object does not depend on the order of its members, at any
    depth (normalize is applied recursively to every object) *)
Theorem normalize_obj_perm l l' :
  Permutation l l' -> NoDup (map fst l) -> normalize (JObj l) = normalize (JObj l').
Proof.
  intros Hp Hnd. simpl. f_equal. apply sort_kv_canonical.
  - apply Permutation_map. exact Hp.
  - unfold nodupk. rewrite map_map. simpl. exact Hnd.
Qed.

Lemma enc_dict_perm l l' :
  Permutation l l' -> NoDup (map fst l) -> normalized_json (enc (ADict l)) = normalized_json (enc (ADict l')).
Proof.
  intros Hp Hnd. unfold normalized_json. f_equal. simpl enc. apply normalize_obj_perm.
  - apply Permutation_map. exact Hp.
  - rewrite map_map. simpl. exact Hnd.
Qed.

(** the memo key's pre-image is invariant under the order of the keyword arguments *)
Theorem preimage_perm eff eff' :
  Permutation eff eff' -> NoDup (map fst eff) -> preimage eff = preimage eff'.
Proof. intros. unfold preimage. apply enc_dict_perm; auto. Qed.

(* ---------- keyword dictionaries as finite maps ---------- *)

Definition kw_equiv (a b : kwargs) : Prop := forall k, kw_lookup k a = kw_lookup k b.

Lemma kw_lookup_set k v l x :
  kw_lookup x (kw_set k v l) = if ustr_eqb x k then Some v else kw_lookup x l.
Proof.
  induction l as [|[k' v'] r IH]; simpl.
  - destruct (ustr_eqb x k); reflexivity.
  - destruct (ustr_eqb k k') eqn:E; simpl.
    + apply ustr_eqb_eq in E. subst. destruct (ustr_eqb x k'); reflexivity.
    + rewrite IH. destruct (ustr_eqb x k') eqn:E2; [|reflexivity].
      apply ustr_eqb_eq in E2. subst. destruct (ustr_eqb k' k) eqn:E3; [|reflexivity].
      apply ustr_eqb_eq in E3. subst. rewrite ustr_eqb_refl in E. discriminate.
Qed.

Lemma kw_set_keys k v l x : In x (map fst (kw_set k v l)) <-> x = k \/ In x (map fst l).
Proof.
  induction l as [|[k' v'] r IH]; simpl; [intuition|].
  destruct (ustr_eqb k k') eqn:E; simpl.
  - apply ustr_eqb_eq in E. subst. intuition.
  - rewrite IH. intuition.
Qed.

Lemma kw_set_nodup k v l : NoDup (map fst l) -> NoDup (map fst (kw_set k v l)).
Proof.
  induction l as [|[k' v'] r IH]; simpl; intros Hnd.
  - constructor; [simpl; tauto|constructor].
  - inversion Hnd as [|? ? Hni Hnd']; subst.
    destruct (ustr_eqb k k') eqn:E; simpl.
    + apply ustr_eqb_eq in E. subst. constructor; auto.
    + constructor; auto. rewrite kw_set_keys. intros [->|H]; [|auto].
      rewrite ustr_eqb_refl in E. discriminate.
Qed.

Lemma kw_lookup_in k v l : NoDup (map fst l) -> (kw_lookup k l = Some v <-> In (k, v) l).
Proof.
  induction l as [|[k' v'] r IH]; simpl; intros Hnd; [split; [discriminate|tauto]|].
  inversion Hnd as [|? ? Hni Hnd']; subst.
  destruct (ustr_eqb k k') eqn:E.
  - apply ustr_eqb_eq in E. subst. split.
    + intros H; inversion H; auto.
    + intros [H|H]; [inversion H; auto|]. exfalso. apply Hni. apply in_map_iff. exists (k', v). auto.
  - rewrite IH by auto. split; [auto|]. intros [H|H]; [|auto]. inversion H; subst.
    rewrite ustr_eqb_refl in E. discriminate.
Qed.

(** two keyword dictionaries that bind the same values to the same names have the same key *)
Theorem preimage_equiv a b :
  NoDup (map fst a) -> NoDup (map fst b) -> kw_equiv a b -> preimage a = preimage b.
Proof.
  intros Ha Hb He. apply preimage_perm; auto.
  apply NoDup_Permutation.
  - eapply NoDup_map_inv; eauto.
  - eapply NoDup_map_inv; eauto.
  - intros [k v]. rewrite <- !kw_lookup_in by auto. rewrite He. tauto.
Qed.

Lemma fold_set_nodup kw r :
  NoDup (map fst r) -> NoDup (map fst (fold_left (fun acc kv => kw_set (fst kv) (snd kv) acc) kw r)).
Proof. revert r. induction kw as [|[k v] kw IH]; simpl; intros r H; auto. apply IH. apply kw_set_nodup. auto. Qed.

Lemma fold_set_lookup kw r x :
  NoDup (map fst kw) ->
  kw_lookup x (fold_left (fun acc kv => kw_set (fst kv) (snd kv) acc) kw r)
  = match kw_lookup x kw with Some v => Some v | None => kw_lookup x r end.
Proof.
  revert r. induction kw as [|[k v] kw IH]; simpl; intros r Hnd; auto.
  inversion Hnd as [|? ? Hni Hnd']; subst. rewrite IH by auto. rewrite kw_lookup_set.
  destruct (ustr_eqb x k) eqn:E.
  - apply ustr_eqb_eq in E. subst.
    destruct (kw_lookup k kw) eqn:E2; auto.
    exfalso. apply Hni. apply kw_lookup_in in E2; auto. apply in_map_iff. exists (k, a). auto.
  - reflexivity.
Qed.

Lemma kw_lookup_perm kw kw' x :
  NoDup (map fst kw) -> Permutation kw kw' -> kw_lookup x kw = kw_lookup x kw'.
Proof.
  intros Hnd Hp.
  assert (Hnd' : NoDup (map fst kw')) by (eapply Permutation_NoDup; [apply Permutation_map; eauto|auto]).
  destruct (kw_lookup x kw) as [v|] eqn:E.
  - apply kw_lookup_in in E; auto. symmetry. apply kw_lookup_in; auto. eapply Permutation_in; eauto.
  - destruct (kw_lookup x kw') as [v|] eqn:E'; auto.
    apply kw_lookup_in in E'; auto. apply (Permutation_in _ (Permutation_sym Hp)) in E'.
    apply kw_lookup_in in E'; auto. congruence.
Qed.

(** keyword order does not matter: same effective kwargs (as a map), hence same key *)
Theorem effective_keyword_order params pkw pargs args kw kw' eff eff' :
  NoDup (map fst kw) -> Permutation kw kw' ->
  effective params pkw pargs args kw = Some eff -> effective params pkw pargs args kw' = Some eff' ->
  kw_equiv eff eff' /\ NoDup (map fst eff) /\ NoDup (map fst eff') /\ preimage eff = preimage eff'.
Proof.
  intros Hnd Hp. unfold effective.
  destruct (Nat.ltb _ _); [discriminate|].
  set (r1 := zip_set params pargs _).
  destruct (Nat.ltb _ _); [discriminate|].
  set (r2 := zip_set _ args r1).
  intros E E'. inversion E; inversion E'; subst. clear E E'.
  assert (Hnd' : NoDup (map fst kw')) by (eapply Permutation_NoDup; [apply Permutation_map; eauto|auto]).
  assert (Hr2 : NoDup (map fst r2)).
  { unfold r2, r1. clear.
    assert (Hz : forall names vals acc, NoDup (map fst acc) -> NoDup (map fst (zip_set names vals acc))).
    { induction names as [|n ns IH]; intros [|v vs] acc H; simpl; auto. apply IH. apply kw_set_nodup; auto. }
    apply Hz. apply Hz. apply fold_set_nodup. constructor. }
  assert (He : kw_equiv (fold_left (fun acc kv => kw_set (fst kv) (snd kv) acc) kw r2)
                        (fold_left (fun acc kv => kw_set (fst kv) (snd kv) acc) kw' r2)).
  { intros x. rewrite !fold_set_lookup by auto. rewrite (kw_lookup_perm kw kw' x Hnd Hp). reflexivity. }
  split; [exact He|]. split; [apply fold_set_nodup; auto|]. split; [apply fold_set_nodup; auto|].
  apply preimage_equiv; auto using fold_set_nodup.
Qed.

(** the body receives exactly the map the key was computed from (by construction of the
    runner: _filter_call with the effective kwargs; stated for the model) *)
Theorem body_gets_what_was_hashed params pkw pargs args kw ctx eff :
  effective params pkw pargs args kw = Some eff ->
  body_kwargs params pkw pargs args kw = Some eff /\
  call_preimage params pkw pargs args kw ctx = Some (preimage (with_ctx eff ctx)).
Proof. intros H. unfold body_kwargs, call_preimage. rewrite H. auto. Qed.

(** context arguments are part of the key: with a non-empty context the hashed dictionary has
    the extra member [_memento_context_args] *)
Lemma with_ctx_lookup eff ctx :
  ctx <> [] -> kw_lookup (u "_memento_context_args") (with_ctx eff ctx) = Some (ADict ctx).
Proof.
  intros H. unfold with_ctx. destruct ctx; [congruence|]. rewrite kw_lookup_set, ustr_eqb_refl. reflexivity.
Qed.
