(** C04, continued: every presentation of a call is equivalent to the all-keyword presentation of
    its own binding; partial positionals are call positionals; and the encoding that is hashed
    is injective on normalized (tag-free) values. *)
From Coq Require Import List NArith ZArith String Ascii Bool Lia Permutation.
From Memento Require Import Codec.Json Codec.ArgHash Codec.ArgHashProofs Codec.WireProofs.
Import ListNotations.
Open Scope N_scope.

(* ---------- presentations ---------- *)

Definition fold_set (kw r : kwargs) : kwargs := fold_left (fun acc kv => kw_set (fst kv) (snd kv) acc) kw r.

Lemma zip_set_nodup names vals acc : NoDup (map fst acc) -> NoDup (map fst (zip_set names vals acc)).
Proof.
  revert vals acc. induction names as [|n ns IH]; intros [|v vs] acc H; simpl; auto.
  apply IH. apply kw_set_nodup; auto.
Qed.

Theorem effective_nodup params pkw pargs args kw eff :
  effective params pkw pargs args kw = Some eff -> NoDup (map fst eff).
Proof.
  unfold effective. destruct (Nat.ltb _ _); [discriminate|]. destruct (Nat.ltb _ _); [discriminate|].
  intros E. inversion E; subst. apply fold_set_nodup. apply zip_set_nodup. apply zip_set_nodup.
  apply fold_set_nodup. constructor.
Qed.

Lemma kw_set_fresh k v l : ~ In k (map fst l) -> kw_set k v l = l ++ [(k, v)].
Proof.
  induction l as [|[k' v'] r IH]; simpl; intros H; auto.
  destruct (ustr_eqb k k') eqn:E.
  - apply ustr_eqb_eq in E. subst. exfalso. apply H. left. reflexivity.
  - rewrite IH; auto.
Qed.

Lemma fold_set_nodup_app l acc :
  NoDup (map fst (acc ++ l)) -> fold_set l acc = acc ++ l.
Proof.
  unfold fold_set. revert acc. induction l as [|[k v] r IH]; simpl; intros acc H.
  - rewrite app_nil_r. reflexivity.
  - rewrite kw_set_fresh.
    + rewrite IH; rewrite <- app_assoc; simpl; auto.
    + rewrite map_app in H. simpl in H. apply NoDup_remove_2 in H. intros Hin. apply H.
      apply in_or_app. left. exact Hin.
Qed.

Lemma zip_set_nil names acc : zip_set names [] acc = acc.
Proof. destruct names; reflexivity. Qed.

(** passing a binding entirely by keyword yields that very binding: so every presentation has the
    key of the all-keyword presentation of what it binds *)
Theorem effective_all_keyword params eff :
  NoDup (map fst eff) -> effective params [] [] [] eff = Some eff.
Proof.
  intros H. unfold effective. simpl. rewrite !zip_set_nil.
  change (fold_left (fun acc kv => kw_set (fst kv) (snd kv) acc) eff []) with (fold_set eff []).
  rewrite fold_set_nodup_app; [reflexivity|exact H].
Qed.

Theorem presentation_equals_all_keyword params pkw pargs args kw eff :
  effective params pkw pargs args kw = Some eff ->
  effective params [] [] [] eff = Some eff.
Proof. intros H. apply effective_all_keyword. eapply effective_nodup; eauto. Qed.

(** keywords bound by partial application and keywords of the call are one sequence of keywords *)
Theorem partial_keywords_are_keywords params pkw kw :
  effective params pkw [] [] kw = effective params [] [] [] (pkw ++ kw).
Proof.
  unfold effective. cbn [List.length]. rewrite !zip_set_nil.
  assert (H0 : forall n, Nat.ltb n 0 = false) by (intros n; apply PeanoNat.Nat.ltb_ge; lia).
  rewrite !H0. rewrite fold_left_app. reflexivity.
Qed.

(* ---------- partial positionals are positionals ---------- *)

Lemma kw_lookup_none k l : kw_lookup k l = None <-> ~ In k (map fst l).
Proof.
  induction l as [|[k' v'] r IH]; simpl.
  - split; auto.
  - destruct (ustr_eqb k k') eqn:E.
    + apply ustr_eqb_eq in E. subst. split; [discriminate|]. intros H. exfalso. apply H. left. reflexivity.
    + rewrite IH. split.
      * intros H [H1|H1]; [|auto]. subst. rewrite ustr_eqb_refl in E. discriminate.
      * intros H H1. apply H. right. exact H1.
Qed.

Lemma kw_has_false k l : kw_has k l = false <-> ~ In k (map fst l).
Proof.
  unfold kw_has. rewrite <- kw_lookup_none. destruct (kw_lookup k l); split; intros; congruence.
Qed.

Lemma zip_set_keys names vals acc x :
  In x (map fst (zip_set names vals acc)) <-> In x (firstn (List.length vals) names) \/ In x (map fst acc).
Proof.
  revert vals acc. induction names as [|n ns IH]; intros [|v vs] acc; simpl; try tauto.
  rewrite IH. rewrite kw_set_keys. intuition.
Qed.

Lemma filter_all_true {A} (p : A -> bool) l : (forall x, In x l -> p x = true) -> filter p l = l.
Proof.
  induction l as [|a r IH]; simpl; intros H; auto.
  rewrite H by (left; reflexivity). rewrite IH; auto.
Qed.

Lemma filter_skipn {A} (p : A -> bool) (l : list A) k :
  NoDup l -> (forall n, In n l -> (p n = false <-> In n (firstn k l))) -> filter p l = skipn k l.
Proof.
  revert k. induction l as [|a r IH]; intros k Hnd Hp.
  - destruct k; reflexivity.
  - destruct k as [|k].
    + simpl skipn. apply filter_all_true. intros x Hx. specialize (Hp x Hx). simpl in Hp.
      destruct (p x); auto. exfalso. apply Hp. reflexivity.
    + simpl. inversion Hnd as [|? ? Hni Hnd']; subst.
      assert (Ha : p a = false) by (apply Hp; [left; reflexivity|simpl; left; reflexivity]).
      rewrite Ha. apply IH; auto.
      intros n Hn. rewrite (Hp n (or_intror Hn)). simpl. split.
      * intros [H1|H1]; auto. subst. contradiction.
      * intros H1. right. exact H1.
Qed.

Lemma zip_set_app names v1 v2 acc :
  (List.length v1 <= List.length names)%nat ->
  zip_set names (v1 ++ v2) acc = zip_set (skipn (List.length v1) names) v2 (zip_set names v1 acc).
Proof.
  revert v1 acc. induction names as [|n ns IH]; intros [|v vs] acc H; simpl in *;
    first [reflexivity | lia | (apply IH; lia) | (destruct v2; reflexivity)].
Qed.

Theorem partial_positionals_are_positionals params pargs args kw :
  NoDup params ->
  effective params [] pargs args kw = effective params [] [] (pargs ++ args) kw.
Proof.
  intros Hnd. unfold effective. cbn [List.length fold_left]. rewrite !zip_set_nil.
  assert (H0 : forall n, Nat.ltb n 0 = false) by (intros n; apply PeanoNat.Nat.ltb_ge; lia).
  rewrite H0.
  assert (Hall : filter (fun n => negb (kw_has n [])) params = params) by (apply filter_all_true; reflexivity).
  rewrite Hall. rewrite app_length.
  destruct (Nat.ltb (List.length params) (List.length pargs)) eqn:E1.
  - apply PeanoNat.Nat.ltb_lt in E1.
    assert (E : Nat.ltb (List.length params) (List.length pargs + List.length args) = true) by (apply PeanoNat.Nat.ltb_lt; lia).
    rewrite E. reflexivity.
  - apply PeanoNat.Nat.ltb_ge in E1.
    assert (Hrem : filter (fun n => negb (kw_has n (zip_set params pargs []))) params = skipn (List.length pargs) params).
    { apply filter_skipn; auto. intros n Hn. rewrite negb_false_iff.
      destruct (kw_has n (zip_set params pargs [])) eqn:Eh.
      - split; auto. intros _.
        destruct (in_dec (list_eq_dec N.eq_dec) n (firstn (List.length pargs) params)) as [Hi|Hi]; auto.
        exfalso. assert (Hf : kw_has n (zip_set params pargs []) = false).
        { apply kw_has_false. rewrite zip_set_keys. simpl. tauto. }
        congruence.
      - split; [discriminate|]. intros Hi. exfalso. apply kw_has_false in Eh. apply Eh.
        rewrite zip_set_keys. left. exact Hi. }
    rewrite Hrem. rewrite skipn_length.
    destruct (Nat.ltb (List.length params - List.length pargs) (List.length args)) eqn:E2.
    + apply PeanoNat.Nat.ltb_lt in E2.
      assert (E : Nat.ltb (List.length params) (List.length pargs + List.length args) = true) by (apply PeanoNat.Nat.ltb_lt; lia).
      rewrite E. reflexivity.
    + apply PeanoNat.Nat.ltb_ge in E2.
      assert (E : Nat.ltb (List.length params) (List.length pargs + List.length args) = false) by (apply PeanoNat.Nat.ltb_ge; lia).
      rewrite E. rewrite zip_set_app by lia. reflexivity.
Qed.

(* ---------- the encoding that is hashed is injective on normalized (tag-free) values ---------- *)

Definition tag : ustr := u "_mementoType".

(** normalized values: no dictionary (at any depth) has a member named [_mementoType] — the
    argument normalization (decode after encode) turns such dictionaries into dates, datetimes
    or function references, so they never reach the hasher as dictionaries *)
Fixpoint tagfree (a : arg) : bool :=
  match a with
  | AList l => forallb tagfree l
  | ADict l => forallb (fun kv => negb (ustr_eqb (fst kv) tag) && tagfree (snd kv)) l
  | AFn _ pa pkw _ => forallb tagfree pa && forallb (fun kv => tagfree (snd kv)) pkw
  | _ => true
  end.

Definition inj_at (a : arg) : Prop := forall b, tagfree a = true -> tagfree b = true -> enc a = enc b -> a = b.

Lemma map_enc_inj l : Forall inj_at l -> forall l', forallb tagfree l = true -> forallb tagfree l' = true ->
  map enc l = map enc l' -> l = l'.
Proof.
  induction 1 as [|x r Hx Hr IH]; intros [|y r'] H1 H2 E; simpl in *; try discriminate; auto.
  apply andb_true_iff in H1 as [H1a H1b]. apply andb_true_iff in H2 as [H2a H2b].
  injection E as E1 E2. f_equal; [apply Hx; auto | apply IH; auto].
Qed.

Lemma map_enc_kv_inj (p : ustr * arg -> bool) l :
  Forall (fun kv => inj_at (snd kv)) l -> forall l',
  (forall kv, p kv = true -> tagfree (snd kv) = true) ->
  forallb p l = true -> forallb p l' = true ->
  map (fun kv => (fst kv, enc (snd kv))) l = map (fun kv => (fst kv, enc (snd kv))) l' -> l = l'.
Proof.
  induction 1 as [|[k v] r Hx Hr IH]; intros [|[k' v'] r'] Hp H1 H2 E; simpl in *; try discriminate; auto.
  apply andb_true_iff in H1 as [H1a H1b]. apply andb_true_iff in H2 as [H2a H2b].
  injection E as E1 E2 E3. subst k'. f_equal.
  - f_equal. apply Hx; auto. apply (Hp (k, v)); auto. apply (Hp (k, v')); auto.
  - eapply IH; eauto.
Qed.

Lemma map_JStr_inj (l l' : list ustr) : map JStr l = map JStr l' -> l = l'.
Proof.
  revert l'. induction l as [|x r IH]; intros [|y r'] E; simpl in *; try discriminate; auto.
  injection E as E1 E2. f_equal; auto.
Qed.

Lemma tag_member_not_tagfree (l : list (ustr * arg)) (j : jv) rest :
  forallb (fun kv => negb (ustr_eqb (fst kv) tag) && tagfree (snd kv)) l = true ->
  map (fun kv => (fst kv, enc (snd kv))) l = (tag, j) :: rest -> False.
Proof.
  destruct l as [|[k0 v0] r]; simpl; intros H E; [discriminate|].
  injection E as E1 _ _. subst k0. unfold tag in H. rewrite ustr_eqb_refl in H. simpl in H. discriminate.
Qed.

Lemma date_tags_differ : u "date" <> u "datetime".
Proof. vm_compute. congruence. Qed.
Lemma date_fn_tags_differ : u "date" <> u "FunctionReference".
Proof. vm_compute. congruence. Qed.
Lemma datetime_fn_tags_differ : u "datetime" <> u "FunctionReference".
Proof. vm_compute. congruence. Qed.

Theorem enc_injective : forall a, inj_at a.
Proof.
  induction a using arg_ind'; intros bb Ha Hb E; destruct bb; simpl in E; try discriminate E;
    try (injection E; intros; subst; reflexivity).
  - reflexivity.
  - (* date / dict *) exfalso. simpl in Hb. symmetry in E. injection E as E. eapply tag_member_not_tagfree; eauto.
  - (* datetime / dict *) exfalso. simpl in Hb. symmetry in E. injection E as E. eapply tag_member_not_tagfree; eauto.
  - (* list / list *) injection E as E. f_equal. simpl in Ha, Hb. eapply map_enc_inj; eauto.
  - (* dict / date *) exfalso. simpl in Ha. injection E as E. eapply tag_member_not_tagfree; eauto.
  - (* dict / datetime *) exfalso. simpl in Ha. injection E as E. eapply tag_member_not_tagfree; eauto.
  - (* dict / dict *) injection E as E. f_equal. simpl in Ha, Hb.
    eapply (map_enc_kv_inj (fun kv => negb (ustr_eqb (fst kv) tag) && tagfree (snd kv))); eauto.
    intros kv Hkv. apply andb_true_iff in Hkv. tauto.
  - (* dict / fn *) exfalso. simpl in Ha. injection E as E. eapply tag_member_not_tagfree; eauto.
  - (* fn / dict *) exfalso. simpl in Hb. symmetry in E. injection E as E. eapply tag_member_not_tagfree; eauto.
  - (* fn / fn *)
    simpl in Ha, Hb. apply andb_true_iff in Ha as [Ha1 Ha2]. apply andb_true_iff in Hb as [Hb1 Hb2].
    injection E as Eq Epa Epk En.
    assert (qn = qn0) by congruence. subst.
    assert (names = pnames) by (apply map_JStr_inj; auto). subst.
    assert (pkw = pkw0).
    { eapply (map_enc_kv_inj (fun kv => tagfree (snd kv))); eauto. }
    subst. f_equal.
    assert (Hm : map enc pa = map enc pargs).
    { destruct pa, pargs; simpl in Epa |- *; try discriminate Epa; auto. injection Epa; intros; congruence. }
    eapply map_enc_inj; eauto.
Qed.

(** without the restriction the encoding is NOT injective: a dictionary spelled like the tagged
    encoding of a date has the encoding (hence the key) of that date. The implementation agrees:
    its argument normalization turns that dictionary into the date before the body sees it. *)
Theorem enc_tagged_dict_collides :
  exists a b, a <> b /\ enc a = enc b /\ tagfree a = true /\ tagfree b = false.
Proof.
  exists (ADate (u "2020-01-02")), (ADict [(tag, AStr (u "date")); (u "iso8601", AStr (u "2020-01-02"))]).
  split; [discriminate|]. split; [reflexivity|]. split; vm_compute; reflexivity.
Qed.
