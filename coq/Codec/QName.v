(** Qualified names  [cluster::]module:function#version  (reference.py: FunctionReference.__init__,
    parse_qualified_name). The regular expression is not interpreted by a regex engine here;
    what it computes is described functionally, once for the pattern with [.*] cluster/module
    groups ([parse_greedy]) and once for the pattern with [[^#]*] groups ([parse_split]); which
    one the source uses is a source fact (the pattern literal), and that each description agrees
    with Python's [re] on its pattern is validated exhaustively on short strings every run. *)
From Coq Require Import List NArith Bool.
From Memento Require Import Codec.Json.
Import ListNotations.
Open Scope N_scope.

Definition colon : N := 58.
Definition hash : N := 35.

Fixpoint has (c : N) (s : ustr) : bool := match s with [] => false | x :: r => (x =? c) || has c r end.

(* split at the first '#': (head, Some version) *)
Fixpoint split_hash (s : ustr) : ustr * option ustr :=
  match s with
  | [] => ([], None)
  | c :: r => if c =? hash then ([], Some r) else let '(h, v) := split_hash r in (c :: h, v)
  end.

(* split at the last ':' *)
Fixpoint split_last_colon (s : ustr) : option (ustr * ustr) :=
  match s with
  | [] => None
  | c :: r =>
    match split_last_colon r with
    | Some (a, b) => Some (c :: a, b)
    | None => if c =? colon then Some ([], r) else None
    end
  end.

(** greedy optional cluster group: the LAST "::" whose remainder still contains a ':' *)
Fixpoint pick_cluster (h : ustr) : option (ustr * ustr) :=
  match h with
  | [] => None
  | c :: r =>
    match pick_cluster r with
    | Some (a, b) => Some (c :: a, b)
    | None =>
      match h with
      | c1 :: c2 :: rest => if (c1 =? colon) && (c2 =? colon) && has colon rest then Some ([], rest) else None
      | _ => None
      end
    end
  end.

Definition parts : Type := (option ustr * ustr * ustr * option ustr)%type.   (* cluster, module, function, version *)

(** the pattern whose cluster and module groups are '#'-free (written [^#] star) *)
Definition parse_split (s : ustr) : option parts :=
  let '(h, v) := split_hash s in
  match pick_cluster h with
  | Some (cl, rest) =>
    match split_last_colon rest with
    | Some (m, f) => Some (Some cl, m, f, v)
    | None => None
    end
  | None =>
    match split_last_colon h with
    | Some (m, f) => Some (None, m, f, v)
    | None => None
    end
  end.

(** the pattern whose cluster and module groups are dot-star
    cluster and module may swallow '#': the cluster ends at the last "::" of the WHOLE string
    whose remainder contains a ':', the module at the last ':' of that remainder, the function
    runs to the next '#'. *)
Definition parse_greedy (s : ustr) : option parts :=
  let after (rest : ustr) :=
    match split_last_colon rest with
    | Some (m, fv) => let '(f, v) := split_hash fv in Some (m, f, v)
    | None => None
    end in
  match pick_cluster s with
  | Some (cl, rest) => match after rest with Some (m, f, v) => Some (Some cl, m, f, v) | None => None end
  | None => match after s with Some (m, f, v) => Some (None, m, f, v) | None => None end
  end.

Definition parse (split_pattern : bool) (s : ustr) : option parts :=
  if split_pattern then parse_split s else parse_greedy s.

(** FunctionReference.__init__ for a reference built from parts (an external reference):
    module:function, '#' version, and the cluster prefix unless the name "already has one" —
    [prefix_first]: the test for "::" is made before the version is appended (source fact). *)
Fixpoint has_dcolon (s : ustr) : bool :=
  match s with
  | c1 :: ((c2 :: _) as r) => ((c1 =? colon) && (c2 =? colon)) || has_dcolon r
  | _ => false
  end.

Definition build (prefix_first : bool) (c : option ustr) (m f v : ustr) : ustr :=
  let base := m ++ [colon] ++ f in
  let versioned := base ++ [hash] ++ v in
  match c with
  | None => versioned
  | Some cl =>
    if prefix_first then (if has_dcolon base then base else cl ++ [colon; colon] ++ base) ++ [hash] ++ v
    else if has_dcolon versioned then versioned else cl ++ [colon; colon] ++ versioned
  end.

(** module and function names: non-empty, no ':' and no '#' (dotted identifiers) *)
Definition name_ok (s : ustr) : bool := negb (has colon s) && negb (has hash s) && negb (match s with [] => true | _ => false end).
Definition cluster_ok (s : ustr) : bool := negb (has hash s).

(** correspondence support: the exhaustive / random comparison with Python's re *)
Definition parts_eqb (a b : option parts) : bool :=
  let oeq (x y : option ustr) := match x, y with None, None => true | Some p, Some q => ustr_eqb p q | _, _ => false end in
  match a, b with
  | None, None => true
  | Some (c, m, f, v), Some (c', m', f', v') => oeq c c' && ustr_eqb m m' && ustr_eqb f f' && oeq v v'
  | _, _ => false
  end.

Definition re_case (c : bool * ustr * option parts) : option nat :=
  let '(pat, s, seen) := c in if parts_eqb (parse pat s) seen then None else Some 0%nat.

(** ---- resolving a stored reference against the functions present now
    (FunctionReference.from_qualified_name): a function that is present with the same version
    is a local reference; anything else — edited, renamed, removed, moved — is an external
    reference. [ext_requires_cluster]: does the external stub insist on a cluster name
    (source fact: the assertion in UnboundExternalMementoFunction). *)
Inductive resolved := RLocal (p : parts) | RExternal (p : parts) | RError.

(* registry: (module, function) -> current version *)
Definition registry := list (ustr * ustr * ustr).

Fixpoint reg_version (m f : ustr) (r : registry) : option ustr :=
  match r with
  | [] => None
  | (m', f', v) :: t => if ustr_eqb m m' && ustr_eqb f f' then Some v else reg_version m f t
  end.

Definition resolve (split_pattern ext_requires_cluster : bool) (r : registry) (qn : ustr) : resolved :=
  match parse split_pattern qn with
  | None => RError
  | Some (c, m, f, v) =>
    match reg_version m f r, v with
    | Some cur, Some v' => if ustr_eqb cur v' then RLocal (c, m, f, v)
                           else match c with None => if ext_requires_cluster then RError else RExternal (c, m, f, v)
                                           | Some _ => RExternal (c, m, f, v) end
    | Some cur, None => RLocal (c, m, f, v)
    | None, _ => match c with None => if ext_requires_cluster then RError else RExternal (c, m, f, v)
                            | Some _ => RExternal (c, m, f, v) end
    end
  end.
