(** C12 (names): a qualified name built from admissible parts splits back into exactly them. *)
From Coq Require Import List NArith Bool Lia.
From Coq Require Import String.
From Memento Require Import Codec.Json Codec.ArgHash Codec.ArgHashProofs Codec.QName.
Import ListNotations.
Open Scope N_scope.

Lemma has_app c a b : has c (a ++ b) = has c a || has c b.
Proof. induction a as [|x a IH]; simpl; auto. rewrite IH. apply orb_assoc. Qed.

Lemma split_hash_app h v : has hash h = false -> split_hash (h ++ hash :: v) = (h, Some v).
Proof.
  induction h as [|c r IH]; simpl; intros H.
  - reflexivity.
  - apply orb_false_iff in H as [Hc Hr]. rewrite Hc, (IH Hr). reflexivity.
Qed.

Lemma slc_none f : has colon f = false -> split_last_colon f = None.
Proof.
  induction f as [|c r IH]; simpl; auto. intros H. apply orb_false_iff in H as [Hc Hr].
  rewrite (IH Hr), Hc. reflexivity.
Qed.

Lemma slc_app m f : has colon f = false -> split_last_colon (m ++ colon :: f) = Some (m, f).
Proof.
  intros Hf. induction m as [|c r IH]; simpl.
  - rewrite (slc_none f Hf). reflexivity.
  - rewrite IH. reflexivity.
Qed.

Lemma has_dcolon_cons c x r : has_dcolon (c :: x :: r) = ((c =? colon) && (x =? colon)) || has_dcolon (x :: r).
Proof. reflexivity. Qed.

Lemma pick_cluster_cons c r :
  pick_cluster (c :: r) =
  match pick_cluster r with
  | Some (a, b) => Some (c :: a, b)
  | None => match r with
            | c2 :: rest => if (c =? colon) && (c2 =? colon) && has colon rest then Some ([], rest) else None
            | [] => None
            end
  end.
Proof. destruct r; reflexivity. Qed.

Lemma pc_none s : has_dcolon s = false -> pick_cluster s = None.
Proof.
  induction s as [|c r IH]; auto. intros H.
  assert (Hr : has_dcolon r = false).
  { destruct r as [|c2 r2]; auto. rewrite has_dcolon_cons in H. apply orb_false_iff in H. tauto. }
  rewrite pick_cluster_cons, (IH Hr).
  destruct r as [|c2 rest]; auto. rewrite has_dcolon_cons in H. apply orb_false_iff in H as [H1 _].
  rewrite H1. reflexivity.
Qed.

Lemma no_dcolon_nocolon s : has colon s = false -> has_dcolon s = false.
Proof.
  induction s as [|c r IH]; auto. simpl. intros H. apply orb_false_iff in H as [Hc Hr].
  destruct r; auto. rewrite Hc. simpl. apply IH. exact Hr.
Qed.

Lemma no_dcolon_join a b : has colon a = false -> has colon b = false -> has_dcolon (a ++ colon :: b) = false.
Proof.
  intros Ha Hb. induction a as [|c r IH].
  - cbn [app]. destruct b as [|b0 b']; auto. cbn [has] in Hb. apply orb_false_iff in Hb as [Hb0 Hb'].
    rewrite has_dcolon_cons, Hb0, andb_false_r. cbn [orb]. apply no_dcolon_nocolon. cbn [has]. rewrite Hb0. exact Hb'.
  - simpl in Ha. apply orb_false_iff in Ha as [Hc Hr]. specialize (IH Hr).
    change ((c :: r) ++ colon :: b) with (c :: (r ++ colon :: b)).
    destruct (r ++ colon :: b) as [|x y] eqn:E; [destruct r; discriminate|].
    rewrite has_dcolon_cons, Hc. cbn [andb orb]. exact IH.
Qed.

Lemma pc_app cl rest :
  has colon rest = true -> has_dcolon (colon :: rest) = false ->
  pick_cluster (cl ++ colon :: colon :: rest) = Some (cl, rest).
Proof.
  intros Hc Hnd. induction cl as [|c r IH].
  - change ([] ++ colon :: colon :: rest) with (colon :: colon :: rest).
    rewrite pick_cluster_cons, (pc_none (colon :: rest) Hnd).
    rewrite N.eqb_refl, Hc. reflexivity.
  - change ((c :: r) ++ colon :: colon :: rest) with (c :: (r ++ colon :: colon :: rest)).
    rewrite pick_cluster_cons, IH. reflexivity.
Qed.

Lemma name_ok_spec s : name_ok s = true -> has colon s = false /\ has hash s = false /\ s <> [].
Proof.
  unfold name_ok. rewrite !andb_true_iff, !negb_true_iff. intros [[H1 H2] H3].
  repeat split; auto. intros ->. discriminate.
Qed.

Lemma base_facts m f : name_ok m = true -> name_ok f = true ->
  has colon (m ++ colon :: f) = true /\ has hash (m ++ colon :: f) = false /\
  has_dcolon (m ++ colon :: f) = false /\ has_dcolon (colon :: m ++ colon :: f) = false.
Proof.
  intros Hm Hf. destruct (name_ok_spec _ Hm) as (Hm1 & Hm2 & Hm3). destruct (name_ok_spec _ Hf) as (Hf1 & Hf2 & Hf3).
  repeat split.
  - rewrite has_app. cbn [has]. rewrite N.eqb_refl. cbn [orb]. apply orb_true_r.
  - rewrite has_app. cbn [has]. rewrite Hm2, Hf2. reflexivity.
  - apply no_dcolon_join; auto.
  - destruct m as [|m0 m']; [congruence|]. simpl in Hm1. apply orb_false_iff in Hm1 as [Hm0 Hm1'].
    change ((m0 :: m') ++ colon :: f) with (m0 :: (m' ++ colon :: f)).
    rewrite has_dcolon_cons, Hm0, andb_false_r. cbn [orb].
    change (m0 :: m' ++ colon :: f) with ((m0 :: m') ++ colon :: f). apply no_dcolon_join; auto.
    cbn [has]. rewrite Hm0. exact Hm1'.
Qed.

(** with the '#'-free cluster/module groups, for ANY version string (':' , '#', '::' included),
    any cluster without '#', and dotted-identifier module and function names *)
Theorem parse_build_cluster c m f v :
  cluster_ok c = true -> name_ok m = true -> name_ok f = true ->
  parse_split (build true (Some c) m f v) = Some (Some c, m, f, Some v).
Proof.
  intros Hc Hm Hf. destruct (base_facts m f Hm Hf) as (B1 & B2 & B3 & B4).
  unfold build. cbn [app]. rewrite B3. unfold parse_split.
  replace ((c ++ [colon; colon] ++ m ++ colon :: f) ++ hash :: v)
    with ((c ++ colon :: colon :: m ++ colon :: f) ++ hash :: v) by reflexivity.
  rewrite split_hash_app.
  2:{ rewrite has_app. unfold cluster_ok in Hc. apply negb_true_iff in Hc. rewrite Hc. simpl. exact B2. }
  rewrite pc_app by auto.
  rewrite slc_app; [reflexivity|]. apply name_ok_spec in Hf. tauto.
Qed.

Theorem parse_build_default m f v :
  name_ok m = true -> name_ok f = true ->
  parse_split (build true None m f v) = Some (None, m, f, Some v).
Proof.
  intros Hm Hf. destruct (base_facts m f Hm Hf) as (B1 & B2 & B3 & B4).
  unfold build. cbn [app]. unfold parse_split. rewrite split_hash_app by auto.
  rewrite (pc_none _ B3). rewrite slc_app; [reflexivity|]. apply name_ok_spec in Hf. tauto.
Qed.

(** the pattern with [.*] groups mis-splits a version containing ':' ... *)
Theorem greedy_version_colon_refuted :
  parse_greedy (build true None [109] [102] [49; 58; 50]) <> Some (None, [109], [102], Some [49; 58; 50]).
Proof. vm_compute. discriminate. Qed.

(** ... and testing for "::" after the version is appended drops the cluster of an external
    reference whose version contains "::" *)
Theorem prefix_after_version_refuted :
  parse_split (build false (Some [99]) [109] [102] [58; 58]) <> Some (Some [99], [109], [102], Some [58; 58]).
Proof. vm_compute. discriminate. Qed.

(** without '#'-freeness of the cluster the format itself is ambiguous: two different
    quadruples build the same string, so no parser can return both *)
Theorem cluster_hash_ambiguous :
  build true (Some (u "a:b#c")) (u "d") (u "e") (u "f") = build true None (u "a") (u "b") (u "c::d:e#f").
Proof. vm_compute. reflexivity. Qed.

(** reading a stored reference never errors, whatever happened to the function since: with
    names built from admissible parts and an external stub that accepts the default cluster *)
Theorem resolve_total r c m f v :
  (match c with Some cl => cluster_ok cl = true | None => True end) -> name_ok m = true -> name_ok f = true ->
  resolve true false r (build true c m f v) <> RError.
Proof.
  intros Hc Hm Hf. unfold resolve, parse.
  destruct c as [cl|].
  - rewrite parse_build_cluster by auto. destruct (reg_version m f r); [destruct (ustr_eqb _ v)|]; discriminate.
  - rewrite parse_build_default by auto. destruct (reg_version m f r); [destruct (ustr_eqb _ v)|]; discriminate.
Qed.

Theorem resolve_current_is_local r c m f v :
  (match c with Some cl => cluster_ok cl = true | None => True end) -> name_ok m = true -> name_ok f = true ->
  reg_version m f r = Some v ->
  resolve true false r (build true c m f v) = RLocal (c, m, f, Some v).
Proof.
  intros Hc Hm Hf Hr. unfold resolve, parse.
  destruct c as [cl|]; [rewrite parse_build_cluster by auto|rewrite parse_build_default by auto];
    rewrite Hr, ustr_eqb_refl; reflexivity.
Qed.

(** the assertion in the external stub makes the default cluster fail *)
Theorem default_cluster_refuted :
  resolve true true [] (build true None [109] [102] [49]) = RError.
Proof. vm_compute. reflexivity. Qed.
