(** Executable model of [ArgumentHasher] and of [FunctionReferenceWithArguments]'s effective
    keyword arguments (reference.py).
    The memo key is SHA-256 of [preimage]; the digest itself is applied by the harness
    (hashlib), so agreement is checked on the exact pre-image bytes. *)
From Coq Require Import List NArith ZArith String Ascii Bool.
From Memento Require Import Codec.Json.
Import ListNotations.
Open Scope N_scope.

(** the supported argument domain, already normalized (what [_decode (_encode x)] yields) *)
Inductive arg :=
| ANone
| ABool (b : bool)
| AInt (z : Z)
| AFloat (tok : string)                 (* repr() of the float *)
| AStr (s : ustr)
| ADate (iso : ustr)                    (* date.isoformat() *)
| ADateTime (iso : ustr)                (* datetime.isoformat(), with offset when aware *)
| AList (l : list arg)
| ADict (l : list (ustr * arg))
| AFn (qn : ustr) (pargs : list arg) (pkw : list (ustr * arg)) (pnames : list ustr).

Definition u (s : string) : ustr := map (fun c => N_of_ascii c) (list_ascii_of_string s).

(* ArgumentHasher._encode *)
Fixpoint enc (a : arg) : jv :=
  match a with
  | ANone => JNull
  | ABool b => JBool b
  | AInt z => JInt z
  | AFloat t => JFloat t
  | AStr s => JStr s
  | ADateTime iso => JObj [(u "_mementoType", JStr (u "datetime")); (u "iso8601", JStr iso)]
  | ADate iso => JObj [(u "_mementoType", JStr (u "date")); (u "iso8601", JStr iso)]
  | AList l => JArr (map enc l)
  | ADict l => JObj (map (fun kv => (fst kv, enc (snd kv))) l)
  | AFn qn pa pkw names =>
    JObj [(u "_mementoType", JStr (u "FunctionReference"));
          (u "qualifiedName", JStr qn);
          (u "partialArgs", match pa with [] => JNull | _ => JArr (map enc pa) end);
          (u "partialKwargs", JObj (map (fun kv => (fst kv, enc (snd kv))) pkw));
          (u "parameterNames", JArr (map JStr names))]
  end.

Definition kwargs := list (ustr * arg).

Fixpoint kw_lookup (k : ustr) (l : kwargs) : option arg :=
  match l with
  | [] => None
  | (k', v) :: r => if ustr_eqb k k' then Some v else kw_lookup k r
  end.

(* python dict assignment: overwrite in place, or append *)
Fixpoint kw_set (k : ustr) (v : arg) (l : kwargs) : kwargs :=
  match l with
  | [] => [(k, v)]
  | (k', v') :: r => if ustr_eqb k k' then (k, v) :: r else (k', v') :: kw_set k v r
  end.

Definition kw_has (k : ustr) (l : kwargs) : bool :=
  match kw_lookup k l with Some _ => true | None => false end.

Fixpoint zip_set (names : list ustr) (vals : list arg) (acc : kwargs) : kwargs :=
  match names, vals with
  | n :: ns, v :: vs => zip_set ns vs (kw_set n v acc)
  | _, _ => acc
  end.

(** FunctionReferenceWithArguments._compute_effective_kwargs: partial kwargs, then partial
    positionals bound to the first parameters, then call positionals bound to the parameters
    not yet bound, then call keywords. [None] = the ValueError for too many arguments. *)
Definition effective (params : list ustr) (pkw : kwargs) (pargs args : list arg) (kw : kwargs)
  : option kwargs :=
  if Nat.ltb (List.length params) (List.length pargs) then None else
  let r1 := zip_set params pargs (fold_left (fun acc kv => kw_set (fst kv) (snd kv) acc) pkw []) in
  let remaining := filter (fun n => negb (kw_has n r1)) params in
  if Nat.ltb (List.length remaining) (List.length args) then None else
  let r2 := zip_set remaining args r1 in
  Some (fold_left (fun acc kv => kw_set (fst kv) (snd kv) acc) kw r2).

(* _compute_effective_kwargs_with_context_args *)
Definition with_ctx (eff ctx : kwargs) : kwargs :=
  match ctx with
  | [] => eff
  | _ => kw_set (u "_memento_context_args") (ADict ctx) eff
  end.

(** the bytes that are hashed *)
Definition preimage (eff : kwargs) : string := normalized_json (enc (ADict eff)).

Definition call_preimage (params : list ustr) (pkw : kwargs) (pargs args : list arg) (kw ctx : kwargs)
  : option string :=
  match effective params pkw pargs args kw with
  | Some eff => Some (preimage (with_ctx eff ctx))
  | None => None
  end.

(** what the body receives: exactly the effective keyword arguments (without context args) *)
Definition body_kwargs := effective.

(** correspondence support: compare with the pre-image / body kwargs the implementation used *)
Fixpoint arg_eqb (fuel : nat) (a b : arg) : bool :=
  match fuel with
  | O => false
  | S f =>
    let leqb := fix leqb (x y : list arg) : bool :=
      match x, y with [], [] => true | p :: x', q :: y' => arg_eqb f p q && leqb x' y' | _, _ => false end in
    let keqb := fix keqb (x y : list (ustr * arg)) : bool :=
      match x, y with
      | [], [] => true
      | (k, p) :: x', (k', q) :: y' => ustr_eqb k k' && arg_eqb f p q && keqb x' y'
      | _, _ => false
      end in
    match a, b with
    | ANone, ANone => true
    | ABool x, ABool y => Bool.eqb x y
    | AInt x, AInt y => Z.eqb x y
    | AFloat x, AFloat y => String.eqb x y
    | AStr x, AStr y | ADate x, ADate y | ADateTime x, ADateTime y => ustr_eqb x y
    | AList x, AList y => leqb x y
    | ADict x, ADict y => keqb (sort_kv x) (sort_kv y)
    | AFn q pa pk n, AFn q' pa' pk' n' =>
      ustr_eqb q q' && leqb pa pa' && keqb (sort_kv pk) (sort_kv pk')
      && (fix seqb (x y : list ustr) := match x, y with [] , [] => true | p :: x', q0 :: y' => ustr_eqb p q0 && seqb x' y' | _, _ => false end) n n'
    | _, _ => false
    end
  end.

(** one case: signature + presentation, the pre-image the implementation hashed (as code
    points of an ASCII string) and the kwargs the body received; result: None = agreement,
    Some 0 = pre-image differs, Some 1 = body kwargs differ, Some 2 = one side rejected *)
Definition check_call (c : list ustr * kwargs * list arg * list arg * kwargs * kwargs * option (ustr * kwargs)) : option nat :=
  let '(params, pkw, pargs, args, kw, ctx, seen) := c in
  match effective params pkw pargs args kw, seen with
  | None, None => None
  | Some eff, Some (pre, body) =>
    if negb (ustr_eqb (u (preimage (with_ctx eff ctx))) pre) then Some 0%nat
    else if negb (arg_eqb 50 (ADict eff) (ADict body)) then Some 1%nat else None
  | _, _ => Some 2%nat
  end.
