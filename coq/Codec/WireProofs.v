(** C11: the JSON metadata codec round-trips and emits the fixed wire format. *)
From Coq Require Import List NArith ZArith String Ascii Bool Lia.
From Memento Require Import Codec.Json Codec.ArgHash Codec.ArgHashProofs Codec.Wire.
Import ListNotations.
Open Scope N_scope.

(* ---------- induction over arguments (nested lists) ---------- *)

Section ArgInd.
Variable P : arg -> Prop.
Hypothesis HNone : P ANone.
Hypothesis HBool : forall b, P (ABool b).
Hypothesis HInt : forall z, P (AInt z).
Hypothesis HFloat : forall t, P (AFloat t).
Hypothesis HStr : forall s, P (AStr s).
Hypothesis HDate : forall s, P (ADate s).
Hypothesis HDateTime : forall s, P (ADateTime s).
Hypothesis HList : forall l, Forall P l -> P (AList l).
Hypothesis HDict : forall l, Forall (fun kv => P (snd kv)) l -> P (ADict l).
Hypothesis HFn : forall qn pa pkw names, Forall P pa -> Forall (fun kv => P (snd kv)) pkw -> P (AFn qn pa pkw names).

Fixpoint arg_ind' (a : arg) : P a :=
  match a with
  | ANone => HNone | ABool b => HBool b | AInt z => HInt z | AFloat t => HFloat t | AStr s => HStr s
  | ADate s => HDate s | ADateTime s => HDateTime s
  | AList l => HList l ((fix go (l : list arg) : Forall P l :=
                           match l with [] => Forall_nil _ | x :: r => Forall_cons x (arg_ind' x) (go r) end) l)
  | ADict l => HDict l ((fix go (l : list (ustr * arg)) : Forall (fun kv => P (snd kv)) l :=
                           match l with [] => Forall_nil _ | x :: r => Forall_cons x (arg_ind' (snd x)) (go r) end) l)
  | AFn qn pa pkw names =>
    HFn qn pa pkw names
        ((fix go (l : list arg) : Forall P l :=
            match l with [] => Forall_nil _ | x :: r => Forall_cons x (arg_ind' x) (go r) end) pa)
        ((fix go (l : list (ustr * arg)) : Forall (fun kv => P (snd kv)) l :=
            match l with [] => Forall_nil _ | x :: r => Forall_cons x (arg_ind' (snd x)) (go r) end) pkw)
  end.
End ArgInd.

Definition maxl (l : list nat) : nat := fold_right Nat.max 0%nat l.

Fixpoint adepth (a : arg) : nat :=
  match a with
  | AList l => S (maxl (map adepth l))
  | ADict l => S (maxl (map (fun kv => adepth (snd kv)) l))
  | AFn _ pa pkw _ => S (Nat.max (maxl (map adepth pa)) (maxl (map (fun kv => adepth (snd kv)) pkw)))
  | _ => 1%nat
  end.

Lemma maxl_in x l : In x l -> (x <= maxl l)%nat.
Proof. induction l as [|y l IH]; simpl; [tauto|]. intros [->|H]; [lia|]. specialize (IH H). lia. Qed.

(* ---------- datetimes ---------- *)

Lemma ends_with_strip s suf : ends_with s suf = true -> strip_suffix s suf ++ suf = s.
Proof.
  induction s as [|c r IH]; cbn [ends_with strip_suffix].
  - destruct (ustr_eqb [] suf) eqn:E; intros H; [|discriminate].
    apply ustr_eqb_eq in E. subst. reflexivity.
  - destruct (ustr_eqb (c :: r) suf) eqn:E; intros H.
    + apply ustr_eqb_eq in E. subst. reflexivity.
    + cbn [app]. f_equal. apply IH. exact H.
Qed.

Lemma ends_with_app x suf : ends_with (x ++ suf) suf = true.
Proof.
  induction x as [|c r IH]; cbn [app].
  - destruct suf; cbn [ends_with]; rewrite ustr_eqb_refl; reflexivity.
  - cbn [ends_with]. destruct (ustr_eqb (c :: r ++ suf) suf); auto.
Qed.

Lemma length_neq_eqb (a b : ustr) : List.length a <> List.length b -> ustr_eqb a b = false.
Proof. intros H. destruct (ustr_eqb a b) eqn:E; auto. apply ustr_eqb_eq in E. subst. congruence. Qed.

Lemma strip_app x suf : strip_suffix (x ++ suf) suf = x.
Proof.
  induction x as [|c r IH]; cbn [app].
  - destruct suf; cbn [strip_suffix]; rewrite ustr_eqb_refl; reflexivity.
  - cbn [strip_suffix]. rewrite length_neq_eqb; [f_equal; exact IH|].
    cbn [List.length]. rewrite app_length. lia.
Qed.

(** [isoformat()] never yields a trailing "Z"; under that (oracle) fact the Z-suffix encoding
    round-trips *)
Lemma dt_roundtrip iso : ends_with iso [90] = false -> decode_dt (encode_dt iso) = iso.
Proof.
  intros HZ. unfold encode_dt. destruct (ends_with iso utc_suffix) eqn:E.
  - unfold decode_dt. rewrite ends_with_app, strip_app. apply ends_with_strip. exact E.
  - unfold decode_dt. rewrite HZ. reflexivity.
Qed.

Lemma last_char_not_digit_not_date x : is_date_only (x ++ [90]) = false.
Proof.
  unfold is_date_only.
  destruct x as [|a [|b [|c [|d [|e [|f [|g [|h [|i [|j [|k r]]]]]]]]]]]; simpl; auto.
  rewrite !andb_false_r. reflexivity.
Qed.

(* ---------- well-formed arguments (what isoformat produces) ---------- *)

Fixpoint wf_arg (a : arg) : Prop :=
  match a with
  | ADate s => is_date_only s = true
  | ADateTime s => is_date_only s = false /\ ends_with s [90] = false
  | AList l => (fix go (l : list arg) := match l with [] => True | x :: r => wf_arg x /\ go r end) l
  | ADict l => (fix go (l : list (ustr * arg)) := match l with [] => True | x :: r => wf_arg (snd x) /\ go r end) l
  | AFn _ pa pkw _ =>
    (fix go (l : list arg) := match l with [] => True | x :: r => wf_arg x /\ go r end) pa /\
    (fix go (l : list (ustr * arg)) := match l with [] => True | x :: r => wf_arg (snd x) /\ go r end) pkw
  | _ => True
  end.

Definition wf_list (l : list arg) : Prop := Forall wf_arg l.
Definition wf_kw (l : list (ustr * arg)) : Prop := Forall (fun kv => wf_arg (snd kv)) l.

Lemma wf_list_iff l :
  (fix go (l : list arg) := match l with [] => True | x :: r => wf_arg x /\ go r end) l <-> wf_list l.
Proof.
  induction l as [|x r IH].
  - split; intros H; [constructor|exact I].
  - split; intros H.
    + destruct H as [H1 H2]. constructor; [exact H1|apply IH; exact H2].
    + inversion H; subst. split; [assumption|apply IH; assumption].
Qed.
Lemma wf_kw_iff l :
  (fix go (l : list (ustr * arg)) := match l with [] => True | x :: r => wf_arg (snd x) /\ go r end) l <-> wf_kw l.
Proof.
  induction l as [|x r IH].
  - split; intros H; [constructor|exact I].
  - split; intros H.
    + destruct H as [H1 H2]. constructor; [exact H1|apply IH; exact H2].
    + inversion H; subst. split; [assumption|apply IH; assumption].
Qed.

Lemma ends_with_split s suf : ends_with s suf = true -> exists x, s = x ++ suf.
Proof. intros H. exists (strip_suffix s suf). symmetry. apply ends_with_strip. exact H. Qed.

Lemma date_only_len s : is_date_only s = true -> List.length s = 10%nat.
Proof.
  unfold is_date_only.
  destruct s as [|a [|b [|c [|d [|e [|f [|g [|h [|i [|j [|k r]]]]]]]]]]]; try discriminate. reflexivity.
Qed.

Lemma utc_suffix_not_date x : is_date_only (x ++ utc_suffix) = false.
Proof.
  destruct (is_date_only (x ++ utc_suffix)) eqn:E; auto.
  pose proof (date_only_len _ E) as Hl. rewrite app_length in Hl. simpl in Hl.
  destruct x as [|a [|b [|c [|d [|e r]]]]]; simpl in Hl; try lia.
  cbn in E. rewrite !andb_false_r in E. discriminate.
Qed.

Lemma date_only_no_Z s : is_date_only s = true -> ends_with s [90] = false /\ ends_with s utc_suffix = false.
Proof.
  intros H. split.
  - destruct (ends_with s [90]) eqn:E; auto. apply ends_with_split in E as [x ->].
    rewrite last_char_not_digit_not_date in H. discriminate.
  - destruct (ends_with s utc_suffix) eqn:E; auto. apply ends_with_split in E as [x ->].
    rewrite utc_suffix_not_date in H. discriminate.
Qed.

(* ---------- arguments round-trip ---------- *)

Lemma opt_all_map_some {A B} (f : A -> option B) (g : A -> B) l :
  Forall (fun x => f x = Some (g x)) l -> opt_all (map f l) = Some (map g l).
Proof. induction 1 as [|x l Hx Hl IH]; simpl; auto. rewrite Hx, IH. reflexivity. Qed.

Lemma map_id' {A} (l : list A) : map (fun x => x) l = l.
Proof. apply map_id. Qed.

Lemma jstrs_map l : jstrs (map JStr l) = Some l.
Proof.
  unfold jstrs. rewrite map_map. rewrite (opt_all_map_some _ (fun x => x)); [rewrite map_id; auto|].
  apply Forall_forall. auto.
Qed.

Theorem decode_encode_arg : forall a fuel, wf_arg a -> (adepth a <= fuel)%nat -> decode_arg fuel (encode_arg a) = Some a.
Proof.
  induction a using arg_ind'; intros fuel Hwf Hd; (destruct fuel as [|f]; [simpl in Hd; lia|]).
  - reflexivity.
  - reflexivity.
  - reflexivity.
  - reflexivity.
  - reflexivity.
  - (* date *)
    simpl in Hwf. destruct (date_only_no_Z _ Hwf) as [HZ HU].
    cbn [encode_arg typed]. unfold encode_dt. rewrite HU.
    change (decode_arg (S f) (JObj [(u "type", JStr (u "date")); (u "value", JStr s)]))
      with (if is_date_only s then Some (ADate (decode_dt s)) else Some (ADateTime (decode_dt s))).
    rewrite Hwf. unfold decode_dt. rewrite HZ. reflexivity.
  - (* datetime *)
    simpl in Hwf. destruct Hwf as [Hnd HZ].
    cbn [encode_arg typed].
    change (decode_arg (S f) (JObj [(u "type", JStr (u "timestamp")); (u "value", JStr (encode_dt s))]))
      with (if is_date_only (encode_dt s) then Some (ADate (decode_dt (encode_dt s))) else Some (ADateTime (decode_dt (encode_dt s)))).
    rewrite dt_roundtrip by auto.
    assert (E : is_date_only (encode_dt s) = false).
    { unfold encode_dt. destruct (ends_with s utc_suffix); [apply last_char_not_digit_not_date|auto]. }
    rewrite E. reflexivity.
  - (* list *)
    cbn [encode_arg typed].
    change (decode_arg (S f) (JObj [(u "type", JStr (u "list_result")); (u "value", JArr (map encode_arg l))]))
      with (option_map AList (opt_all (map (decode_arg f) (map encode_arg l)))).
    rewrite map_map. rewrite (opt_all_map_some _ (fun x => x)); [rewrite map_id; reflexivity|].
    simpl in Hwf. apply wf_list_iff in Hwf. unfold wf_list in Hwf. cbn [adepth] in Hd.
    rewrite Forall_forall in *. intros x Hx. apply H; auto.
    pose proof (maxl_in (adepth x) (map adepth l) (in_map adepth l x Hx)). lia.
  - (* dict *)
    cbn [encode_arg typed].
    change (decode_arg (S f) (JObj [(u "type", JStr (u "dictionary")); (u "value", JObj (map (fun kv => (fst kv, encode_arg (snd kv))) l))]))
      with (option_map ADict (opt_all (map (fun kv => match decode_arg f (snd kv) with Some a => Some (fst kv, a) | None => None end)
                                          (map (fun kv => (fst kv, encode_arg (snd kv))) l)))).
    rewrite map_map. rewrite (opt_all_map_some _ (fun x => x)); [rewrite map_id; reflexivity|].
    simpl in Hwf. apply wf_kw_iff in Hwf. unfold wf_kw in Hwf. cbn [adepth] in Hd.
    rewrite Forall_forall in *. intros [k v] Hx. cbn [fst snd].
    pose proof (H (k, v) Hx f) as Hk. cbn [snd] in Hk.
    rewrite Hk; [reflexivity|apply (Hwf (k, v) Hx)|].
    pose proof (maxl_in (adepth v) (map (fun kv => adepth (snd kv)) l)
                          (in_map (fun kv => adepth (snd kv)) l (k, v) Hx)). lia.
  - (* function reference *)
    cbn [encode_arg typed].
    change (decode_arg (S f) (JObj [(u "type", JStr (u "twosigma.memento.FunctionReference"));
             (u "value", JObj [(u "qualifiedName", JStr qn); (u "partialArgs", JArr (map encode_arg pa));
                               (u "partialKwargs", JObj (map (fun kv => (fst kv, encode_arg (snd kv))) pkw));
                               (u "parameterNames", JArr (map JStr names))])]))
      with (match opt_all (map (decode_arg f) (map encode_arg pa)),
                  opt_all (map (fun kv => match decode_arg f (snd kv) with Some a => Some (fst kv, a) | None => None end)
                               (map (fun kv => (fst kv, encode_arg (snd kv))) pkw)),
                  jstrs (map JStr names) with
            | Some pa', Some pkw', Some names' => Some (AFn qn pa' pkw' names')
            | _, _, _ => None end).
    simpl in Hwf. destruct Hwf as [Hw1 Hw2]. apply wf_list_iff in Hw1. apply wf_kw_iff in Hw2. unfold wf_list in Hw1. unfold wf_kw in Hw2. cbn [adepth] in Hd.
    rewrite !map_map, jstrs_map.
    rewrite (opt_all_map_some _ (fun x => x)); [rewrite map_id|].
    2:{ rewrite Forall_forall in *. intros x Hx. apply H; auto.
        pose proof (maxl_in (adepth x) (map adepth pa) (in_map adepth pa x Hx)). lia. }
    rewrite (opt_all_map_some _ (fun x => x)); [rewrite map_id; reflexivity|].
    rewrite Forall_forall in *. intros [k v] Hx. cbn [fst snd].
    pose proof (H0 (k, v) Hx f) as Hk. cbn [snd] in Hk.
    rewrite Hk; [reflexivity|apply (Hw2 (k, v) Hx)|].
    pose proof (maxl_in (adepth v) (map (fun kv => adepth (snd kv)) pkw)
                          (in_map (fun kv => adepth (snd kv)) pkw (k, v) Hx)). lia.
Qed.

(** the argument hash recomputed from the decoded arguments is the original one *)
Corollary arg_hash_preserved : forall eff fuel,
  wf_arg (ADict eff) -> (adepth (ADict eff) <= fuel)%nat ->
  option_map (fun a => match a with ADict e => preimage e | _ => EmptyString end)
             (decode_arg fuel (encode_arg (ADict eff))) = Some (preimage eff).
Proof. intros. rewrite decode_encode_arg by auto. reflexivity. Qed.

(* ---------- versioned keys ---------- *)

Lemma split_last_no_hash v : ~ In hash_cp v -> split_last v = None.
Proof.
  induction v as [|c r IH]; simpl; auto. intros H.
  rewrite IH by tauto. destruct (N.eqb_spec c hash_cp); [exfalso; apply H; auto|reflexivity].
Qed.

(** key#version splits back at the LAST '#': keys may themselves contain '#' *)
Theorem vkey_roundtrip k v : ~ In hash_cp v -> decode_vkey true (encode_vkey (k, v)) = Some (k, v).
Proof.
  intros Hv. unfold decode_vkey, encode_vkey; simpl fst; simpl snd.
  induction k as [|c r IH]; simpl.
  - rewrite split_last_no_hash by auto. reflexivity.
  - simpl in IH. rewrite IH. reflexivity.
Qed.

(** splitting at the first '#' is wrong as soon as the key contains one *)
Theorem vkey_find_refuted :
  decode_vkey false (encode_vkey (u "a#b", u "v1")) <> Some (u "a#b", u "v1").
Proof. vm_compute. discriminate. Qed.

(* ---------- emitted documents conform to the frozen wire format ---------- *)

Lemma forallb_map_true {A B} (f : A -> B) (p : B -> bool) l :
  (forall x, p (f x) = true) -> forallb p (map f l) = true.
Proof. intros H. induction l; simpl; auto. rewrite H, IHl. reflexivity. Qed.

Theorem emits_wire_format m : memento_format (encode_memento m) = true.
Proof.
  unfold memento_format, encode_memento.
  repeat (apply andb_true_iff; split); try reflexivity;
    cbn [member jget elems]; try (apply forallb_map_true; intros; reflexivity).
Qed.

Theorem emits_typed_args a : arg_format_top (encode_arg a) = true.
Proof. destruct a; reflexivity. Qed.

(* ---------- references, invocation metadata and mementos round-trip ---------- *)

Definition ldepth (l : list arg) : nat := maxl (map adepth l).
Definition kdepth (l : list (ustr * arg)) : nat := maxl (map (fun kv => adepth (snd kv)) l).

Lemma dec_list_enc l fuel : wf_list l -> (ldepth l <= fuel)%nat -> dec_list fuel (map encode_arg l) = Some l.
Proof.
  intros Hw Hd. unfold dec_list. rewrite map_map.
  rewrite (opt_all_map_some _ (fun x => x)); [rewrite map_id; reflexivity|].
  unfold wf_list in Hw. rewrite Forall_forall in *. intros x Hx. apply decode_encode_arg; auto.
  pose proof (maxl_in (adepth x) (map adepth l) (in_map adepth l x Hx)). unfold ldepth in Hd. lia.
Qed.

Lemma dec_kw_enc l fuel : wf_kw l -> (kdepth l <= fuel)%nat ->
  dec_kw fuel (map (fun kv => (fst kv, encode_arg (snd kv))) l) = Some l.
Proof.
  intros Hw Hd. unfold dec_kw. rewrite map_map.
  rewrite (opt_all_map_some _ (fun x => x)); [rewrite map_id; reflexivity|].
  unfold wf_kw in Hw. rewrite Forall_forall in *. intros [k v] Hx. cbn [fst snd].
  rewrite decode_encode_arg; [reflexivity|apply (Hw (k, v) Hx)|].
  pose proof (maxl_in (adepth v) (map (fun kv => adepth (snd kv)) l) (in_map (fun kv => adepth (snd kv)) l (k, v) Hx)).
  unfold kdepth in Hd. lia.
Qed.

Definition wf_fnref (fuel : nat) (r : fnref) : Prop :=
  wf_list (f_pargs r) /\ wf_kw (f_pkw r) /\ (ldepth (f_pargs r) <= fuel)%nat /\ (kdepth (f_pkw r) <= fuel)%nat.

Lemma decode_encode_fnref fuel r : wf_fnref fuel r -> decode_fnref fuel (encode_fnref r) = Some r.
Proof.
  intros (H1 & H2 & H3 & H4). destruct r as [qn pa pkw names]. cbn [f_qn f_pargs f_pkw f_names] in *.
  unfold decode_fnref, encode_fnref. cbn [f_qn f_pargs f_pkw f_names].
  change (jget (u "qualifiedName") _) with (Some (JStr qn)).
  change (jget (u "partialArgs") _) with (Some (JArr (map encode_arg pa))).
  change (jget (u "partialKwargs") _) with (Some (JObj (map (fun kv => (fst kv, encode_arg (snd kv))) pkw))).
  change (jget (u "parameterNames") _) with (Some (JArr (map JStr names))).
  cbv beta iota. rewrite dec_list_enc, dec_kw_enc, jstrs_map by auto. reflexivity.
Qed.

Definition wf_fra (fuel : nat) (x : fra) : Prop :=
  wf_fnref fuel (r_fn x) /\ wf_list (r_args x) /\ wf_kw (r_kwargs x) /\ wf_kw (r_ctx x) /\
  (ldepth (r_args x) <= fuel)%nat /\ (kdepth (r_kwargs x) <= fuel)%nat /\ (kdepth (r_ctx x) <= fuel)%nat.

Lemma decode_encode_fra fuel x : wf_fra fuel x -> decode_fra fuel (encode_fra x) = Some x.
Proof.
  intros (H0 & H1 & H2 & H3 & H4 & H5 & H6). destruct x as [fr a k c]. cbn [r_fn r_args r_kwargs r_ctx] in *.
  unfold decode_fra, encode_fra. cbn [r_fn r_args r_kwargs r_ctx].
  change (jget (u "fnReference") _) with (Some (encode_fnref fr)).
  change (jget (u "args") _) with (Some (JArr (map encode_arg a))).
  change (jget (u "kwargs") _) with (Some (JObj (map (fun kv => (fst kv, encode_arg (snd kv))) k))).
  change (jget (u "contextArgs") _) with (Some (JObj (map (fun kv => (fst kv, encode_arg (snd kv))) c))).
  cbv beta iota. rewrite decode_encode_fnref, dec_list_enc, !dec_kw_enc by auto. reflexivity.
Qed.

Lemma decode_encode_resource r : decode_resource (encode_resource r) = Some r.
Proof. destruct r as [t url [v|]]; reflexivity. Qed.

Definition wf_memento (fuel : nat) (m : memento) : Prop :=
  ends_with (m_time m) [90] = false /\ wf_fra fuel (m_fra m) /\ Forall (wf_fra fuel) (m_invocations m) /\
  Forall (wf_fnref fuel) (m_deps m) /\
  match m_content_key m with Some (_, v) => ~ In hash_cp v | None => True end.

(** every component of a memento survives encode -> decode: time instant, function reference,
    arguments, keyword and context arguments, invocations, resources, dependencies, runtime,
    result type, runner, correlation id and content key *)
Theorem decode_encode_memento fuel m :
  wf_memento fuel m -> decode_memento true fuel (encode_memento m) = Some m.
Proof.
  intros (Ht & Hf & Hi & Hd & Hk). destruct m as [t fr invs ress rt rty deps runner corr ck].
  cbn [m_time m_fra m_invocations m_resources m_runtime m_result_type m_deps m_runner m_corr m_content_key] in *.
  unfold decode_memento, encode_memento.
  cbn [m_time m_fra m_invocations m_resources m_runtime m_result_type m_deps m_runner m_corr m_content_key].
  change (jget (u "time") _) with (Some (JStr (encode_dt t))).
  match goal with |- context [jget (u "invocationMetadata") ?l] =>
    change (jget (u "invocationMetadata") l) with
      (Some (JObj [(u "fnReferenceWithArgs", encode_fra fr); (u "invocations", JArr (map encode_fra invs));
                   (u "resources", JArr (map encode_resource ress)); (u "runtimeSeconds", JFloat rt);
                   (u "resultType", JStr rty)])) end.
  match goal with |- context [jget (u "functionDependencies") ?l] =>
    change (jget (u "functionDependencies") l) with (Some (JArr (map encode_fnref deps))) end.
  match goal with |- context [jget (u "runner") ?l] => change (jget (u "runner") l) with (Some runner) end.
  match goal with |- context [jget (u "correlationId") ?l] => change (jget (u "correlationId") l) with (Some (JStr corr)) end.
  match goal with |- context [jget (u "contentKey") ?l] =>
    change (jget (u "contentKey") l) with (Some (match ck with Some k => JStr (encode_vkey k) | None => JNull end)) end.
  cbv beta iota.
  change (jget (u "fnReferenceWithArgs") _) with (Some (encode_fra fr)).
  change (jget (u "invocations") _) with (Some (JArr (map encode_fra invs))).
  change (jget (u "resources") _) with (Some (JArr (map encode_resource ress))).
  change (jget (u "runtimeSeconds") _) with (Some (JFloat rt)).
  change (jget (u "resultType") _) with (Some (JStr rty)).
  cbv beta iota. rewrite decode_encode_fra by auto.
  rewrite !map_map.
  rewrite (opt_all_map_some _ (fun x => x) invs); [rewrite map_id|].
  2:{ rewrite Forall_forall in *. intros x Hx. apply decode_encode_fra. auto. }
  rewrite (opt_all_map_some _ (fun x => x) ress); [rewrite map_id|].
  2:{ apply Forall_forall. intros x _. apply decode_encode_resource. }
  rewrite (opt_all_map_some _ (fun x => x) deps); [rewrite map_id|].
  2:{ rewrite Forall_forall in *. intros x Hx. apply decode_encode_fnref. auto. }
  rewrite dt_roundtrip by auto.
  destruct ck as [[k v]|]; [|reflexivity].
  rewrite vkey_roundtrip by auto. reflexivity.
Qed.
