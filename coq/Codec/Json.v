(** JSON values and Python's [json.dumps] rendering as used by [ArgumentHasher._normalized_json]
    (reference.py): no whitespace, [ensure_ascii] string escapes, objects printed in the order
    given (the caller sorts). Strings are lists of Unicode code points; the output is ASCII. *)
From Coq Require Import List NArith ZArith String Ascii Bool.
Import ListNotations.
Open Scope N_scope.

Definition ustr := list N.          (* a Python str as code points *)

Inductive jv :=
| JNull | JBool (b : bool)
| JInt (z : Z)
| JFloat (tok : string)            (* repr() token of a float: oracle *)
| JStr (s : ustr)
| JArr (l : list jv)
| JObj (l : list (ustr * jv)).

(* ---------- rendering ---------- *)

Definition hexdigit (n : N) : ascii :=
  match n with
  | 0 => "0" | 1 => "1" | 2 => "2" | 3 => "3" | 4 => "4" | 5 => "5" | 6 => "6" | 7 => "7"
  | 8 => "8" | 9 => "9" | 10 => "a" | 11 => "b" | 12 => "c" | 13 => "d" | 14 => "e" | _ => "f"
  end%char.

Definition hex4 (n : N) : string :=
  String (hexdigit ((n / 4096) mod 16)) (String (hexdigit ((n / 256) mod 16))
    (String (hexdigit ((n / 16) mod 16)) (String (hexdigit (n mod 16)) EmptyString))).

Definition uesc (n : N) : string := String "\"%char (String "u"%char (hex4 n)).

(* json.dumps(ensure_ascii=True) for one code point *)
Definition esc_cp (c : N) : string :=
  if c =? 34 then "\"""%string
  else if c =? 92 then "\\"%string
  else if c =? 10 then "\n"%string
  else if c =? 13 then "\r"%string
  else if c =? 9 then "\t"%string
  else if c =? 8 then "\b"%string
  else if c =? 12 then "\f"%string
  else if c <? 32 then uesc c
  else if c <? 127 then String (ascii_of_N c) EmptyString
  else if c <? 65536 then uesc c
  else let v := c - 65536 in (uesc (55296 + v / 1024) ++ uesc (56320 + v mod 1024))%string.

Definition render_str (s : ustr) : string :=
  (String """"%char (fold_right (fun c acc => esc_cp c ++ acc) (String """"%char EmptyString) s))%string.

(* decimal rendering of integers *)
Fixpoint digits_pos (fuel : nat) (n : N) (acc : string) : string :=
  match fuel with
  | O => acc
  | S f => let acc' := String (ascii_of_N (48 + n mod 10)) acc in
           if n / 10 =? 0 then acc' else digits_pos f (n / 10) acc'
  end.

Definition render_N (n : N) : string := digits_pos (S (N.to_nat (N.log2 n))) n EmptyString.

Definition render_Z (z : Z) : string :=
  match z with
  | Z0 => "0"%string
  | Zpos p => render_N (Npos p)
  | Zneg p => String "-"%char (render_N (Npos p))
  end.

Fixpoint join (sep : string) (l : list string) : string :=
  match l with
  | [] => EmptyString
  | [x] => x
  | x :: r => (x ++ sep ++ join sep r)%string
  end.

Fixpoint render (v : jv) : string :=
  match v with
  | JNull => "null"%string
  | JBool true => "true"%string
  | JBool false => "false"%string
  | JInt z => render_Z z
  | JFloat t => t
  | JStr s => render_str s
  | JArr l => ("[" ++ join "," (map render l) ++ "]")%string
  | JObj l => ("{" ++ join "," (map (fun kv => render_str (fst kv) ++ ":" ++ render (snd kv)) l) ++ "}")%string
  end.

(* ---------- ordering of keys: Python's str comparison = lexicographic on code points ---------- *)

Fixpoint ustr_leb (a b : ustr) : bool :=
  match a, b with
  | [], _ => true
  | _ :: _, [] => false
  | x :: a', y :: b' => if x <? y then true else if y <? x then false else ustr_leb a' b'
  end.

Fixpoint ustr_eqb (a b : ustr) : bool :=
  match a, b with
  | [], [] => true
  | x :: a', y :: b' => (x =? y) && ustr_eqb a' b'
  | _, _ => false
  end.

Fixpoint insert_kv {A} (kv : ustr * A) (l : list (ustr * A)) : list (ustr * A) :=
  match l with
  | [] => [kv]
  | h :: t => if ustr_leb (fst kv) (fst h) then kv :: l else h :: insert_kv kv t
  end.

(* sorted(obj.items(), key=lambda t: t[0]) — insertion sort (stable) *)
Definition sort_kv {A} (l : list (ustr * A)) : list (ustr * A) := fold_right insert_kv [] l.

(** normalization: sort the members of every object, recursively *)
Fixpoint normalize (v : jv) : jv :=
  match v with
  | JArr l => JArr (map normalize l)
  | JObj l => JObj (sort_kv (map (fun kv => (fst kv, normalize (snd kv))) l))
  | other => other
  end.

Definition normalized_json (v : jv) : string := render (normalize v).
