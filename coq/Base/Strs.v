(** String facts the storage layer relies on: keys of the form  name ++ "/" ++ rest. *)
From Coq Require Import List String Ascii Bool Arith Lia.
Import ListNotations.
Open Scope string_scope.

Definition is_slash (c : ascii) : bool := Ascii.eqb c "/"%char.

Fixpoint has_slash (s : string) : bool :=
  match s with
  | EmptyString => false
  | String c r => is_slash c || has_slash r
  end.

Lemma prefix_nil s : String.prefix "" s = true.
Proof. destruct s; reflexivity. Qed.

Lemma prefix_cons c1 s1 c2 s2 :
  String.prefix (String c1 s1) (String c2 s2) = Ascii.eqb c1 c2 && String.prefix s1 s2.
Proof.
  simpl. destruct (ascii_dec c1 c2) as [->|Hn].
  - rewrite Ascii.eqb_refl. reflexivity.
  - apply Ascii.eqb_neq in Hn. rewrite Hn. reflexivity.
Qed.

Lemma prefix_cons_nil c s : String.prefix (String c s) "" = false.
Proof. reflexivity. Qed.

(** [startswith (q ++ "/") (q' ++ "/" ++ h)] decides [q = q'] when neither name contains a
    slash: what makes function names that are prefixes of each other ('f' / 'f1') and versions
    that are prefixes of each other ('#1' / '#10') safe. *)
Lemma prefix_scope q q' h :
  has_slash q = false -> has_slash q' = false ->
  String.prefix (q ++ "/") (q' ++ "/" ++ h) = String.eqb q q'.
Proof.
  revert q'. induction q as [|c q IH]; intros q' Hq Hq'.
  - destruct q' as [|c' q']; cbn [append].
    + rewrite prefix_cons, Ascii.eqb_refl, prefix_nil. reflexivity.
    + cbn [has_slash] in Hq'. apply orb_false_iff in Hq' as [Hc' _]. unfold is_slash in Hc'.
      rewrite prefix_cons, Ascii.eqb_sym, Hc'. reflexivity.
  - cbn [has_slash] in Hq. apply orb_false_iff in Hq as [Hc Hq].
    destruct q' as [|c' q'].
    + cbn [append]. rewrite prefix_cons. unfold is_slash in Hc.
      rewrite Hc. reflexivity.
    + cbn [has_slash] in Hq'. apply orb_false_iff in Hq' as [Hc' Hq'].
      cbn [append]. rewrite prefix_cons. cbn [String.eqb]. rewrite IH by auto. reflexivity.
Qed.

Lemma append_slash_inj a a' b b' :
  has_slash a = false -> has_slash a' = false ->
  a ++ "/" ++ b = a' ++ "/" ++ b' -> a = a' /\ b = b'.
Proof.
  revert a'. induction a as [|c a IH]; intros a' Ha Ha' H.
  - destruct a' as [|c' a']; simpl in *.
    + inversion H; auto.
    + inversion H; subst. apply orb_false_iff in Ha' as [Hc _]. discriminate.
  - simpl in Ha. apply orb_false_iff in Ha as [Hc Ha].
    destruct a' as [|c' a']; simpl in *.
    + inversion H; subst. discriminate.
    + apply orb_false_iff in Ha' as [Hc' Ha']. inversion H; subst.
      destruct (IH a' Ha Ha' H2) as [-> ->]. auto.
Qed.

(** equal-length file-name prefixes (argument hashes) never capture each other's files *)
Lemma prefix_same_length h h' s :
  String.length h = String.length h' -> String.prefix h (h' ++ s) = true -> h = h'.
Proof.
  revert h'. induction h as [|c h IH]; intros h' Hl Hp.
  - destruct h'; [reflexivity|discriminate].
  - destruct h' as [|c' h']; [discriminate|]. cbn [append] in Hp. rewrite prefix_cons in Hp.
    apply andb_true_iff in Hp as [Hc Hp]. apply Ascii.eqb_eq in Hc. subst.
    f_equal. apply IH; auto.
Qed.

Lemma prefix_app_self h s : String.prefix h (h ++ s) = true.
Proof.
  induction h as [|c h IH]; [apply prefix_nil|]. cbn [append]. rewrite prefix_cons, Ascii.eqb_refl. exact IH.
Qed.
