(** C06: admitting an entry for a key WITHOUT first releasing the entry the key already has (what a
    batch admission path that trusts "these calls were just reported absent" does when a key occurs
    twice in the batch) breaks the cache's accounts; [put] always releases first. *)
From Coq Require Import List ZArith String Bool.
From Memento Require Import Storage.Cache.
Import ListNotations.
Open Scope Z_scope.

Definition admit_without_release (k : string) (m sz : Z) (c : cache) : cache :=
  let c2 := make_room (List.length (lru c)) sz c in
  {| budget := budget c2; usage := usage c2 + sz; lru := lru c2 ++ [k];
     tbl := set_key k {| esize := sz; ememento := m; evalue := 0; ehas := false |} (tbl c2);
     refs := refs c2 |}.

Theorem admit_without_release_refuted :
  let c1 := put {| p_evict_first := true; p_clear_ref := true |} "f/1" 1 0 16 false NoWeak (init 100) in
  let bad := admit_without_release "f/1" 1 16 c1 in
  let good := put {| p_evict_first := true; p_clear_ref := true |} "f/1" 1 0 16 false NoWeak c1 in
  usage bad = 32 /\ total (tbl bad) = 16 /\ lru bad = ["f/1"; "f/1"]%string /\
  usage good = 16 /\ total (tbl good) = 16 /\ lru good = ["f/1"]%string.
Proof. vm_compute. repeat split; reflexivity. Qed.
