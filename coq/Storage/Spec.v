(** The specification of a storage backend (C05): one dictionary of memoized calls keyed by
    (function name with version, argument hash), plus custom metadata per call.
    Deliberately the simplest thing one can write. No proofs here. *)
From Coq Require Import List ZArith String Bool.
From Memento Require Import Storage.Cache.
Import ListNotations.
Open Scope Z_scope.

Definition ckey : Type := (string * string)%type.   (* qualified name (with version), arg hash *)

Definition ckey_eqb (a b : ckey) : bool := String.eqb (fst a) (fst b) && String.eqb (snd a) (snd b).

Fixpoint klookup {A} (k : ckey) (t : list (ckey * A)) : option A :=
  match t with
  | [] => None
  | (k', e) :: r => if ckey_eqb k k' then Some e else klookup k r
  end.

Fixpoint kremove {A} (k : ckey) (t : list (ckey * A)) : list (ckey * A) :=
  match t with
  | [] => []
  | (k', e) :: r => if ckey_eqb k k' then kremove k r else (k', e) :: kremove k r
  end.

Definition kset {A} (k : ckey) (v : A) (t : list (ckey * A)) : list (ckey * A) := kremove k t ++ [(k, v)].

(** calls: key -> (memento id, result id).  meta: (key, metadata key) -> bytes id *)
Record dict := {
  calls : list (ckey * (Z * Z));
  meta  : list (ckey * list (string * Z))
}.

Definition dempty : dict := {| calls := []; meta := [] |}.

Inductive bop :=
| BMemoize (k : ckey) (m v sz : Z) (wr : wkind)
| BGetMemento (k : ckey)
| BReadResult (k : ckey) (sz : Z) (wr : wkind)   (* sz / wr: size and weak-referenceability of the stored result, used on a cache fill *)
| BIsMemoized (k : ckey)
| BForgetCall (k : ckey)
| BForgetFn (qn : string)
| BForgetAll
| BListFns
| BListMementos (qn : string)
| BWriteMeta (k : ckey) (mk : string) (b : Z)
| BReadMeta (k : ckey) (mk : string)
| BGc.

Inductive bout :=
| BNone
| BMem (m : option Z)
| BVal (v : option Z)           (* None: the call is not memoized *)
| BBool (b : bool)
| BFns (l : list string)
| BMems (l : list Z)
| BMeta (b : option Z).

Fixpoint add_once (s : string) (l : list string) : list string :=
  match l with
  | [] => [s]
  | x :: r => if String.eqb s x then l else x :: add_once s r
  end.

Definition fns_of (d : dict) : list string :=
  fold_left (fun acc kv => add_once (fst (fst kv)) acc) (calls d) [].

Definition dstep (d : dict) (o : bop) : dict * bout :=
  match o with
  | BMemoize k m v _ _ => ({| calls := kset k (m, v) (calls d); meta := meta d |}, BNone)
  | BGetMemento k => (d, BMem (option_map fst (klookup k (calls d))))
  | BReadResult k _ _ => (d, BVal (option_map snd (klookup k (calls d))))
  | BIsMemoized k => (d, BBool (match klookup k (calls d) with Some _ => true | None => false end))
  | BForgetCall k => ({| calls := kremove k (calls d); meta := kremove k (meta d) |}, BNone)
  | BForgetFn qn =>
    ({| calls := filter (fun kv => negb (String.eqb (fst (fst kv)) qn)) (calls d);
        meta := filter (fun kv => negb (String.eqb (fst (fst kv)) qn)) (meta d) |}, BNone)
  | BForgetAll => (dempty, BNone)
  | BListFns => (d, BFns (fns_of d))
  | BListMementos qn =>
    (d, BMems (map (fun kv => fst (snd kv))
                   (filter (fun kv => String.eqb (fst (fst kv)) qn) (calls d))))
  | BWriteMeta k mk b =>
    let old := match klookup k (meta d) with Some l => l | None => [] end in
    ({| calls := calls d; meta := kset k (set_key mk b old) (meta d) |}, BNone)
  | BReadMeta k mk =>
    (d, BMeta (match klookup k (meta d) with Some l => lookup mk l | None => None end))
  | BGc => (d, BNone)
  end.

Fixpoint drun (d : dict) (ops : list bop) : list bout :=
  match ops with
  | [] => []
  | o :: r => let '(d1, x) := dstep d o in x :: drun d1 r
  end.
