(** Cache transparency: [StorageBackendBase] with a write-through [MemoryCache] of any budget in
    front of a store that behaves like the dictionary answers every operation exactly as the
    dictionary alone does — for every history, provided [put] evicts the stale entry first and
    drops the stale weak reference (the two source facts). *)
From Coq Require Import List ZArith String Bool Lia.
From Memento Require Import Base.Strs Storage.Cache Storage.CacheProofs Storage.Spec Storage.Layer.
Import ListNotations.
Open Scope Z_scope.

(* ---------- generic assoc-list lookups ---------- *)

Lemma lookup_remove_key {A} k x (t : list (string * A)) :
  lookup x (remove_key k t) = if String.eqb x k then None else lookup x t.
Proof.
  induction t as [|[k' e] t IH]; simpl; [destruct (String.eqb x k); reflexivity|].
  destruct (String.eqb_spec k k') as [->|Hn]; simpl.
  - rewrite IH. destruct (String.eqb_spec x k'); reflexivity.
  - rewrite IH. destruct (String.eqb_spec x k') as [->|Hn2].
    + destruct (String.eqb_spec k' k); [congruence|reflexivity].
    + reflexivity.
Qed.

Lemma lookup_app {A} x (t1 t2 : list (string * A)) :
  lookup x (t1 ++ t2) = match lookup x t1 with Some e => Some e | None => lookup x t2 end.
Proof.
  induction t1 as [|[k e] t1 IH]; simpl; [reflexivity|]. destruct (String.eqb x k); auto.
Qed.

Lemma lookup_set_key {A} k (v : A) x t :
  lookup x (set_key k v t) = if String.eqb x k then Some v else lookup x t.
Proof.
  unfold set_key. rewrite lookup_app, lookup_remove_key. simpl.
  destruct (String.eqb x k); [reflexivity|]. destruct (lookup x t); reflexivity.
Qed.

Lemma lookup_filter {A} (p : string -> bool) x (t : list (string * A)) e :
  lookup x (filter (fun kv => p (fst kv)) t) = Some e -> p x = true /\ lookup x t = Some e.
Proof.
  induction t as [|[k e'] t IH]; simpl; [discriminate|].
  destruct (p k) eqn:Hp; simpl.
  - destruct (String.eqb_spec x k) as [->|Hn]; [intros H; inversion H; auto|auto].
  - intros H. destruct (IH H) as [H1 H2]. split; auto.
    destruct (String.eqb_spec x k) as [->|Hn]; [congruence|auto].
Qed.

Lemma ckey_eqb_spec a b : reflect (a = b) (ckey_eqb a b).
Proof.
  destruct a as [a1 a2], b as [b1 b2]. unfold ckey_eqb; simpl.
  destruct (String.eqb_spec a1 b1), (String.eqb_spec a2 b2); constructor; congruence.
Qed.

Lemma klookup_kremove {A} k x (t : list (ckey * A)) :
  klookup x (kremove k t) = if ckey_eqb x k then None else klookup x t.
Proof.
  induction t as [|[k' e] t IH]; simpl; [destruct (ckey_eqb x k); reflexivity|].
  destruct (ckey_eqb_spec k k') as [->|Hn]; simpl.
  - rewrite IH. destruct (ckey_eqb_spec x k'); reflexivity.
  - rewrite IH. destruct (ckey_eqb_spec x k') as [->|Hn2].
    + destruct (ckey_eqb_spec k' k); [congruence|reflexivity].
    + reflexivity.
Qed.

Lemma klookup_app {A} x (t1 t2 : list (ckey * A)) :
  klookup x (t1 ++ t2) = match klookup x t1 with Some e => Some e | None => klookup x t2 end.
Proof.
  induction t1 as [|[k e] t1 IH]; simpl; [reflexivity|]. destruct (ckey_eqb x k); auto.
Qed.

Lemma klookup_kset {A} k (v : A) x t :
  klookup x (kset k v t) = if ckey_eqb x k then Some v else klookup x t.
Proof.
  unfold kset. rewrite klookup_app, klookup_kremove. simpl.
  destruct (ckey_eqb x k); [reflexivity|]. destruct (klookup x t); reflexivity.
Qed.

Lemma klookup_filter_fn {A} qn x (t : list (ckey * A)) :
  klookup x (filter (fun kv => negb (String.eqb (fst (fst kv)) qn)) t)
  = if String.eqb (fst x) qn then None else klookup x t.
Proof.
  induction t as [|[k e] t IH]; simpl; [destruct (String.eqb (fst x) qn); reflexivity|].
  destruct (String.eqb_spec (fst k) qn) as [Hk|Hk]; simpl.
  - rewrite IH. destruct (String.eqb_spec (fst x) qn) as [Hx|Hx]; [reflexivity|].
    destruct (ckey_eqb_spec x k) as [->|]; [congruence|reflexivity].
  - rewrite IH. destruct (ckey_eqb_spec x k) as [->|Hn].
    + destruct (String.eqb_spec (fst k) qn); [congruence|reflexivity].
    + reflexivity.
Qed.

(* ---------- well-formed keys ---------- *)

Definition wfk (k : ckey) : Prop := has_slash (fst k) = false.

Lemma ck_inj k k' : wfk k -> wfk k' -> ck k = ck k' -> k = k'.
Proof.
  destruct k as [a b], k' as [a' b']. unfold wfk, ck; simpl. intros Ha Ha' H.
  destruct (append_slash_inj a a' b b' Ha Ha' H) as [-> ->]. reflexivity.
Qed.

Lemma ck_eqb k k' : wfk k -> wfk k' -> String.eqb (ck k) (ck k') = ckey_eqb k k'.
Proof.
  intros H H'. destruct (String.eqb_spec (ck k) (ck k')) as [E|E], (ckey_eqb_spec k k') as [E'|E']; auto.
  - exfalso. apply E'. apply ck_inj; auto.
  - subst. congruence.
Qed.

Lemma ck_prefix qn k : has_slash qn = false -> wfk k ->
  String.prefix (slash qn) (ck k) = String.eqb qn (fst k).
Proof. intros H H'. unfold slash, ck. apply prefix_scope; auto. Qed.

(* ---------- what cache operations do to lookups ---------- *)

Lemma tbl_evict k c x e :
  lookup x (tbl (evict k c)) = Some e -> x <> k /\ lookup x (tbl c) = Some e.
Proof.
  unfold evict. destruct (lookup k (tbl c)) eqn:E; simpl.
  - rewrite lookup_remove_key. destruct (String.eqb_spec x k); [discriminate|auto].
  - intros H. split; auto. intros ->. congruence.
Qed.

Lemma refs_evict k c : refs (evict k c) = refs c.
Proof. unfold evict. destruct (lookup k (tbl c)); reflexivity. Qed.

Lemma tbl_make_room f sz c x e :
  lookup x (tbl (make_room f sz c)) = Some e -> lookup x (tbl c) = Some e.
Proof.
  revert c. induction f as [|f IH]; intros c; simpl; auto.
  destruct (lru c) as [|y r]; auto. destruct (_ >? _); auto.
  intros H. apply IH in H. apply tbl_evict in H. simpl in H. tauto.
Qed.

Lemma refs_make_room f sz c : refs (make_room f sz c) = refs c.
Proof.
  revert c. induction f as [|f IH]; intros c; simpl; auto.
  destruct (lru c) as [|y r]; auto. destruct (_ >? _); auto.
  rewrite IH, refs_evict. reflexivity.
Qed.

Lemma tbl_evict_list ks c x e :
  lookup x (tbl (evict_list ks c)) = Some e -> ~ In x ks /\ lookup x (tbl c) = Some e.
Proof.
  revert c. induction ks as [|k ks IH]; simpl; intros c H; [auto|].
  apply IH in H. destruct H as [H1 H2]. apply tbl_evict in H2. intuition.
Qed.

Lemma refs_evict_list ks c : refs (evict_list ks c) = refs c.
Proof. revert c. induction ks as [|k ks IH]; simpl; intros c; auto. rewrite IH, refs_evict. auto. Qed.

Section PutFacts.
Variable cf : pcfg.
Hypothesis Hef : p_evict_first cf = true.
Hypothesis Hcr : p_clear_ref cf = true.

(** after [put k], an entry under another key is an old entry, and the entry under [k] (if
    any) is the new one — never a stale one *)
Lemma tbl_put k m v sz has wr c x e :
  lookup x (tbl (put cf k m v sz has wr c)) = Some e ->
  (x = k /\ e = {| esize := sz; ememento := m; evalue := v; ehas := has |}) \/
  (x <> k /\ lookup x (tbl c) = Some e).
Proof.
  destruct (put_eqc cf k m v sz has wr c) as (_ & _ & _ & ->).
  unfold put_simple. rewrite Hef.
  destruct (sz >? budget (evict k c)).
  - intros H. apply tbl_evict in H. right. exact H.
  - cbn [tbl]. rewrite lookup_app. simpl.
    destruct (lookup x (tbl (make_room _ sz (evict k (evict k c))))) eqn:E.
    + intros H; inversion H; subst. apply tbl_make_room in E. apply tbl_evict in E.
      destruct E as [Hn E]. apply tbl_evict in E. right. tauto.
    + destruct (String.eqb_spec x k) as [->|Hn]; [|discriminate].
      intros H; inversion H. left. auto.
Qed.

Lemma refs_put k m v sz has wr c x v' :
  lookup x (refs (put cf k m v sz has wr c)) = Some v' ->
  (x = k /\ has = true /\ v' = v) \/ (x <> k /\ lookup x (refs c) = Some v') \/
  (x = k /\ has = false /\ lookup x (refs c) = Some v').
Proof.
  unfold put. rewrite Hef, Hcr.
  set (c0 := if has then put_ref k v wr (with_refs (remove_key k (refs c)) c) else c).
  assert (H0 : forall y w, lookup y (refs c0) = Some w ->
            (y = k /\ has = true /\ w = v) \/ (y <> k /\ lookup y (refs c) = Some w) \/
            (y = k /\ has = false /\ lookup y (refs c) = Some w)).
  { intros y w. unfold c0. destruct has.
    - unfold put_ref. destruct wr; cbn [refs with_refs];
        rewrite ?lookup_set_key, ?lookup_remove_key;
        destruct (String.eqb_spec y k) as [->|Hn]; try discriminate; intros H;
        try (inversion H; subst); auto.
    - intros H. destruct (String.eqb_spec y k) as [->|Hn]; auto. }
  destruct (sz >? budget (evict k c0)).
  - rewrite refs_evict. apply H0.
  - cbn [refs]. rewrite refs_make_room, refs_evict.
    destruct wr; try (rewrite refs_evict; apply H0).
    destruct has; [|rewrite refs_evict; apply H0].
    cbn [refs with_refs]. rewrite lookup_remove_key, refs_evict.
    destruct (String.eqb_spec x k); [discriminate|]. intros H. apply H0 in H. intuition congruence.
Qed.
End PutFacts.

(* ---------- the simulation ---------- *)

(** every cache entry and every (observable) weak reference agrees with the dictionary *)
Definition coh (s : lstate) : Prop :=
  (forall k e, wfk k -> lookup (ck k) (tbl (lc s)) = Some e ->
     exists v', klookup k (calls (ld s)) = Some (ememento e, v') /\ (ehas e = true -> evalue e = v')) /\
  (forall k v, wfk k -> lookup (ck k) (refs (lc s)) = Some v ->
     exists m, klookup k (calls (ld s)) = Some (m, v)).

Definition wfop (o : bop) : Prop :=
  match o with
  | BMemoize k _ _ _ _ | BGetMemento k | BReadResult k _ _ | BIsMemoized k | BForgetCall k
  | BWriteMeta k _ _ | BReadMeta k _ => wfk k
  | BForgetFn qn | BListMementos qn => has_slash qn = false
  | _ => True
  end.

Lemma coh_init b : coh (linit b).
Proof. split; intros k e _ H; discriminate. Qed.

Section Sim.
Variable cf : pcfg.
Variable nsz : Z.
Hypothesis Hef : p_evict_first cf = true.
Hypothesis Hcr : p_clear_ref cf = true.

(* a [put] that writes exactly what the dictionary holds for [k] keeps coherence *)
Lemma coh_put s k m v sz has wr d' vd :
  wfk k -> coh s ->
  klookup k (calls d') = Some (m, vd) -> (has = true -> vd = v) ->
  (forall k', k' <> k -> klookup k' (calls d') = klookup k' (calls (ld s))) ->
  (has = false -> klookup k (calls d') = klookup k (calls (ld s))) ->
  coh {| lc := put cf (ck k) m v sz has wr (lc s); ld := d' |}.
Proof.
  intros Hk [Ht Hr] Hd Hv Hother Hsame. split; cbn [lc ld].
  - intros k' e Hk' H. apply (tbl_put cf Hef) in H. destruct H as [[E ->]|[Hn H]].
    + apply ck_inj in E; auto. subst k'. cbn [ememento ehas evalue].
      exists vd. split; auto. intros Hh. symmetry. auto.
    + assert (k' <> k) by congruence. rewrite Hother by auto. apply Ht; auto.
  - intros k' v' Hk' H. apply (refs_put cf Hef Hcr) in H.
    destruct H as [(E & Hh & ->)|[(Hn & H)|(E & Hh & H)]].
    + apply ck_inj in E; auto. subst k'. rewrite Hd, (Hv Hh). eauto.
    + assert (k' <> k) by congruence. rewrite Hother by auto. apply Hr; auto.
    + apply ck_inj in E; auto. subst k'. rewrite Hsame by auto. apply Hr; auto.
Qed.

Lemma coh_same_cache_tables s c' :
  coh s -> tbl c' = tbl (lc s) -> refs c' = refs (lc s) -> coh {| lc := c'; ld := ld s |}.
Proof. intros [Ht Hr] E1 E2. split; cbn [lc ld]; rewrite ?E1, ?E2; auto. Qed.

(* l_get_memento answers like the dictionary and keeps coherence *)
Lemma get_memento_ok s k :
  wfk k -> coh s ->
  let '(c1, r, _) := l_get_memento cf nsz s k in
  r = option_map fst (klookup k (calls (ld s))) /\ coh {| lc := c1; ld := ld s |}.
Proof.
  intros Hk Hc. unfold l_get_memento.
  destruct (lookup (ck k) (tbl (lc s))) as [e|] eqn:E.
  - destruct Hc as [Ht Hr]. destruct (Ht k e Hk E) as (v' & Hd & _).
    split; [rewrite Hd; reflexivity|]. destruct s; split; auto.
  - destruct (klookup k (calls (ld s))) as [[m v]|] eqn:Hd.
    + split; [reflexivity|]. apply (coh_put s k m 0 nsz false NoWeak (ld s) v); auto; discriminate.
    + split; [reflexivity|]. destruct s; exact Hc.
Qed.

Lemma mark_used_tables k c : tbl (mark_used k c) = tbl c /\ refs (mark_used k c) = refs c.
Proof. split; reflexivity. Qed.

(** one step: same answer as the dictionary, coherence preserved *)
Lemma lstep_sim s o :
  wfop o -> coh s ->
  let '(s1, x, _) := lstep cf nsz s o in
  x = snd (dstep (ld s) o) /\ ld s1 = fst (dstep (ld s) o) /\ coh s1.
Proof.
  intros Hwf Hc. destruct o; cbn [wfop] in Hwf; cbn [lstep].
  - (* memoize *)
    split; [reflexivity|]. split; [reflexivity|]. cbn [dstep fst].
    apply (coh_put s k m v sz true wr _ v); auto; cbn [calls].
    + rewrite klookup_kset. destruct (ckey_eqb_spec k k); [reflexivity|congruence].
    + intros k' Hn. rewrite klookup_kset. destruct (ckey_eqb_spec k' k); [congruence|reflexivity].
    + discriminate.
  - (* get memento *)
    pose proof (get_memento_ok s k Hwf Hc) as H.
    destruct (l_get_memento cf nsz s k) as [[c1 r] t]. destruct H as [-> Hc1].
    cbn [dstep snd fst]. auto.
  - (* read result *)
    pose proof (get_memento_ok s k Hwf Hc) as H.
    destruct (l_get_memento cf nsz s k) as [[c1 r] t]. destruct H as [-> Hc1].
    cbn [dstep snd fst].
    destruct (klookup k (calls (ld s))) as [[m v]|] eqn:Hd; cbn [option_map fst snd].
    2:{ auto. }
    cbn [step].
    destruct Hc1 as [Ht Hr]. cbn [lc ld] in Ht, Hr.
    destruct (lookup (ck k) (tbl c1)) as [e|] eqn:E.
    + destruct (Ht k e Hwf E) as (v' & Hd' & Hv). rewrite Hd in Hd'. inversion Hd'; subst.
      destruct (ehas e) eqn:Hh.
      * rewrite Hv by reflexivity. split; [reflexivity|]. split; [reflexivity|].
        apply (coh_same_cache_tables {| lc := c1; ld := ld s |}); [split; auto|reflexivity|reflexivity].
      * split; [reflexivity|]. split; [reflexivity|].
        apply (coh_put {| lc := c1; ld := ld s |} k (ememento e) v' sz true wr (ld s) v'); auto; first [discriminate | split; auto].
    + destruct (lookup (ck k) (refs c1)) as [w|] eqn:E2.
      * destruct (Hr k w Hwf E2) as (m' & Hd'). rewrite Hd in Hd'. inversion Hd'; subst.
        split; [reflexivity|]. split; [reflexivity|]. split; auto.
      * split; [reflexivity|]. split; [reflexivity|].
        apply (coh_put {| lc := c1; ld := ld s |} k m v sz true wr (ld s) v); auto; first [discriminate | split; auto].
  - (* is memoized *)
    cbn [step dstep snd fst]. destruct Hc as [Ht Hr].
    destruct (lookup (ck k) (tbl (lc s))) as [e|] eqn:E.
    + destruct (Ht k e Hwf E) as (v' & Hd & _). rewrite Hd.
      split; [reflexivity|]. split; [reflexivity|].
      apply (coh_same_cache_tables s); [split; auto|reflexivity|reflexivity].
    + destruct (lookup (ck k) (refs (lc s))) as [w|] eqn:E2.
      * destruct (Hr k w Hwf E2) as (m' & Hd). rewrite Hd.
        split; [reflexivity|]. split; [reflexivity|]. destruct s; split; auto.
      * split; [reflexivity|]. split; [reflexivity|]. destruct s; split; auto.
  - (* forget call *)
    cbn [step dstep snd fst]. split; [reflexivity|]. split; [reflexivity|].
    destruct Hc as [Ht Hr]. split; cbn [lc ld calls].
    + intros k' e Hk' H. apply tbl_evict in H. cbn [tbl] in H. destruct H as [Hn H].
      rewrite klookup_kremove. destruct (ckey_eqb_spec k' k) as [->|]; [congruence|]. apply Ht; auto.
    + intros k' v Hk' H. rewrite refs_evict in H. cbn [refs] in H.
      rewrite lookup_remove_key in H. destruct (String.eqb_spec (ck k') (ck k)); [discriminate|].
      rewrite klookup_kremove. destruct (ckey_eqb_spec k' k) as [->|]; [congruence|]. apply Hr; auto.
  - (* forget function *)
    cbn [step dstep snd fst]. split; [reflexivity|]. split; [reflexivity|].
    destruct Hc as [Ht Hr]. unfold forget_fn.
    match goal with |- coh {| lc := fold_left ?f ?l ?c0; ld := _ |} =>
      change (fold_left f l c0) with (evict_list l c0) end.
    split; cbn [lc ld calls].
    + intros k' e Hk' H. apply tbl_evict_list in H. cbn [tbl] in H. destruct H as [Hn H].
      rewrite klookup_filter_fn.
      destruct (String.eqb_spec (fst k') qn) as [E|E]; [|apply Ht; auto].
      exfalso. apply Hn. apply filter_In. split.
      * unfold keys. apply in_map_iff. exists (ck k', e). split; auto. apply lookup_in; auto.
      * rewrite ck_prefix by auto. subst. apply String.eqb_refl.
    + intros k' v Hk' H. rewrite refs_evict_list in H. cbn [refs] in H.
      apply (lookup_filter (fun x => negb (String.prefix (slash qn) x))) in H. destruct H as [Hp H].
      rewrite ck_prefix in Hp by auto.
      rewrite klookup_filter_fn. destruct (String.eqb_spec (fst k') qn) as [E|E]; [|apply Hr; auto].
      subst. rewrite String.eqb_refl in Hp. discriminate.
  - (* forget everything *)
    cbn [step dstep snd fst]. split; [reflexivity|]. split; [reflexivity|].
    split; cbn [lc ld]; intros k' e _ H; discriminate.
  - (* list functions *)
    cbn [dstep]. split; [reflexivity|]. split; [reflexivity|]. destruct s; exact Hc.
  - (* list mementos *)
    cbn [dstep]. split; [reflexivity|]. split; [reflexivity|]. destruct s; exact Hc.
  - (* write metadata: calls unchanged *)
    cbn [dstep]. split; [reflexivity|]. split; [reflexivity|].
    destruct Hc as [Ht Hr]. split; cbn [lc ld calls]; auto.
  - (* read metadata *)
    cbn [dstep]. split; [reflexivity|]. split; [reflexivity|]. destruct s; exact Hc.
  - (* gc *)
    cbn [dstep snd fst]. split; [reflexivity|]. split; [reflexivity|].
    destruct Hc as [Ht Hr]. split; cbn [lc ld]; auto. intros k v _ H. discriminate.
Qed.

(** Theorem B: for every budget, every history of well-formed operations (any sizes), the
    backend with a cache answers exactly as the dictionary. *)
Theorem cache_layer_refines_dict : forall ops s,
  Forall wfop ops -> coh s -> lrun cf nsz s ops = drun (ld s) ops.
Proof.
  induction ops as [|o ops IH]; intros s Hw Hc; [reflexivity|].
  inversion Hw as [|? ? Ho Hops]; subst. cbn [lrun drun].
  pose proof (lstep_sim s o Ho Hc) as H.
  destruct (lstep cf nsz s o) as [[s1 x] t]. destruct H as (-> & Hd & Hc1).
  destruct (dstep (ld s) o) as [d1 y] eqn:E. cbn [snd fst] in *. subst d1.
  f_equal. apply IH; auto.
Qed.

Corollary cache_layer_refines_dict_from_empty : forall b ops,
  Forall wfop ops -> lrun cf nsz (linit b) ops = drun dempty ops.
Proof. intros. apply (cache_layer_refines_dict ops (linit b)); auto using coh_init. Qed.

End Sim.

(** A served read touches no store: when the model answers [BReadResult] from a resident entry
    that has a value, the touch flag is false. *)
Lemma cached_read_touches_no_store cf nsz s k sz wr e :
  lookup (ck k) (tbl (lc s)) = Some e -> ehas e = true ->
  snd (lstep cf nsz s (BReadResult k sz wr)) = false /\
  snd (fst (lstep cf nsz s (BReadResult k sz wr))) = BVal (Some (evalue e)).
Proof.
  intros E Hh. cbn [lstep]. unfold l_get_memento. rewrite E. cbn [step]. rewrite E, Hh. auto.
Qed.

(* ---------- the dictionary itself ---------- *)

Lemma dict_read_last_write d k m v sz wr sz' wr' :
  snd (dstep (fst (dstep d (BMemoize k m v sz wr))) (BReadResult k sz' wr')) = BVal (Some v).
Proof.
  cbn [dstep fst snd calls]. rewrite klookup_kset.
  destruct (ckey_eqb_spec k k); [reflexivity|congruence].
Qed.

Lemma dict_forget_call_exact d k k' :
  klookup k' (calls (fst (dstep d (BForgetCall k)))) = if ckey_eqb k' k then None else klookup k' (calls d).
Proof. cbn [dstep fst calls]. apply klookup_kremove. Qed.

Lemma dict_forget_fn_exact d qn k' :
  klookup k' (calls (fst (dstep d (BForgetFn qn)))) = if String.eqb (fst k') qn then None else klookup k' (calls d).
Proof. cbn [dstep fst calls]. apply klookup_filter_fn. Qed.
