(** Partitions (storage_base.py: PicklePartition / PicklePartitionStrategy.store; partition.py;
    storage_filesystem.py: OnDiskPartition): a stored partition is an index key -> (value,
    from_parent); a partition that declares a merge parent is stored as the parent's index, every
    entry marked from_parent, overlaid by its own keys.
    Which index a parent contributes depends on where it came from: read back from the store it
    is its full stored index; an object built in this process and stored before contributes what
    [store] left in its [_output_keys] — [full]: the merged index (source fact), otherwise only
    the keys it wrote itself. *)
From Coq Require Import List ZArith String Bool.
From Memento Require Import Storage.Cache.
Import ListNotations.

Definition pdict := list (string * Z).
Definition index := list (string * (Z * bool)).       (* value id, from_parent *)

Fixpoint iset (k : string) (e : Z * bool) (t : index) : index :=
  match t with
  | [] => [(k, e)]
  | (k', e') :: r => if String.eqb k k' then (k, e) :: r else (k', e') :: iset k e r
  end.

(* PicklePartitionStrategy.store: parent entries marked from_parent, then own keys on top *)
Definition store_index (parent : index) (own : pdict) : index :=
  fold_left (fun acc kv => iset (fst kv) (snd kv, false) acc) own
            (map (fun kv => (fst kv, (fst (snd kv), true))) parent).

(** what an in-process parent object contributes ([_output_keys]) *)
Definition own_only (own : pdict) : index := map (fun kv => (fst kv, (snd kv, false))) own.

Inductive provenance := FromStore | InProcess.

(** a merge chain, child first: each link's own keys and where its parent object came from *)
Fixpoint stored (full : bool) (chain : list (pdict * provenance)) : index :=
  match chain with
  | [] => []
  | (own, prov) :: rest =>
    let parent_index :=
      match rest with
      | [] => []
      | (pown, _) :: _ =>
        match prov with
        | FromStore => stored full rest
        | InProcess => if full then stored full rest else own_only pown
        end
      end in
    store_index parent_index own
  end.

Definition ilookup (k : string) (t : index) : option Z := option_map fst (lookup k t).
Definition own_keys (t : index) : list string := map fst (filter (fun kv => negb (snd (snd kv))) t).

(** the overlay specification: own keys win, parent-only keys remain *)
Fixpoint overlay (chain : list pdict) (k : string) : option Z :=
  match chain with
  | [] => None
  | own :: rest => match lookup k own with Some v => Some v | None => overlay rest k end
  end.

(** correspondence support: one case = chain + what was read back (key, value) sorted + own keys *)
Definition pcase (c : bool * list (pdict * provenance) * list (string * Z) * list string) : option nat :=
  let '(full, chain, seen, seen_own) := c in
  let t := stored full chain in
  if negb (same_set (map fst seen) (map fst t)) then Some 0%nat
  else if negb (forallb (fun kv => match ilookup (fst kv) t with Some v => Z.eqb v (snd kv) | None => false end) seen) then Some 1%nat
  else if negb (same_set seen_own (own_keys t)) then Some 2%nat
  else None.

(** storing, unchanged, a partition that was itself read from a store (index [t]), e.g. returned
    by another memento function: the own entries are stored again; the entries inherited from
    the merge parent live only in the index and are carried over by reference iff [keep] *)
Definition relay_index (keep : bool) (t : index) : index :=
  fold_left (fun acc kv => iset (fst kv) (snd kv, false) acc)
            (map (fun kv => (fst kv, fst (snd kv))) (filter (fun kv => negb (snd (snd kv))) t))
            (if keep then filter (fun kv => snd (snd kv)) t else []).
