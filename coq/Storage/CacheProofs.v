(** Proofs about the MemoryCache model (Cache.v): accounting invariant for every history,
    LRU victim selection, recency refresh, forgetting empties the cache. *)
From Coq Require Import List ZArith String Bool Lia Permutation.
From Memento Require Import Storage.Cache.
Import ListNotations.
Open Scope Z_scope.

(* ---------- assoc-list facts ---------- *)

Lemma eqb_refl' k : String.eqb k k = true.
Proof. apply String.eqb_refl. Qed.

Lemma lookup_in {A} k (t : list (string * A)) e : lookup k t = Some e -> In (k, e) t.
Proof.
  induction t as [|[k' e'] t IH]; simpl; [discriminate|].
  destruct (String.eqb_spec k k') as [->|Hn]; intros H.
  - inversion H; subst; auto.
  - right; auto.
Qed.

Lemma lookup_none_notin {A} k (t : list (string * A)) : lookup k t = None <-> ~ In k (keys t).
Proof.
  induction t as [|[k' e'] t IH]; simpl; [tauto|].
  destruct (String.eqb_spec k k') as [->|Hn].
  - split; [discriminate|intros H; exfalso; apply H; auto].
  - rewrite IH. split; intros H; [intros [H1|H1]; [congruence|auto]|tauto].
Qed.

Lemma lookup_some_in_keys {A} k (t : list (string * A)) e : lookup k t = Some e -> In k (keys t).
Proof.
  intros H. destruct (in_dec string_dec k (keys t)) as [Hi|Hi]; auto.
  apply lookup_none_notin in Hi. congruence.
Qed.

Lemma in_nodup_lookup {A} k e (t : list (string * A)) :
  NoDup (keys t) -> In (k, e) t -> lookup k t = Some e.
Proof.
  induction t as [|[k' e'] t IH]; simpl; [tauto|].
  intros Hnd [H|H].
  - inversion H; subst. rewrite eqb_refl'. reflexivity.
  - inversion Hnd as [|? ? Hni Hnd']; subst.
    destruct (String.eqb_spec k k') as [->|Hn]; [|auto].
    exfalso. apply Hni. change (In k' (map fst t)). apply in_map_iff. exists (k', e). auto.
Qed.

Lemma keys_remove_key {A} k (t : list (string * A)) x :
  In x (keys (remove_key k t)) <-> In x (keys t) /\ x <> k.
Proof.
  induction t as [|[k' e'] t IH]; simpl; [tauto|].
  destruct (String.eqb_spec k k') as [->|Hn]; simpl; rewrite IH.
  - split; [tauto|]. intros [[H|H] H2]; [congruence|tauto].
  - split.
    + intros [H|H]; [subst; split; auto|tauto].
    + tauto.
Qed.

Lemma in_remove_key {A} k (t : list (string * A)) x e :
  In (x, e) (remove_key k t) -> In (x, e) t.
Proof.
  induction t as [|[k' e'] t IH]; simpl; [tauto|].
  destruct (String.eqb_spec k k'); simpl; intros H; [right; auto|].
  destruct H; auto.
Qed.

Lemma nodup_remove_key {A} k (t : list (string * A)) : NoDup (keys t) -> NoDup (keys (remove_key k t)).
Proof.
  induction t as [|[k' e'] t IH]; simpl; [auto|].
  intros Hnd. inversion Hnd as [|? ? Hni Hnd']; subst.
  destruct (String.eqb_spec k k'); simpl; [auto|].
  constructor; [|auto]. intros H. apply keys_remove_key in H. tauto.
Qed.

Lemma remove_key_notin {A} k (t : list (string * A)) : ~ In k (keys t) -> remove_key k t = t.
Proof.
  induction t as [|[k' e'] t IH]; simpl; [auto|].
  intros H. destruct (String.eqb_spec k k') as [->|Hn]; [exfalso; auto|].
  f_equal. apply IH. tauto.
Qed.

Lemma total_remove_key k t e :
  NoDup (keys t) -> lookup k t = Some e -> total (remove_key k t) = total t - esize e.
Proof.
  induction t as [|[k' e'] t IH]; simpl; [discriminate|].
  intros Hnd. inversion Hnd as [|? ? Hni Hnd']; subst.
  destruct (String.eqb_spec k k') as [->|Hn]; intros H.
  - inversion H; subst. rewrite remove_key_notin by exact Hni. lia.
  - simpl. rewrite IH by auto. lia.
Qed.

Lemma total_app t1 t2 : total (t1 ++ t2) = total t1 + total t2.
Proof. induction t1 as [|[k e] t1 IH]; simpl; lia. Qed.

Lemma keys_app {A} (t1 t2 : list (string * A)) : keys (t1 ++ t2) = keys t1 ++ keys t2.
Proof. unfold keys. apply map_app. Qed.

(* ---------- remove_first ---------- *)

Lemma remove_first_notin k l : ~ In k l -> remove_first k l = l.
Proof.
  induction l as [|x l IH]; simpl; [auto|].
  intros H. destruct (String.eqb_spec k x) as [->|Hn]; [exfalso; auto|].
  f_equal. apply IH. tauto.
Qed.

Lemma in_remove_first k l x : NoDup l -> (In x (remove_first k l) <-> In x l /\ x <> k).
Proof.
  induction l as [|y l IH]; simpl; [tauto|].
  intros Hnd. inversion Hnd as [|? ? Hni Hnd']; subst.
  destruct (String.eqb_spec k y) as [->|Hn].
  - split; [intros H; split; [auto|intros ->; auto]|]. intros [[H|H] H2]; [congruence|auto].
  - simpl. rewrite IH by auto. split.
    + intros [H|H]; [subst; split; auto|tauto].
    + tauto.
Qed.

Lemma nodup_remove_first k l : NoDup l -> NoDup (remove_first k l).
Proof.
  induction l as [|y l IH]; simpl; [auto|].
  intros Hnd. inversion Hnd as [|? ? Hni Hnd']; subst.
  destruct (String.eqb_spec k y); [auto|].
  constructor; [|auto]. intros H. apply in_remove_first in H; tauto.
Qed.

(* ---------- the invariant ---------- *)

Definition Inv (c : cache) : Prop :=
  NoDup (lru c) /\ NoDup (keys (tbl c)) /\
  (forall k, In k (lru c) <-> In k (keys (tbl c))) /\
  usage c = total (tbl c) /\
  (forall k e, In (k, e) (tbl c) -> 0 <= esize e <= budget c) /\
  usage c <= budget c.

Lemma inv_init b : 0 <= b -> Inv (init b).
Proof.
  intros Hb. unfold Inv, init; simpl. repeat split; try constructor; try tauto; try lia.
Qed.

Lemma total_nonneg t b : (forall k e, In (k, e) t -> 0 <= esize e <= b) -> 0 <= total t.
Proof.
  induction t as [|[k e] t IH]; simpl; intros H; [lia|].
  assert (0 <= esize e <= b) by (apply (H k); auto).
  assert (0 <= total t) by (apply IH; intros; eapply H; eauto). lia.
Qed.

Lemma budget_evict k c : budget (evict k c) = budget c.
Proof. unfold evict. destruct (lookup k (tbl c)); reflexivity. Qed.

Lemma refs_irrelevant_inv c r :
  Inv c -> Inv {| budget := budget c; usage := usage c; lru := lru c; tbl := tbl c; refs := r |}.
Proof. unfold Inv; simpl; auto. Qed.

Lemma evict_inv k c : Inv c -> Inv (evict k c).
Proof.
  intros (Hl & Ht & Hiff & Hu & Hs & Hb). unfold evict.
  destruct (lookup k (tbl c)) as [e|] eqn:Hlk; unfold Inv; simpl.
  - assert (He : 0 <= esize e <= budget c) by (eapply Hs; eapply lookup_in; eauto).
    repeat split.
    + apply nodup_remove_first; auto.
    + apply nodup_remove_key; auto.
    + intros H. apply in_remove_first in H; auto. apply keys_remove_key. rewrite <- Hiff. tauto.
    + intros H. apply keys_remove_key in H. apply in_remove_first; auto. rewrite Hiff. tauto.
    + rewrite (total_remove_key k _ e) by auto. lia.
    + eapply Hs; eapply in_remove_key; eauto.
    + eapply Hs; eapply in_remove_key; eauto.
    + lia.
  - apply lookup_none_notin in Hlk.
    assert (Hnl : ~ In k (lru c)) by (rewrite Hiff; auto).
    rewrite remove_first_notin by auto. repeat split; auto; try (apply Hiff); try (eapply Hs; eauto).
Qed.

Lemma evict_usage_le k c : Inv c -> usage (evict k c) <= usage c.
Proof.
  intros (Hl & Ht & Hiff & Hu & Hs & Hb). unfold evict.
  destruct (lookup k (tbl c)) as [e|] eqn:Hlk; simpl; [|lia].
  assert (0 <= esize e <= budget c) by (eapply Hs; eapply lookup_in; eauto). lia.
Qed.

Lemma evict_not_resident k c : Inv c -> ~ In k (keys (tbl (evict k c))).
Proof.
  intros (Hl & Ht & Hiff & Hu & Hs & Hb). unfold evict.
  destruct (lookup k (tbl c)) as [e|] eqn:Hlk; simpl.
  - intros H. apply keys_remove_key in H. tauto.
  - apply lookup_none_notin; auto.
Qed.

(** The state between [lru_deque.popleft()] and [_evict(x)] is not invariant, but the pair of
    them is exactly [_evict x] on the un-popped cache. *)
Lemma evict_popped x r c :
  Inv c -> lru c = x :: r ->
  evict x {| budget := budget c; usage := usage c; lru := r; tbl := tbl c; refs := refs c |}
  = evict x c.
Proof.
  intros (Hl & _) Hx. unfold evict; simpl.
  rewrite Hx in Hl. inversion Hl as [|? ? Hni Hnd]; subst.
  destruct (lookup x (tbl c)); simpl; rewrite Hx; simpl; rewrite eqb_refl';
    rewrite remove_first_notin by auto; reflexivity.
Qed.

Lemma lru_evict_head x r c : Inv c -> lru c = x :: r -> lru (evict x c) = r.
Proof.
  intros Hi Hx. unfold evict. destruct (lookup x (tbl c)); simpl; rewrite Hx; simpl;
    rewrite eqb_refl'; reflexivity.
Qed.

Lemma lru_nil_usage0 c : Inv c -> lru c = [] -> usage c = 0 /\ tbl c = [].
Proof.
  intros (Hl & Ht & Hiff & Hu & Hs & Hb) Hn.
  assert (tbl c = []).
  { destruct (tbl c) as [|[k e] t] eqn:E; auto. exfalso.
    assert (In k (lru c)) by (apply Hiff; simpl; auto). rewrite Hn in *. auto. }
  split; auto. rewrite Hu, H. reflexivity.
Qed.

Definition evict_list (ks : list string) (c : cache) : cache :=
  fold_left (fun c k => evict k c) ks c.

Lemma evict_list_inv ks c : Inv c -> Inv (evict_list ks c).
Proof. revert c; induction ks as [|k ks IH]; simpl; intros c H; auto. apply IH, evict_inv, H. Qed.

Lemma budget_evict_list ks c : budget (evict_list ks c) = budget c.
Proof. revert c; induction ks as [|k ks IH]; simpl; intros c; auto. rewrite IH, budget_evict. auto. Qed.

(** LRU victim selection: the loop of [put] evicts exactly the first [n] entries of the recency
    order, for the least [n] that makes room (or everything). *)
Lemma make_room_spec sz c :
  Inv c ->
  exists n, (n <= List.length (lru c))%nat /\
    make_room (List.length (lru c)) sz c = evict_list (firstn n (lru c)) c /\
    (forall m, (m < n)%nat -> usage (evict_list (firstn m (lru c)) c) + sz > budget c) /\
    (lru (evict_list (firstn n (lru c)) c) = skipn n (lru c)) /\
    (n = List.length (lru c) \/ usage (evict_list (firstn n (lru c)) c) + sz <= budget c).
Proof.
  remember (List.length (lru c)) as f eqn:Hf. revert c Hf.
  induction f as [|f IH]; intros c Hf Hi.
  - exists 0%nat. simpl. repeat split; auto; try lia.
  - destruct (lru c) as [|x r] eqn:Hx; [discriminate|]. simpl in Hf.
    cbn [make_room]. rewrite Hx.
    destruct (usage c + sz >? budget c) eqn:Hgt.
    + rewrite (evict_popped x r c Hi Hx).
      assert (Hr : lru (evict x c) = r) by (apply lru_evict_head; auto).
      destruct (IH (evict x c)) as (n & Hn & Hm & Hmin & Hsk & Hfin).
      { rewrite Hr. lia. } { apply evict_inv; auto. }
      rewrite Hr in *. exists (S n). cbn [firstn skipn evict_list fold_left].
      fold (evict_list (firstn n r) (evict x c)).
      repeat split; auto; try lia.
      * intros m Hlt. destruct m as [|m]; cbn [firstn evict_list fold_left].
        -- lia.
        -- fold (evict_list (firstn m r) (evict x c)).
           specialize (Hmin m ltac:(lia)). rewrite budget_evict in Hmin. exact Hmin.
      * destruct Hfin as [->|Hfin]; [left; reflexivity|right].
        rewrite budget_evict in Hfin. exact Hfin.
    + exists 0%nat. cbn [firstn skipn evict_list fold_left]. repeat split; auto; try lia.
Qed.

Lemma make_room_inv sz c : Inv c -> Inv (make_room (List.length (lru c)) sz c).
Proof.
  intros Hi. destruct (make_room_spec sz c Hi) as (n & _ & -> & _). apply evict_list_inv, Hi.
Qed.

Lemma budget_make_room f sz c : budget (make_room f sz c) = budget c.
Proof.
  revert c; induction f as [|f IH]; intros c; simpl; auto.
  destruct (lru c); auto. destruct (_ >? _); auto. rewrite IH, budget_evict. reflexivity.
Qed.

Lemma make_room_fits sz c :
  Inv c -> sz <= budget c ->
  usage (make_room (List.length (lru c)) sz c) + sz <= budget c.
Proof.
  intros Hi Hsz. destruct (make_room_spec sz c Hi) as (n & Hn & -> & _ & Hsk & Hfin).
  destruct Hfin as [->|H]; auto.
  rewrite skipn_all in Hsk.
  destruct (lru_nil_usage0 _ (evict_list_inv _ _ Hi) Hsk) as [-> _]. lia.
Qed.

Lemma keys_evict_subset k c x : In x (keys (tbl (evict k c))) -> In x (keys (tbl c)).
Proof.
  unfold evict. destruct (lookup k (tbl c)); simpl; auto.
  intros H. apply keys_remove_key in H. tauto.
Qed.

Lemma keys_evict_list_subset ks c x : In x (keys (tbl (evict_list ks c))) -> In x (keys (tbl c)).
Proof.
  revert c; induction ks as [|k ks IH]; simpl; intros c H; auto.
  apply IH in H. eapply keys_evict_subset; eauto.
Qed.

(* ---------- put ---------- *)

Lemma with_refs_inv r c : Inv c -> Inv (with_refs r c).
Proof. unfold with_refs, Inv; simpl; auto. Qed.

(** Everything the property talks about lives in (budget, usage, lru, tbl); the weak-reference
    side table never influences them. [eqc] = equal up to [refs]. *)
Definition eqc (c c' : cache) : Prop :=
  budget c = budget c' /\ usage c = usage c' /\ lru c = lru c' /\ tbl c = tbl c'.

Lemma eqc_refl c : eqc c c. Proof. repeat split. Qed.
Lemma eqc_trans a b c : eqc a b -> eqc b c -> eqc a c.
Proof. unfold eqc; intuition congruence. Qed.
Lemma eqc_with_refs r c : eqc (with_refs r c) c. Proof. repeat split. Qed.
Lemma eqc_put_ref k v wr c : eqc (put_ref k v wr c) c.
Proof. unfold put_ref; destruct wr; repeat split. Qed.

Lemma eqc_inv c c' : eqc c c' -> Inv c' -> Inv c.
Proof. intros (Hb & Hu & Hl & Ht). unfold Inv. rewrite Hb, Hu, Hl, Ht. auto. Qed.

Lemma eqc_evict k c c' : eqc c c' -> eqc (evict k c) (evict k c').
Proof.
  intros (Hb & Hu & Hl & Ht). unfold evict. rewrite Ht.
  destruct (lookup k (tbl c')); unfold eqc; simpl; rewrite ?Hb, ?Hu, ?Hl, ?Ht; auto.
Qed.

Lemma eqc_make_room f sz c c' : eqc c c' -> eqc (make_room f sz c) (make_room f sz c').
Proof.
  revert c c'. induction f as [|f IH]; intros c c' H; simpl; auto.
  destruct H as (Hb & Hu & Hl & Ht). rewrite Hl, Hu, Hb.
  destruct (lru c') as [|x r] eqn:E; [repeat split; auto; congruence|].
  destruct (usage c' + sz >? budget c'); [|repeat split; auto; congruence].
  apply IH. apply eqc_evict. repeat split; auto.
Qed.

(** [put] without the side table. *)
Definition put_simple (ef : bool) (k : string) (m v sz : Z) (has : bool) (c : cache) : cache :=
  let c0' := if ef then evict k c else c in
  if sz >? budget c0' then c0' else
  let c1 := evict k c0' in
  let c2 := make_room (List.length (lru c1)) sz c1 in
  {| budget := budget c2; usage := usage c2 + sz; lru := lru c2 ++ [k];
     tbl := tbl c2 ++ [(k, {| esize := sz; ememento := m; evalue := v; ehas := has |})];
     refs := refs c2 |}.

Lemma put_eqc cf k m v sz has wr c :
  eqc (put cf k m v sz has wr c) (put_simple (p_evict_first cf) k m v sz has c).
Proof.
  unfold put, put_simple.
  set (c0 := if has then put_ref k v wr (if p_clear_ref cf then with_refs _ c else c) else c).
  assert (H0 : eqc c0 c).
  { unfold c0. destruct has; [|apply eqc_refl].
    eapply eqc_trans; [apply eqc_put_ref|]. destruct (p_clear_ref cf); [apply eqc_with_refs|apply eqc_refl]. }
  set (c0' := if p_evict_first cf then evict k c0 else c0).
  set (d0' := if p_evict_first cf then evict k c else c).
  assert (H0' : eqc c0' d0') by (unfold c0', d0'; destruct (p_evict_first cf); auto using eqc_evict).
  assert (Hb : budget c0' = budget d0') by apply H0'. rewrite Hb.
  destruct (sz >? budget d0'); [exact H0'|].
  set (c0'' := match wr with WeakCopy => if has then with_refs _ c0' else c0' | _ => c0' end).
  assert (H0'' : eqc c0'' d0').
  { unfold c0''. destruct wr; auto. destruct has; auto. }
  pose proof (eqc_evict k _ _ H0'') as H1.
  assert (Hl : lru (evict k c0'') = lru (evict k d0')) by apply H1. rewrite Hl.
  pose proof (eqc_make_room (List.length (lru (evict k d0'))) sz _ _ H1) as (H2b & H2u & H2l & H2t).
  unfold eqc; cbn [budget usage lru tbl refs]. rewrite H2b, H2u, H2l, H2t. auto.
Qed.

Lemma put_simple_inv ef k m v sz has c : 0 <= sz -> Inv c -> Inv (put_simple ef k m v sz has c).
Proof.
  intros Hsz Hi. unfold put_simple.
  set (c0' := if ef then evict k c else c).
  assert (Hi0' : Inv c0') by (unfold c0'; destruct ef; auto using evict_inv).
  destruct (sz >? budget c0') eqn:Hov; [exact Hi0'|].
  assert (Hle : sz <= budget c0') by lia.
  set (c1 := evict k c0').
  assert (Hi1 : Inv c1) by (apply evict_inv; auto).
  assert (Hnk : ~ In k (keys (tbl c1))) by (apply evict_not_resident; auto).
  assert (Hb1 : budget c1 = budget c0') by apply budget_evict.
  pose proof (make_room_inv sz c1 Hi1) as Hi2.
  pose proof (make_room_fits sz c1 Hi1 ltac:(lia)) as Hfit.
  destruct (make_room_spec sz c1 Hi1) as (n & _ & Heq & _).
  set (c2 := make_room (List.length (lru c1)) sz c1) in *.
  assert (Hnk2 : ~ In k (keys (tbl c2))).
  { intros H. rewrite Heq in H. apply keys_evict_list_subset in H. auto. }
  assert (Hb2 : budget c2 = budget c1) by apply budget_make_room.
  destruct Hi2 as (Hl & Ht & Hiff & Hu & Hs & Hb).
  unfold Inv; simpl. repeat split.
  - apply Permutation_NoDup with (l := k :: lru c2).
    + apply Permutation_cons_append.
    + constructor; auto. rewrite Hiff. auto.
  - rewrite keys_app. simpl.
    apply Permutation_NoDup with (l := k :: keys (tbl c2)).
    + apply Permutation_cons_append.
    + constructor; auto.
  - rewrite keys_app. rewrite !in_app_iff. rewrite Hiff. auto.
  - rewrite keys_app. rewrite !in_app_iff. rewrite Hiff. auto.
  - rewrite total_app. simpl. lia.
  - apply in_app_iff in H. destruct H as [H|[H|[]]]; [eapply Hs; eauto|]. inversion H; subst; simpl. lia.
  - apply in_app_iff in H. destruct H as [H|[H|[]]]; [eapply Hs; eauto|]. inversion H; subst; simpl. lia.
  - lia.
Qed.

Lemma put_inv cf k m v sz has wr c : 0 <= sz -> Inv c -> Inv (put cf k m v sz has wr c).
Proof. intros Hsz Hi. eapply eqc_inv; [apply put_eqc|]. apply put_simple_inv; auto. Qed.

(** A result larger than the budget is never made resident by [put]; when the source evicts
    first, the key is not resident at all afterwards. *)
Lemma put_oversize_not_resident cf k m v sz has wr c :
  p_evict_first cf = true ->
  Inv c -> sz > budget c -> ~ In k (keys (tbl (put cf k m v sz has wr c))).
Proof.
  intros Hef Hi Hov. destruct (put_eqc cf k m v sz has wr c) as (_ & _ & _ & ->).
  unfold put_simple. rewrite Hef, budget_evict.
  destruct (sz >? budget c) eqn:E; [|lia]. apply evict_not_resident; auto.
Qed.

Lemma put_oversize_no_new_entry cf k m v sz has wr c :
  Inv c -> sz > budget c -> forall x, In x (keys (tbl (put cf k m v sz has wr c))) -> In x (keys (tbl c)).
Proof.
  intros Hi Hov x. destruct (put_eqc cf k m v sz has wr c) as (_ & _ & _ & ->).
  unfold put_simple.
  assert (Hb : budget (if p_evict_first cf then evict k c else c) = budget c)
    by (destruct (p_evict_first cf); rewrite ?budget_evict; auto).
  rewrite Hb. destruct (sz >? budget c) eqn:E; [|lia].
  destruct (p_evict_first cf); auto. apply keys_evict_subset.
Qed.

(* ---------- the other operations ---------- *)

Lemma mark_used_inv k c : Inv c -> In k (keys (tbl c)) -> Inv (mark_used k c).
Proof.
  intros (Hl & Ht & Hiff & Hu & Hs & Hb) Hk. unfold Inv, mark_used; simpl.
  assert (Hkl : In k (lru c)) by (apply Hiff; auto).
  repeat split; auto.
  - apply Permutation_NoDup with (l := k :: remove_first k (lru c)).
    + apply Permutation_cons_append.
    + constructor; [|apply nodup_remove_first; auto].
      intros H. apply in_remove_first in H; tauto.
  - intros H. apply in_app_iff in H. destruct H as [H|[H|[]]]; [|subst; auto].
    apply in_remove_first in H; auto. apply Hiff; tauto.
  - intros H. apply in_app_iff. destruct (string_dec k0 k) as [->|Hn]; [right; simpl; auto|].
    left. apply in_remove_first; auto. rewrite Hiff. tauto.
  - eapply Hs; eauto.
  - eapply Hs; eauto.
Qed.

Lemma forget_fn_inv qn c : Inv c -> Inv (forget_fn qn c).
Proof.
  intros Hi. unfold forget_fn. apply (evict_list_inv _ _). apply refs_irrelevant_inv, Hi.
Qed.

Definition op_ok (o : op) : Prop :=
  match o with Put _ _ _ sz _ _ => 0 <= sz | _ => True end.

Lemma budget_evict_list' l c0 : budget (fold_left (fun c k => evict k c) l c0) = budget c0.
Proof. apply (budget_evict_list l c0). Qed.

Lemma budget_step ef c o : budget (fst (step ef c o)) = budget c.
Proof.
  destruct o; cbn [step fst]; auto.
  - destruct (put_eqc ef k m v sz has wr c) as (-> & _).
    unfold put_simple.
    assert (Hb : budget (if p_evict_first ef then evict k c else c) = budget c)
      by (destruct (p_evict_first ef); rewrite ?budget_evict; auto).
    destruct (sz >? _); auto. cbn [budget]. rewrite budget_make_room, budget_evict. auto.
  - destruct (lookup k (tbl c)) as [e|]; [destruct (ehas e)|destruct (lookup k (refs c))]; reflexivity.
  - destruct (lookup k (tbl c)); reflexivity.
  - rewrite budget_evict. reflexivity.
  - unfold forget_fn. rewrite budget_evict_list'. reflexivity.
Qed.

Lemma step_inv ef c o : op_ok o -> Inv c -> Inv (fst (step ef c o)).
Proof.
  intros Hok Hi. destruct o; simpl.
  - apply put_inv; auto.
  - destruct (lookup k (tbl c)) as [e|] eqn:E.
    + destruct (ehas e); simpl; auto. apply mark_used_inv; auto. eapply lookup_some_in_keys; eauto.
    + destruct (lookup k (refs c)); auto.
  - destruct (lookup k (tbl c)) as [e|] eqn:E; simpl; auto.
    apply mark_used_inv; auto. eapply lookup_some_in_keys; eauto.
  - auto.
  - apply evict_inv. apply refs_irrelevant_inv, Hi.
  - apply forget_fn_inv, Hi.
  - apply inv_init. destruct Hi as (_ & _ & _ & Hu & Hs & Hb).
    pose proof (total_nonneg _ _ Hs). lia.
  - unfold gc_all. apply with_refs_inv, Hi.
Qed.

(** Every reachable state satisfies the invariant, for every budget, key set and history. *)
Theorem exec_inv ef b ops : 0 <= b -> Forall op_ok ops -> Inv (exec ef (init b) ops).
Proof.
  intros Hb Hops. unfold exec.
  assert (Hi : Inv (init b)) by (apply inv_init; auto).
  revert Hi. generalize (init b) as c.
  induction Hops as [|o ops Ho Hops IH]; intros c Hi; simpl; auto.
  apply IH. apply step_inv; auto.
Qed.

Lemma exec_budget ef c ops : budget (exec ef c ops) = budget c.
Proof.
  unfold exec. revert c; induction ops as [|o ops IH]; intros c; simpl; auto.
  rewrite IH, budget_step. auto.
Qed.

(** Bounded; the counter equals what the residents account for; nothing oversize is resident. *)
Theorem cache_bounded_and_honest ef b ops :
  0 <= b -> Forall op_ok ops ->
  let c := exec ef (init b) ops in
  usage c <= b /\ usage c = total (tbl c) /\
  (forall k e, In (k, e) (tbl c) -> 0 <= esize e <= b) /\
  (tbl c = [] -> usage c = 0).
Proof.
  intros Hb Hops c.
  pose proof (exec_inv ef b ops Hb Hops) as (Hl & Ht & Hiff & Hu & Hs & Hle).
  fold c in Hl, Ht, Hiff, Hu, Hs, Hle.
  assert (Hbud : budget c = b) by (unfold c; rewrite exec_budget; reflexivity).
  rewrite Hbud in *. repeat split; auto; try (eapply Hs; eauto).
  intros E. rewrite Hu, E. reflexivity.
Qed.

(* ---------- forgetting ---------- *)

Definition forgets (k : string) (o : op) : bool :=
  match o with
  | ForgetCall k' => String.eqb k k'
  | ForgetFn qn => String.prefix (slash qn) k
  | ForgetAll => true
  | _ => false
  end.

Definition is_forget (o : op) : bool :=
  match o with ForgetCall _ | ForgetFn _ | ForgetAll => true | _ => false end.

Lemma keys_evict_iff k c x : Inv c -> (In x (keys (tbl (evict k c))) <-> In x (keys (tbl c)) /\ x <> k).
Proof.
  intros Hi. unfold evict. destruct (lookup k (tbl c)) eqn:E; simpl.
  - apply keys_remove_key.
  - apply lookup_none_notin in E. split; [intros H; split; auto; intros ->; auto|tauto].
Qed.

Lemma keys_evict_list_iff ks c x :
  Inv c -> (In x (keys (tbl (evict_list ks c))) <-> In x (keys (tbl c)) /\ ~ In x ks).
Proof.
  revert c; induction ks as [|k ks IH]; simpl; intros c Hi; [tauto|].
  rewrite IH by (apply evict_inv; auto). rewrite keys_evict_iff by auto. intuition.
Qed.

Lemma forget_step_keys ef c o x :
  Inv c -> is_forget o = true ->
  (In x (keys (tbl (fst (step ef c o)))) <-> In x (keys (tbl c)) /\ forgets x o = false).
Proof.
  intros Hi Hf. destruct o; try discriminate; cbn [step fst forgets].
  - rewrite keys_evict_iff by (apply refs_irrelevant_inv; auto). cbn [tbl].
    destruct (String.eqb_spec x k); intuition congruence.
  - unfold forget_fn. fold (evict_list (filter (fun k => String.prefix (slash qn) k) (keys (tbl c)))
       {| budget := budget c; usage := usage c; lru := lru c; tbl := tbl c;
          refs := filter (fun kv => negb (String.prefix (slash qn) (fst kv))) (refs c) |}).
    rewrite keys_evict_list_iff by (apply refs_irrelevant_inv; auto). cbn [tbl].
    rewrite filter_In. destruct (String.prefix (slash qn) x); intuition congruence.
  - simpl. intuition congruence.
Qed.

(** Whatever sequence of forget operations covers every resident key leaves the cache empty,
    hence (by the invariant) the usage counter at zero. *)
Theorem forgetting_everything_zeroes ef c fs :
  Inv c -> Forall (fun o => is_forget o = true) fs ->
  (forall k, In k (keys (tbl c)) -> existsb (forgets k) fs = true) ->
  tbl (exec ef c fs) = [] /\ usage (exec ef c fs) = 0.
Proof.
  intros Hi Hfs Hcov.
  assert (Hkeys : forall x, In x (keys (tbl (exec ef c fs))) -> In x (keys (tbl c)) /\ existsb (forgets x) fs = false).
  { clear Hcov. revert c Hi. unfold exec.
    induction Hfs as [|o fs Ho Hfs IH]; intros c Hi x; simpl; [tauto|].
    intros H. apply IH in H; [|apply step_inv; auto; destruct o; simpl; auto; discriminate].
    destruct H as [H1 H2]. apply forget_step_keys in H1; auto. destruct H1 as [H1 H3].
    rewrite H3, H2. auto. }
  assert (Hinv : Inv (exec ef c fs)).
  { clear Hcov Hkeys. revert c Hi. unfold exec.
    induction Hfs as [|o fs Ho Hfs IH]; intros c Hi; simpl; auto.
    apply IH. apply step_inv; auto. destruct o; simpl; auto; discriminate. }
  assert (E : tbl (exec ef c fs) = []).
  { remember (exec ef c fs) as c' eqn:Ec'.
    destruct (tbl c') as [|[k e] t] eqn:E; auto. exfalso.
    destruct (Hkeys k) as [H1 H2]; [simpl; auto|].
    rewrite Hcov in H2 by auto. discriminate. }
  split; auto. destruct Hinv as (_ & _ & _ & Hu & _). rewrite Hu, E. reflexivity.
Qed.

(* ---------- recency ---------- *)

(** A served read ([read_result] hit with a value) and an [is_memoized] hit move the key to the
    most-recently-used end and change nothing else. *)
Lemma read_hit_refreshes ef c k e :
  lookup k (tbl c) = Some e -> ehas e = true ->
  step ef c (Read k) = (mark_used k c, OVal (evalue e)).
Proof. intros H1 H2. simpl. rewrite H1, H2. reflexivity. Qed.

Lemma ismem_hit_refreshes ef c k e :
  lookup k (tbl c) = Some e -> step ef c (IsMem k) = (mark_used k c, OBool true).
Proof. intros H1. simpl. rewrite H1. reflexivity. Qed.

Lemma mark_used_last k c : exists l, lru (mark_used k c) = l ++ [k] /\ l = remove_first k (lru c).
Proof. eexists; split; reflexivity. Qed.

(** [put] of a fitting result: the residents afterwards are the new key plus the old residents
    minus the key itself minus exactly the [n] least recently used, [n] least that makes room;
    the new key is the most recently used. *)
Theorem put_evicts_least_recently_used cf k m v sz (has : bool) wr c :
  Inv c -> 0 <= sz <= budget c ->
  let c1 := evict k c in
  exists n, (n <= List.length (lru c1))%nat /\
    lru (put cf k m v sz has wr c) = skipn n (lru c1) ++ [k] /\
    (forall x, In x (keys (tbl (put cf k m v sz has wr c))) <->
               x = k \/ (In x (keys (tbl c1)) /\ ~ In x (firstn n (lru c1)))) /\
    (forall j, (j < n)%nat -> usage (evict_list (firstn j (lru c1)) c1) + sz > budget c) /\
    usage (put cf k m v sz has wr c) <= budget c.
Proof.
  intros Hi Hsz c1.
  destruct (put_eqc cf k m v sz has wr c) as (_ & -> & -> & ->).
  unfold put_simple.
  set (c0' := if p_evict_first cf then evict k c else c).
  assert (Hi0' : Inv c0') by (unfold c0'; destruct (p_evict_first cf); auto using evict_inv).
  assert (Hb0' : budget c0' = budget c) by (unfold c0'; destruct (p_evict_first cf); rewrite ?budget_evict; auto).
  assert (Hc1 : evict k c0' = c1).
  { unfold c0', c1. destruct (p_evict_first cf); auto.
    (* evicting twice = evicting once *)
    assert (Hnk : ~ In k (keys (tbl (evict k c)))) by (apply evict_not_resident; auto).
    assert (Hi1 : Inv (evict k c)) by (apply evict_inv; auto).
    unfold evict at 1. apply lookup_none_notin in Hnk. rewrite Hnk.
    destruct Hi1 as (_ & _ & Hiff & _).
    rewrite remove_first_notin; [destruct (evict k c); reflexivity|].
    rewrite Hiff. apply lookup_none_notin; auto. }
  destruct (sz >? budget c0') eqn:Hov; [lia|]. rewrite Hc1.
  assert (Hi1 : Inv c1) by (unfold c1; apply evict_inv; auto).
  assert (Hb1 : budget c1 = budget c) by (unfold c1; rewrite budget_evict; auto).
  destruct (make_room_spec sz c1 Hi1) as (n & Hn & Heq & Hmin & Hsk & Hfin).
  pose proof (make_room_fits sz c1 Hi1 ltac:(lia)) as Hfit.
  exists n. cbn [lru tbl usage budget refs]. rewrite Heq in *. repeat split; auto.
  - rewrite Hsk. reflexivity.
  - rewrite keys_app, in_app_iff, keys_evict_list_iff by auto. cbn [keys map fst In]. intuition.
  - rewrite keys_app, in_app_iff, keys_evict_list_iff by auto. cbn [keys map fst In]. intuition.
  - intros j Hj. specialize (Hmin j Hj). lia.
  - lia.
Qed.
