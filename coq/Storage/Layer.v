(** Executable model of [StorageBackendBase] (storage_base.py: get_mementos, read_result,
    is_memoized, memoize, forget_*, list_*, read/write_metadata) with its write-through
    [MemoryCache] in front of an underlying store. The underlying metadata + data sources are
    represented by their specification (the dictionary of Spec.v); that the data-source stack
    implements that dictionary is the subject of Storage/VStore*.v, not of this file.

    The model also counts how often an operation has to consult the underlying store
    ([touch]), which is what "served without touching the underlying store" observes. *)
From Coq Require Import List ZArith String Bool.
From Memento Require Import Storage.Cache Storage.Spec.
Import ListNotations.
Open Scope Z_scope.

(* MemoryCache._cache_key_for_fn: qualified_name + "/" + arg_hash *)
Definition ck (k : ckey) : string := (fst k ++ "/" ++ snd k)%string.

Record lstate := { lc : cache; ld : dict }.

Definition linit (b : Z) : lstate := {| lc := init b; ld := dempty |}.

(** [nsz]: what the size estimator returns for [None] (a memento-only entry). *)
Section Layer.
Variable cf : pcfg.
Variable nsz : Z.

(* StorageBackendBase.get_mementos for one reference: (new cache, answer, touched the store?) *)
Definition l_get_memento (s : lstate) (k : ckey) : cache * option Z * bool :=
  match lookup (ck k) (tbl (lc s)) with
  | Some e => (lc s, Some (ememento e), false)
  | None =>
    match klookup k (calls (ld s)) with
    | Some (m, _) => (put cf (ck k) m 0 nsz false NoWeak (lc s), Some m, true)
    | None => (lc s, None, true)
    end
  end.

Definition lstep (s : lstate) (o : bop) : lstate * bout * bool :=
  match o with
  | BMemoize k m v sz wr =>
    (* write through to the cache first, then data, then metadata *)
    let c1 := put cf (ck k) m v sz true wr (lc s) in
    ({| lc := c1; ld := fst (dstep (ld s) o) |}, BNone, true)
  | BGetMemento k =>
    let '(c1, r, t) := l_get_memento s k in
    ({| lc := c1; ld := ld s |}, BMem r, t)
  | BReadResult k sz wr =>
    (* what a caller does: look the memento up, then read its result *)
    let '(c1, r, t) := l_get_memento s k in
    match r with
    | None => ({| lc := c1; ld := ld s |}, BVal None, t)
    | Some m =>
      match step cf c1 (Read (ck k)) with
      | (c2, OVal v) => ({| lc := c2; ld := ld s |}, BVal (Some v), t)
      | (c2, _) =>
        match klookup k (calls (ld s)) with
        | Some (_, v) => ({| lc := put cf (ck k) m v sz true wr c2; ld := ld s |}, BVal (Some v), true)
        | None => ({| lc := c2; ld := ld s |}, BVal None, true)   (* unreachable when coherent *)
        end
      end
    end
  | BIsMemoized k =>
    match step cf (lc s) (IsMem (ck k)) with
    | (c1, OBool true) => ({| lc := c1; ld := ld s |}, BBool true, false)
    | (c1, _) => ({| lc := c1; ld := ld s |}, snd (dstep (ld s) o), true)
    end
  | BForgetCall k =>
    ({| lc := fst (step cf (lc s) (ForgetCall (ck k))); ld := fst (dstep (ld s) o) |}, BNone, true)
  | BForgetFn qn =>
    ({| lc := fst (step cf (lc s) (ForgetFn qn)); ld := fst (dstep (ld s) o) |}, BNone, true)
  | BForgetAll =>
    ({| lc := fst (step cf (lc s) ForgetAll); ld := dempty |}, BNone, true)
  | BListFns | BListMementos _ | BWriteMeta _ _ _ | BReadMeta _ _ =>
    (* listings and custom metadata never consult the cache *)
    let '(d1, x) := dstep (ld s) o in ({| lc := lc s; ld := d1 |}, x, true)
  | BGc => ({| lc := gc_all (lc s); ld := ld s |}, BNone, false)
  end.

Fixpoint lrun (s : lstate) (ops : list bop) : list bout :=
  match ops with
  | [] => []
  | o :: r => let '(s1, x, _) := lstep s o in x :: lrun s1 r
  end.

(** correspondence support *)
Definition bout_eqb (a b : bout) : bool :=
  match a, b with
  | BNone, BNone => true
  | BMem None, BMem None => true
  | BMem (Some x), BMem (Some y) => Z.eqb x y
  | BVal None, BVal None => true
  | BVal (Some x), BVal (Some y) => Z.eqb x y
  | BBool x, BBool y => Bool.eqb x y
  | BFns x, BFns y => same_set x y
  | BMems x, BMems y =>
    forallb (fun a => existsb (Z.eqb a) y) x && forallb (fun a => existsb (Z.eqb a) x) y
    && Nat.eqb (List.length x) (List.length y)
  | BMeta None, BMeta None => true
  | BMeta (Some x), BMeta (Some y) => Z.eqb x y
  | _, _ => false
  end.

(** one recorded step of the implementation with a cache: operation, answer, usage counter,
    resident cache keys, and whether any file under the store root was opened *)
Definition lrec : Type := bop * (bout * Z * list string * bool).

(** result code: None = agreement; Some (3*i + r): at step i, r = 0 answer differs,
    r = 1 cache accounting / resident set differs, r = 2 store was touched although the model
    serves the operation from the cache *)
Fixpoint lcheck (s : lstate) (i : nat) (steps : list lrec) : option nat :=
  match steps with
  | [] => None
  | (o, (x, u, res, touched)) :: r =>
    let '(s1, y, t) := lstep s o in
    if negb (bout_eqb x y) then Some (3 * i)%nat
    else if negb (Z.eqb u (usage (lc s1)) && same_set res (keys (tbl (lc s1)))) then Some (3 * i + 1)%nat
    else if touched && negb t then Some (3 * i + 2)%nat
    else lcheck s1 (S i) r
  end.

End Layer.

(** the same for a backend without a cache: compare with the dictionary only *)
Fixpoint dcheck (d : dict) (i : nat) (steps : list (bop * bout)) : option nat :=
  match steps with
  | [] => None
  | (o, x) :: r =>
    let '(d1, y) := dstep d o in
    if bout_eqb x y then dcheck d1 (S i) r else Some i
  end.
