(** Read-only and null back-ends (C19).
    [rostep]: [StorageBackendBase] / [MemoryStorageBackend] opened read-only: memoize returns
    silently without touching anything, the forgets and metadata writes raise ValueError, every
    read behaves as usual (a read may still fill the memory cache — memory, not storage).
    [nullstep]: [NullStorageBackend]. [null_runner]: [NullRunnerBackend.batch_run]. *)
From Coq Require Import List ZArith String Bool.
From Memento Require Import Base.Strs Storage.Cache Storage.Spec Storage.Layer Storage.LayerProofs.
Import ListNotations.
Open Scope Z_scope.

Inductive rout := RAns (x : bout) | RRejected.      (* RRejected = ValueError *)

Definition is_write (o : bop) : bool :=
  match o with
  | BMemoize _ _ _ _ _ | BForgetCall _ | BForgetFn _ | BForgetAll | BWriteMeta _ _ _ => true
  | _ => false
  end.

Section RO.
Variable cf : pcfg.
Variable nsz : Z.

Definition rostep (s : lstate) (o : bop) : lstate * rout :=
  match o with
  | BMemoize _ _ _ _ _ => (s, RAns BNone)
  | BForgetCall _ | BForgetFn _ | BForgetAll | BWriteMeta _ _ _ => (s, RRejected)
  | _ => let '(s1, x, _) := lstep cf nsz s o in (s1, RAns x)
  end.

Fixpoint rorun (s : lstate) (ops : list bop) : lstate * list rout :=
  match ops with
  | [] => (s, [])
  | o :: r => let '(s1, x) := rostep s o in let '(s2, xs) := rorun s1 r in (s2, x :: xs)
  end.

(* what the dictionary answers to the same history when writes are ignored *)
Fixpoint ro_spec (d : dict) (ops : list bop) : list rout :=
  match ops with
  | [] => []
  | o :: r =>
    (match o with
     | BMemoize _ _ _ _ _ => RAns BNone
     | BForgetCall _ | BForgetFn _ | BForgetAll | BWriteMeta _ _ _ => RRejected
     | _ => RAns (snd (dstep d o))
     end) :: ro_spec d r
  end.
End RO.

(** null storage: nothing is ever memoized, nothing is ever stored *)
Definition nullstep (o : bop) : bout :=
  match o with
  | BGetMemento _ => BMem None
  | BIsMemoized _ => BBool false
  | BListFns => BFns []
  | BReadMeta _ _ => BMeta None
  | BReadResult _ _ _ => BVal None
  | _ => BNone
  end.

(** null runner: a batch of calls yields an error and the number of bodies executed is 0 *)
Definition null_runner (calls : list ckey) : (option (list Z)) * nat := (None, 0%nat).

(** correspondence support *)
Definition rout_eqb cfb (a b : rout) : bool :=
  match a, b with
  | RRejected, RRejected => true
  | RAns x, RAns y => cfb x y
  | _, _ => false
  end.

Fixpoint rocheck (cf : pcfg) (nsz : Z) (s : lstate) (i : nat) (steps : list (bop * rout)) : option nat :=
  match steps with
  | [] => None
  | (o, x) :: r =>
    let '(s1, y) := rostep cf nsz s o in
    if rout_eqb bout_eqb x y then rocheck cf nsz s1 (S i) r else Some i
  end.

(* pre-populate: run the writable model, then check a read-only history against it *)
Definition rocase (cf : pcfg) (c : Z * Z * list bop * list (bop * rout)) : option nat :=
  let '(b, nsz, pre, steps) := c in
  let s := fold_left (fun s o => fst (fst (lstep cf nsz s o))) pre (linit b) in
  rocheck cf nsz {| lc := init b; ld := ld s |} 0 steps.
