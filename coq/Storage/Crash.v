(** C08 — crash / I/O-fault model of the filesystem store around one memoized result.

    The slice of the store that matters to "every call still returns the correct value, raises
    nothing, and memoization recovers" is finite once contents are abstracted by the content
    integrity of C07: the link of the content key and the object it points to, and, for each of
    two callers [F] and [G] whose results serialize to the same bytes, the memento link, the
    memento object and the state of the data object that memento names.

    - [ost]: state of a version object file: missing / created but incomplete / complete
    - [lnk]: what a reader of a ".link" file finds: no file / empty file (Path('') = '.') /
      a prefix of the path that is an existing directory / any other prefix (dangling) / the
      full path
    - a write protocol is a list of primitive steps ([prim]); a crash keeps a prefix of it, and a
      crash (or ENOSPC) in the middle of a link write leaves one of the three truncated forms
    - readers: [exists_nonversioned], [get_versioned_key], [_read_memento], [read_result]
      follow storage_filesystem.py / storage_base.py / runner.py, including which exceptions are
      IOError (handled: recompute) and which are not (unpickling / JSON errors: they escape)
    Configuration [ccfg] = source facts: does the reader require the link target to be a file;
    object before link; data before memento; links written atomically. *)
From Coq Require Import List Bool Arith.
Import ListNotations.

Inductive ost := OMissing | OPartial | OFull | OPending.   (* OPending: "the object being written now" *)
Inductive lnk (A : Type) := LAbsent | LEmpty | LDirPrefix | LDangling | LFull (t : A).
Arguments LAbsent {A}. Arguments LEmpty {A}. Arguments LDirPrefix {A}. Arguments LDangling {A}.
Arguments LFull {A} t.

Inductive mobj := MMissing | MPartial | MFull (ref : ost) | MPending.  (* MPending: the memento object being written *)

Inductive who := F | G.

Record st := {
  dl : lnk ost;        (* content-key link -> state of its target object *)
  pd : ost;            (* data object being written by the current memoize (OMissing: none) *)
  mF : lnk mobj;  mG : lnk mobj;
  pm : mobj            (* memento object being written (MPartial before its bytes are complete) *)
}.

Definition st0 : st := {| dl := LAbsent; pd := OMissing; mF := LAbsent; mG := LAbsent; pm := MMissing |}.

Record ccfg := {
  rd_is_file : bool;     (* exists_nonversioned requires the link's target to be a regular file *)
  obj_first : bool;      (* DataSource.output writes the object before its link *)
  data_first : bool;     (* memoize writes the data (and its link) before the memento *)
  atomic_links : bool    (* link files appear with their full content (temp + rename) *)
}.

Definition get_m (x : who) (s : st) := match x with F => mF s | G => mG s end.
Definition set_m (x : who) (l : lnk mobj) (s : st) : st :=
  match x with
  | F => {| dl := dl s; pd := pd s; mF := l; mG := mG s; pm := pm s |}
  | G => {| dl := dl s; pd := pd s; mF := mF s; mG := l; pm := pm s |}
  end.
Definition set_dl l (s : st) := {| dl := l; pd := pd s; mF := mF s; mG := mG s; pm := pm s |}.
Definition set_pd o (s : st) := {| dl := dl s; pd := o; mF := mF s; mG := mG s; pm := pm s |}.
Definition set_pm o (s : st) := {| dl := dl s; pd := pd s; mF := mF s; mG := mG s; pm := o |}.

(* ---------- readers ---------- *)

Section Readers.
Variable c : ccfg.

(* _FilesystemDataSource.exists_nonversioned *)
Definition exists_d (s : st) : bool :=
  match dl s with
  | LAbsent => false
  | LEmpty | LDirPrefix => negb (rd_is_file c)
  | LDangling => false
  | LFull OMissing => false
  | LFull _ => true
  end.

Definition exists_m (x : who) (s : st) : bool :=
  match get_m x s with
  | LAbsent => false
  | LEmpty | LDirPrefix => negb (rd_is_file c)
  | LDangling => false
  | LFull MMissing => false
  | LFull _ => true
  end.

(* get_versioned_key: the state of the object named by the version read from the link *)
Definition reuse_ref (s : st) : ost :=
  match dl s with LFull o => o | _ => OMissing end.

Inductive rres := RIOError | RGarbage | ROk.

(* what reading the memento through its link gives: IOError / non-IOError failure / a memento
   naming a data object in state [o] *)
Definition read_memento (x : who) (s : st) : rres * ost :=
  match get_m x s with
  | LFull MPartial => (RGarbage, OMissing)
  | LFull MPending => (RGarbage, OMissing)
  | LFull MMissing => (RIOError, OMissing)
  | LFull (MFull o) => (ROk, o)
  | _ => (RIOError, OMissing)
  end.

Definition read_data (o : ost) : rres :=
  match o with OMissing => RIOError | OPartial | OPending => RGarbage | OFull => ROk end.

(* ---------- the write protocol of memoize ---------- *)

Inductive prim :=
| PDObjCreate | PDObjWrite | PDLinkCreate | PDLinkWrite
| PMObjCreate (r : ost) | PMObjWrite (r : ost) | PMLinkCreate (x : who) | PMLinkWrite (x : who).

Definition out_obj_link (atomic : bool) (o1 o2 l1 l2 : prim) : list prim :=
  let link := if atomic then [l2] else [l1; l2] in
  if obj_first c then [o1; o2] ++ link else link ++ [o1; o2].

(** the trace memoize performs for caller [x] on store [s] *)
Definition memoize_trace (x : who) (s : st) : list prim :=
  let reuse := exists_d s in
  let data := if reuse then [] else out_obj_link (atomic_links c) PDObjCreate PDObjWrite PDLinkCreate PDLinkWrite in
  let r := if reuse then reuse_ref s else OPending in
  let mem := out_obj_link (atomic_links c) (PMObjCreate r) (PMObjWrite r) (PMLinkCreate x) (PMLinkWrite x) in
  if data_first c then data ++ mem else mem ++ data.

Definition apply_prim (s : st) (p : prim) : st :=
  match p with
  | PDObjCreate => set_pd OPartial s
  | PDObjWrite => set_pd OFull s
  | PDLinkCreate => set_dl LEmpty s
  | PDLinkWrite => set_dl (LFull OPending) s
  | PMObjCreate _ => set_pm MPartial s
  | PMObjWrite r => set_pm (MFull r) s
  | PMLinkCreate x => set_m x LEmpty s
  | PMLinkWrite x => set_m x (LFull MPending) s
  end.

(** when the memoize ends (normally, by a crash, or by an I/O error) the "pending" references
    are frozen to what the objects being written have become *)
Definition res_o (p : ost) (o : ost) : ost := match o with OPending => p | _ => o end.
Definition res_m (s : st) (m : mobj) : mobj :=
  match m with
  | MPending => match pm s with MFull r => MFull (res_o (pd s) r) | other => other end
  | MFull r => MFull (res_o (pd s) r)
  | MPartial => MPartial
  | MMissing => MMissing
  end.
Definition res_l {A} (f : A -> A) (l : lnk A) : lnk A :=
  match l with LFull t => LFull (f t) | other => other end.

Definition settle (s : st) : st :=
  {| dl := res_l (res_o (match pd s with OPending => OMissing | o => o end)) (dl s);
     pd := OMissing;
     mF := res_l (res_m s) (mF s); mG := res_l (res_m s) (mG s);
     pm := MMissing |}.

(** truncated forms of a link caught in the middle of being written in place *)
Inductive trunc := TNone | TEmpty | TDirPrefix | TDangling.

Definition trunc_lnk {A} (t : trunc) (full : lnk A) : lnk A :=
  match t with TNone => full | TEmpty => LEmpty | TDirPrefix => LDirPrefix | TDangling => LDangling end.

(** state after a crash (or reported I/O error) having completed [n] primitives of [tr]; if the
    next primitive is an in-place link write, the link may be left truncated as [t] *)
Definition crash_at (n : nat) (t : trunc) (tr : list prim) (s : st) : st :=
  let s1 := fold_left apply_prim (firstn n tr) s in
  let s2 := if atomic_links c then s1 else
            match nth_error tr n, t with
            | Some PDLinkWrite, TNone => s1
            | Some PDLinkWrite, _ => set_dl (trunc_lnk t LEmpty) s1
            | Some (PMLinkWrite x), TNone => s1
            | Some (PMLinkWrite x), _ => set_m x (trunc_lnk t LEmpty) s1
            | _, _ => s1
            end in
  settle s2.

(* ---------- a call (the runner's path), on a settled store ---------- *)

Inductive outcome := Value | Raised.

(** lookup -> (read | compute -> is_memoized? -> memoize); [fault]: None = the call completes;
    Some (n, t) = its memoize is cut after n primitives (process death, or ENOSPC/EFBIG which the
    runner swallows) *)
Definition after_memoize (x : who) (fault : option (nat * trunc)) (s : st) : st :=
  let tr := memoize_trace x s in
  match fault with
  | None => crash_at (length tr) TNone tr s
  | Some (n, t) => crash_at n t tr s
  end.

Definition call (x : who) (fault : option (nat * trunc)) (s : st) : outcome * bool * st :=
  let compute :=
    if exists_m x s then (Value, true, s)               (* "memoized elsewhere": nothing is written *)
    else (Value, true, after_memoize x fault s) in
  match read_memento x s with
  | (RGarbage, _) => (Raised, false, s)
  | (RIOError, _) => compute
  | (ROk, o) =>
    match read_data o with
    | ROk => (Value, false, s)
    | RGarbage => (Raised, false, s)
    | RIOError => compute
    end
  end.

(** the property at one state: each caller gets the value and raises nothing, and once a later
    write succeeds the next call is served from the store *)
Definition good_for (x : who) (s : st) : bool :=
  match call x None s with
  | (Value, _, s1) =>
    match call x None s1 with
    | (Value, false, _) => true
    | _ => false
    end
  | _ => false
  end.

Definition good (s : st) : bool := good_for F s && good_for G s.

(* ---------- every history of calls, crashes and faults ---------- *)

Definition faults : list (option (nat * trunc)) :=
  None :: flat_map (fun n => [Some (n, TNone); Some (n, TEmpty); Some (n, TDirPrefix); Some (n, TDangling)])
                   (seq 0 10).

Definition events : list (who * option (nat * trunc)) :=
  flat_map (fun f => [(F, f); (G, f)]) faults.

Definition step (s : st) (e : who * option (nat * trunc)) : st := snd (call (fst e) (snd e) s).

End Readers.

(** decidable equality on states, for the reachability computation *)
Definition ost_eqb (a b : ost) : bool :=
  match a, b with OMissing, OMissing | OPartial, OPartial | OFull, OFull | OPending, OPending => true | _, _ => false end.
Definition mobj_eqb (a b : mobj) : bool :=
  match a, b with MMissing, MMissing | MPartial, MPartial | MPending, MPending => true | MFull x, MFull y => ost_eqb x y | _, _ => false end.
Definition lnk_eqb {A} (f : A -> A -> bool) (a b : lnk A) : bool :=
  match a, b with
  | LAbsent, LAbsent | LEmpty, LEmpty | LDirPrefix, LDirPrefix | LDangling, LDangling => true
  | LFull x, LFull y => f x y
  | _, _ => false
  end.
Definition st_eqb (a b : st) : bool :=
  lnk_eqb ost_eqb (dl a) (dl b) && ost_eqb (pd a) (pd b) && lnk_eqb mobj_eqb (mF a) (mF b)
  && lnk_eqb mobj_eqb (mG a) (mG b) && mobj_eqb (pm a) (pm b).

Definition mem_st (s : st) (l : list st) : bool := existsb (st_eqb s) l.

(** states reachable from the empty store by calls, crashes and faults: closure with fuel *)
Fixpoint closure (c : ccfg) (fuel : nat) (seen frontier : list st) : list st :=
  match fuel with
  | O => seen
  | S f =>
    let next := flat_map (fun s => map (step c s) events) frontier in
    let fresh := fold_left (fun acc s => if mem_st s acc || mem_st s seen then acc else s :: acc) next [] in
    match fresh with
    | [] => seen
    | _ => closure c f (fresh ++ seen) fresh
    end
  end.

Definition reach (c : ccfg) : list st := closure c 40 [st0] [st0].

Definition closed (c : ccfg) (r : list st) : bool :=
  mem_st st0 r && forallb (fun s => forallb (fun e => mem_st (step c s e) r) events) r.

Definition all_good (c : ccfg) (r : list st) : bool := forallb (good c) r.

Definition crash_ok (c : ccfg) : bool := let r := reach c in closed c r && all_good c r.
