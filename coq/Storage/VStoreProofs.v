(** C07 over the data-source model (VStore.v), for every history: content integrity,
    deduplication, immutability of stored objects, forget never deletes data. *)
From Coq Require Import List ZArith String Bool Lia.
From Memento Require Import Base.Strs Storage.Cache Storage.CacheProofs Storage.Spec Storage.LayerProofs Storage.VStore.
Import ListNotations.
Open Scope Z_scope.

Lemma okey_eqb_spec a b : reflect (a = b) (okey_eqb a b).
Proof.
  destruct a as [a1 a2], b as [b1 b2]. unfold okey_eqb; simpl.
  destruct (String.eqb_spec a1 b1), (Z.eqb_spec a2 b2); constructor; congruence.
Qed.

Lemma olookup_in k t c : olookup k t = Some c -> In (k, c) t.
Proof.
  induction t as [|[k' c'] t IH]; simpl; [discriminate|].
  destruct (okey_eqb_spec k k') as [->|]; intros E; [inversion E; auto|auto].
Qed.

Lemma in_olookup k t c : NoDup (map fst t) -> In (k, c) t -> olookup k t = Some c.
Proof.
  induction t as [|[k' c'] t IH]; simpl; [tauto|].
  intros Hnd [E|E]; inversion Hnd as [|? ? Hni Hnd']; subst.
  - inversion E; subst. destruct (okey_eqb_spec k k); [reflexivity|congruence].
  - destruct (okey_eqb_spec k k') as [->|]; [|auto].
    exfalso. apply Hni. apply in_map_iff. exists (k', c). auto.
Qed.

Lemma olookup_none k t : olookup k t = None -> forall c, ~ In (k, c) t.
Proof.
  induction t as [|[k' c'] t IH]; simpl; [tauto|].
  destruct (okey_eqb_spec k k') as [->|Hn]; [discriminate|].
  intros E c [E2|E2]; [inversion E2; congruence|eapply IH; eauto].
Qed.

Section Proofs.
Variable H : Z -> string.

Definition is_content_key (k : string) : bool := String.prefix "c/" k.

(** the invariant of the data store *)
Definition DInv (d : store) : Prop :=
  (* integrity: what lies under a content key hashes to that key *)
  (forall k v c, In ((k, v), c) (objs d) -> is_content_key k = true -> k = ckey_of H c) /\
  (* versions are fresh, hence (key, version) identifies one object *)
  (forall k v c, In ((k, v), c) (objs d) -> v < nextv d) /\
  NoDup (map fst (objs d)) /\
  (* dedup: a content key has at most one version, and its link points to it *)
  (forall k v c, In ((k, v), c) (objs d) -> is_content_key k = true -> lookup k (links d) = Some v).

Lemma dinv_empty : DInv sempty.
Proof. repeat split; simpl; try tauto; constructor. Qed.

Lemma dinv_wipe d : DInv (wipe d).
Proof. repeat split; simpl; try tauto; constructor. Qed.

Lemma dinv_delete_link k d : is_content_key k = false -> DInv d -> DInv (delete_link k d).
Proof.
  intros Hk (H1 & H2 & H3 & H4). repeat split; simpl; auto.
  intros k' v c Hin Hc. rewrite lookup_remove_key.
  destruct (String.eqb_spec k' k) as [->|]; [congruence|]. eauto.
Qed.

Lemma dinv_output k c d :
  DInv d -> (is_content_key k = true -> k = ckey_of H c /\ exists_nv k d = false) ->
  DInv (fst (output k c d)).
Proof.
  intros (H1 & H2 & H3 & H4) Hk. unfold output; simpl. repeat split; simpl.
  - intros k' v c' Hin Hc. apply in_app_iff in Hin. destruct Hin as [Hin|[E|[]]]; [eauto|].
    inversion E; subst. apply Hk; auto.
  - intros k' v c' Hin. apply in_app_iff in Hin. destruct Hin as [Hin|[E|[]]].
    + apply H2 in Hin. lia.
    + inversion E; subst. lia.
  - rewrite map_app. simpl.
    apply Permutation.Permutation_NoDup with (l := (k, nextv d) :: map fst (objs d)).
    + apply Permutation.Permutation_cons_append.
    + constructor; auto. intros Hin. apply in_map_iff in Hin. destruct Hin as [[[k' v'] c'] [E Hin]].
      simpl in E. inversion E; subst. apply H2 in Hin. lia.
  - intros k' v c' Hin Hc. rewrite lookup_set_key. apply in_app_iff in Hin.
    destruct Hin as [Hin|[E|[]]].
    + destruct (String.eqb_spec k' k) as [->|]; [|eauto].
      (* an older version under the same content key would have made exists_nv true *)
      exfalso. destruct (Hk Hc) as [_ Hex]. unfold exists_nv in Hex.
      rewrite (H4 _ _ _ Hin Hc) in Hex. rewrite (in_olookup _ _ _ H3 Hin) in Hex. discriminate.
    + inversion E; subst. rewrite String.eqb_refl. reflexivity.
Qed.

(** well-formed operations: an override key is never inside the content namespace *)
Definition wfv (o : vop) : Prop :=
  match o with
  | VMemoize _ _ _ _ (Some ok) => is_content_key ok = false
  | _ => True
  end.

Lemma ckey_is_content c : is_content_key (ckey_of H c) = true.
Proof. unfold is_content_key, ckey_of. apply (prefix_app_self "c/"). Qed.

Lemma dinv_store_result c null ov d :
  (match ov with Some ok => is_content_key ok = false | None => True end) ->
  DInv d -> DInv (fst (store_result H c null ov d)).
Proof.
  intros Hov Hd. unfold store_result. destruct null.
  - destruct ov; simpl; auto. apply dinv_delete_link; auto.
  - destruct ov as [ok|].
    + simpl. apply (dinv_output ok c d Hd). intros Hc. congruence.
    + destruct (exists_nv (ckey_of H c) d) eqn:Ex; simpl; auto.
      apply (dinv_output (ckey_of H c) c d Hd). auto.
Qed.

Lemma data_vstep s o :
  data (vstep H s o) =
  match o with
  | VMemoize _ _ c null ov => fst (store_result H c null ov (data s))
  | VForgetAll => if shared s then wipe (data s) else data s
  | _ => data s
  end.
Proof.
  destruct o; simpl; auto. destruct (store_result H c null override (data s)); reflexivity.
Qed.

(** content integrity + dedup + fresh versions hold after every history *)
Theorem data_invariant : forall ops s, Forall wfv ops -> DInv (data s) -> DInv (data (vexec H s ops)).
Proof.
  induction ops as [|o ops IH]; intros s Hw Hd; [exact Hd|].
  inversion Hw as [|? ? Ho Hops]; subst. cbn [vexec fold_left]. apply IH; auto.
  rewrite data_vstep. destruct o; auto.
  - apply dinv_store_result; auto.
  - destruct (shared s); auto using dinv_wipe.
Qed.

Corollary content_integrity : forall sh ops k v c,
  Forall wfv ops -> In ((k, v), c) (objs (data (vexec H (vinit sh) ops))) ->
  is_content_key k = true -> k = ckey_of H c.
Proof.
  intros sh ops k v c Hw Hin Hc.
  destruct (data_invariant ops (vinit sh) Hw dinv_empty) as (H1 & _). eauto.
Qed.

Corollary dedup : forall sh ops k v v' c c',
  Forall wfv ops ->
  let d := data (vexec H (vinit sh) ops) in
  In ((k, v), c) (objs d) -> In ((k, v'), c') (objs d) -> is_content_key k = true -> v = v' /\ c = c'.
Proof.
  intros sh ops k v v' c c' Hw d Hin Hin' Hc.
  destruct (data_invariant ops (vinit sh) Hw dinv_empty) as (H1 & H2 & H3 & H4). fold d in H1, H2, H3, H4.
  pose proof (H4 _ _ _ Hin Hc) as E1. pose proof (H4 _ _ _ Hin' Hc) as E2.
  rewrite E1 in E2. inversion E2; subst. split; auto.
  pose proof (in_olookup _ _ _ H3 Hin) as L1. pose proof (in_olookup _ _ _ H3 Hin') as L2. congruence.
Qed.

(** stored objects are immutable: unless everything is forgotten on a shared tree, an object
    present in the data store stays there with the same content, whatever is memoized,
    overwritten under the same override key or forgotten afterwards *)
Definition not_wiping (s : vstate) (o : vop) : Prop :=
  match o with VForgetAll => shared s = false | _ => True end.

Lemma shared_vstep s o : shared (vstep H s o) = shared s.
Proof. destruct o; simpl; auto. destruct (store_result H c null override (data s)); reflexivity. Qed.

Lemma objs_store_result c null ov d x :
  In x (objs d) -> In x (objs (fst (store_result H c null ov d))).
Proof.
  intros Hin. unfold store_result. destruct null.
  - destruct ov; simpl; auto.
  - destruct ov as [ok|]; simpl.
    + apply in_app_iff; auto.
    + destruct (exists_nv _ d); simpl; auto. apply in_app_iff; auto.
Qed.

Theorem objects_immutable : forall ops s x,
  (forall o, In o ops -> o = VForgetAll -> shared s = false) ->
  In x (objs (data s)) -> In x (objs (data (vexec H s ops))).
Proof.
  induction ops as [|o ops IH]; intros s x Hnw Hin; [exact Hin|].
  cbn [vexec fold_left]. apply IH.
  - intros o' Ho' E. rewrite shared_vstep. apply (Hnw o'); simpl; auto.
  - rewrite data_vstep. destruct o; auto.
    + apply objs_store_result; auto.
    + rewrite (Hnw VForgetAll); simpl; auto.
Qed.

(** hence a memento keeps reading exactly the bytes stored when it was created *)
Lemma mck_vstep_keeps s o m vk :
  zlookup m (mck s) = Some vk -> (forall k m' c n ov, o = VMemoize k m' c n ov -> m' <> m) ->
  zlookup m (mck (vstep H s o)) = Some vk.
Proof.
  intros Hl Hfresh. destruct o; simpl; auto.
  destruct (store_result H c null override (data s)) as [d1 vk1]. simpl.
  destruct (Z.eqb_spec m m0) as [->|]; auto. exfalso. eapply Hfresh; eauto.
Qed.

Theorem memento_reads_its_bytes : forall ops s m c,
  DInv (data s) -> Forall wfv ops ->
  (forall o, In o ops -> o = VForgetAll -> shared s = false) ->
  (forall k m' c' n ov, In (VMemoize k m' c' n ov) ops -> m' <> m) ->
  read_memento s m = Some c -> read_memento (vexec H s ops) m = Some c.
Proof.
  induction ops as [|o ops IH]; intros s m c Hd Hw Hnw Hfresh Hr; [exact Hr|].
  inversion Hw as [|? ? Ho Hops]; subst. cbn [vexec fold_left]. apply IH; auto.
  - change (data (vstep H s o)) with (data (vexec H s [o])). apply data_invariant; auto.
  - intros o' Ho' E. rewrite shared_vstep. apply (Hnw o'); simpl; auto.
  - intros. eapply Hfresh. right. eauto.
  - unfold read_memento in *.
    destruct (zlookup m (mck s)) as [[vk|]|] eqn:E; try discriminate.
    rewrite (mck_vstep_keeps s o m (Some vk) E).
    2:{ intros k m' c' n ov ->. eapply Hfresh. left. reflexivity. }
    assert (Hd1 : DInv (data (vexec H s [o]))) by (apply data_invariant; auto).
    cbn [vexec fold_left] in Hd1. destruct Hd1 as (_ & _ & Hnd & _).
    apply in_olookup; auto.
    change (data (vstep H s o)) with (data (vexec H s [o])).
    apply objects_immutable.
    + intros o' [<-|[]] E'. apply (Hnw o); simpl; auto.
    + apply olookup_in; auto.
Qed.

(** forgetting a call or a function deletes nothing from the data store *)
Theorem forget_keeps_data : forall s o,
  (match o with VForgetCall _ | VForgetFn _ | VWriteMeta _ _ _ => True | _ => False end) ->
  data (vstep H s o) = data s.
Proof. intros s o Ho. destruct o; simpl; tauto || reflexivity. Qed.

End Proofs.
