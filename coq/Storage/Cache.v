(** Executable model of [twosigma.memento.storage_base.MemoryCache]
    (storage_base.py: _mark_used, _evict, get_mementos, read_result, is_memoized,
    _put_ref, put, forget_call, forget_everything, forget_function).

    Transcription rules:
    - [cache : Dict[str,_CacheEntry]]      -> [tbl : list (string * entry)] (insertion order kept)
    - [lru_deque : deque]                  -> [lru : list string], left end = head
    - [memory_usage : int]                 -> [usage : Z] (Z, not N: a drifting counter can go negative here as in Python)
    - [refs : WeakValueDictionary]         -> [refs : list (string * Z)] plus the environment op [GcAll]
    - a value / a memento                  -> an abstract identifier in Z
    - [_estimate_object_size(result)]      -> the [sz] carried by the [Put] operation (oracle: whatever the estimator returned)
    - [try: refs[k] = v except TypeError]  -> the [wr] flag of [Put] (is the value weak-referenceable?)
    No proofs in this file. *)
From Coq Require Import List ZArith String Bool.
Import ListNotations.
Open Scope Z_scope.

Record entry := { esize : Z; ememento : Z; evalue : Z; ehas : bool }.

Record cache := {
  budget : Z;
  usage  : Z;
  lru    : list string;
  tbl    : list (string * entry);
  refs   : list (string * Z)
}.

Definition init (b : Z) : cache :=
  {| budget := b; usage := 0; lru := []; tbl := []; refs := [] |}.

Fixpoint lookup {A} (k : string) (t : list (string * A)) : option A :=
  match t with
  | [] => None
  | (k', e) :: r => if String.eqb k k' then Some e else lookup k r
  end.

Fixpoint remove_key {A} (k : string) (t : list (string * A)) : list (string * A) :=
  match t with
  | [] => []
  | (k', e) :: r => if String.eqb k k' then remove_key k r else (k', e) :: remove_key k r
  end.

(* deque.remove(x): removes the first occurrence *)
Fixpoint remove_first (k : string) (l : list string) : list string :=
  match l with
  | [] => []
  | x :: r => if String.eqb k x then r else x :: remove_first k r
  end.

Fixpoint total (t : list (string * entry)) : Z :=
  match t with [] => 0 | (_, e) :: r => esize e + total r end.

Definition keys {A} (t : list (string * A)) : list string := map fst t.

Definition set_key {A} (k : string) (v : A) (t : list (string * A)) : list (string * A) :=
  remove_key k t ++ [(k, v)].

(* _evict *)
Definition evict (k : string) (c : cache) : cache :=
  let c1 :=
    match lookup k (tbl c) with
    | Some e => {| budget := budget c; usage := usage c - esize e; lru := lru c;
                   tbl := remove_key k (tbl c); refs := refs c |}
    | None => c
    end in
  {| budget := budget c1; usage := usage c1; lru := remove_first k (lru c1);
     tbl := tbl c1; refs := refs c1 |}.

(* _mark_used *)
Definition mark_used (k : string) (c : cache) : cache :=
  {| budget := budget c; usage := usage c; lru := remove_first k (lru c) ++ [k];
     tbl := tbl c; refs := refs c |}.

(* while len(lru) > 0 and usage + sz > budget: _evict(lru.popleft()) *)
Fixpoint make_room (fuel : nat) (sz : Z) (c : cache) : cache :=
  match fuel with
  | O => c
  | S f =>
    match lru c with
    | [] => c
    | x :: r =>
      if usage c + sz >? budget c
      then make_room f sz
             (evict x {| budget := budget c; usage := usage c; lru := r;
                         tbl := tbl c; refs := refs c |})
      else c
    end
  end.

(** Is the result weak-referenceable, and does [put] replace it by a private copy
    ("view busting" of DataFrame / Series) before caching it? *)
Inductive wkind := NoWeak | Weak | WeakCopy.

Definition with_refs (r : list (string * Z)) (c : cache) : cache :=
  {| budget := budget c; usage := usage c; lru := lru c; tbl := tbl c; refs := r |}.

(* _put_ref: try: refs[k] = v except TypeError: pass *)
Definition put_ref (k : string) (v : Z) (wr : wkind) (c : cache) : cache :=
  match wr with
  | NoWeak => c
  | _ => with_refs (set_key k v (refs c)) c
  end.

(** Source facts about [put] (Gen/SourceFacts.v), so that the model follows the code as it is:
    [p_evict_first]: the existing entry for the key is evicted before the oversize early return;
    [p_clear_ref]: a weak reference left by an earlier result of the same call is dropped when a
    new result is put. *)
Record pcfg := { p_evict_first : bool; p_clear_ref : bool }.

Definition put (cf : pcfg) (k : string) (m v sz : Z) (has : bool) (wr : wkind) (c : cache) : cache :=
  let c0 := if has
            then put_ref k v wr (if p_clear_ref cf then with_refs (remove_key k (refs c)) c else c)
            else c in
  let c0' := if p_evict_first cf then evict k c0 else c0 in
  if sz >? budget c0' then c0' else
  (* the cached object of a copied result is a private copy: the weak reference now points to
     an object that only the cache entry keeps alive, hence is never observable *)
  let c0'' := match wr with
              | WeakCopy => if has then with_refs (remove_key k (refs c0')) c0' else c0'
              | _ => c0' end in
  let c1 := evict k c0'' in
  let c2 := make_room (List.length (lru c1)) sz c1 in
  {| budget := budget c2; usage := usage c2 + sz; lru := lru c2 ++ [k];
     tbl := tbl c2 ++ [(k, {| esize := sz; ememento := m; evalue := v; ehas := has |})];
     refs := refs c2 |}.

Inductive op :=
| Put (k : string) (m v sz : Z) (has : bool) (wr : wkind)
| Read (k : string)
| IsMem (k : string)
| GetM (k : string)
| ForgetCall (k : string)
| ForgetFn (qn : string)       (* forget_function: every key starting with qn ++ "/" *)
| ForgetAll
| GcAll.                       (* environment: the caller drops every result it still holds *)

Inductive out :=
| ONone                        (* the operation returns nothing *)
| OVal (v : Z)                 (* read_result hit *)
| OKeyError                    (* read_result miss *)
| OBool (b : bool)
| OMem (m : option Z).

Definition slash (qn : string) : string := (qn ++ "/")%string.

Definition forget_fn (qn : string) (c : cache) : cache :=
  let p := slash qn in
  let c1 := {| budget := budget c; usage := usage c; lru := lru c; tbl := tbl c;
               refs := filter (fun kv => negb (String.prefix p (fst kv))) (refs c) |} in
  fold_left (fun c k => evict k c)
            (filter (fun k => String.prefix p k) (keys (tbl c1))) c1.

(** The harness puts every result object exactly once, under one key. A weak reference
    [refs[k]] is then observable only while [k] is not resident, i.e. only while the caller
    itself keeps the object alive; when the caller drops everything, no observable weak
    reference survives. *)
Definition gc_all (c : cache) : cache := with_refs [] c.

Definition step (ef : pcfg) (c : cache) (o : op) : cache * out :=
  match o with
  | Put k m v sz has wr => (put ef k m v sz has wr c, ONone)
  | Read k =>
    match lookup k (tbl c) with
    | Some e => if ehas e then (mark_used k c, OVal (evalue e)) else (c, OKeyError)
    | None => match lookup k (refs c) with
              | Some v => (c, OVal v)
              | None => (c, OKeyError)
              end
    end
  | IsMem k =>
    match lookup k (tbl c) with
    | Some _ => (mark_used k c, OBool true)
    | None => (c, OBool (match lookup k (refs c) with Some _ => true | None => false end))
    end
  | GetM k => (c, OMem (option_map ememento (lookup k (tbl c))))
  | ForgetCall k =>
    (evict k {| budget := budget c; usage := usage c; lru := lru c; tbl := tbl c;
                refs := remove_key k (refs c) |}, ONone)
  | ForgetFn qn => (forget_fn qn c, ONone)
  | ForgetAll => (init (budget c), ONone)
  | GcAll => (gc_all c, ONone)
  end.

Fixpoint run (ef : pcfg) (c : cache) (ops : list op) : cache * list out :=
  match ops with
  | [] => (c, [])
  | o :: r => let '(c1, x) := step ef c o in
              let '(c2, xs) := run ef c1 r in (c2, x :: xs)
  end.

Definition exec (ef : pcfg) (c : cache) (ops : list op) : cache :=
  fold_left (fun c o => fst (step ef c o)) ops c.

(** What the correspondence check compares after a history: outputs, the usage counter,
    the resident key set in table order and the recency order. *)
Record obs := { o_outs : list out; o_usage : Z; o_resident : list string; o_lru : list string }.

Definition observe (ef : pcfg) (b : Z) (ops : list op) : obs :=
  let '(c, xs) := run ef (init b) ops in
  {| o_outs := xs; o_usage := usage c; o_resident := keys (tbl c); o_lru := lru c |}.

(** ---- correspondence support: compare a recorded implementation trace with the model ---- *)

Definition out_eqb (a b : out) : bool :=
  match a, b with
  | ONone, ONone => true
  | OVal x, OVal y => Z.eqb x y
  | OKeyError, OKeyError => true
  | OBool x, OBool y => Bool.eqb x y
  | OMem None, OMem None => true
  | OMem (Some x), OMem (Some y) => Z.eqb x y
  | _, _ => false
  end.

Definition subset (a b : list string) : bool :=
  forallb (fun x => existsb (String.eqb x) b) a.
Definition same_set (a b : list string) : bool := subset a b && subset b a.

(** one recorded step: the operation, what the implementation answered, its usage counter and
    its resident key set after the operation *)
Definition rec_step : Type := op * (out * Z * list string).

Fixpoint check_steps (ef : pcfg) (c : cache) (i : nat) (steps : list rec_step) : option nat :=
  match steps with
  | [] => None
  | (o, (x, u, res)) :: r =>
    let '(c1, y) := step ef c o in
    if out_eqb x y && Z.eqb u (usage c1) && same_set res (keys (tbl c1))
    then check_steps ef c1 (S i) r else Some i
  end.

Definition check_case (ef : pcfg) (cs : Z * list rec_step) : option nat :=
  check_steps ef (init (fst cs)) 0 (snd cs).

(** model state after a history, for diagnostics *)
Definition final_state (ef : pcfg) (cs : Z * list rec_step) :=
  let c := exec ef (init (fst cs)) (map fst (snd cs)) in
  (usage c, keys (tbl c), lru c).
