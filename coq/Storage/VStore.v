(** Executable model of the data-source side of [StorageBackendBase]: the versioned object
    store interface ([DataSource]: output / exists_nonversioned / get_versioned_key /
    delete_nonversioned_key / delete_all_versions), [Codec.BlobStrategy.store] (content key
    "c/<digest of bytes>", reuse when present), [Codec.NullStrategy.store], the metadata paths
    of [DataSourceMetadataSource] and the order of writes in [StorageBackendBase.memoize].

    - an object is ((key, version), content); versions are drawn from a fresh counter (uuid4 oracle)
    - contents and mementos are abstract identifiers; [H] is the digest (an arbitrary function:
      nothing assumes it injective)
    - two stores: data and metadata; [shared] says they are one directory tree, which matters
      only to forget-everything (the recursive delete of the root removes the data as well). *)
From Coq Require Import List ZArith String Bool.
From Memento Require Import Storage.Cache Storage.Spec.
Import ListNotations.
Open Scope Z_scope.

Record store := {
  objs  : list ((string * Z) * Z);
  links : list (string * Z);
  nextv : Z
}.

Fixpoint zlookup {A} (k : Z) (t : list (Z * A)) : option A :=
  match t with [] => None | (k', e) :: r => if Z.eqb k k' then Some e else zlookup k r end.

Definition sempty : store := {| objs := []; links := []; nextv := 0 |}.

Definition okey_eqb (a b : string * Z) : bool := String.eqb (fst a) (fst b) && Z.eqb (snd a) (snd b).

Fixpoint olookup (k : string * Z) (t : list ((string * Z) * Z)) : option Z :=
  match t with
  | [] => None
  | (k', c) :: r => if okey_eqb k k' then Some c else olookup k r
  end.

(* DataSource.output: fresh version, object, then link *)
Definition output (k : string) (c : Z) (s : store) : store * (string * Z) :=
  ({| objs := objs s ++ [((k, nextv s), c)];
      links := set_key k (nextv s) (links s);
      nextv := nextv s + 1 |}, (k, nextv s)).

Definition exists_nv (k : string) (s : store) : bool :=
  match lookup k (links s) with
  | Some v => match olookup (k, v) (objs s) with Some _ => true | None => false end
  | None => false
  end.

Definition delete_link (k : string) (s : store) : store :=
  {| objs := objs s; links := remove_key k (links s); nextv := nextv s |}.

Definition delete_all_versions (k : string) (s : store) : store :=
  {| objs := filter (fun o => negb (String.eqb (fst (fst o)) k)) (objs s);
     links := remove_key k (links s); nextv := nextv s |}.

(* recursive delete of the directory d: everything whose key starts with d ++ "/" *)
Definition delete_dir (d : string) (s : store) : store :=
  let p := (d ++ "/")%string in
  {| objs := filter (fun o => negb (String.prefix p (fst (fst o)))) (objs s);
     links := filter (fun l => negb (String.prefix p (fst l))) (remove_key d (links s));
     nextv := nextv s |}.

Definition wipe (s : store) : store := {| objs := []; links := []; nextv := nextv s |}.

Section Backend.
Variable H : Z -> string.          (* hex digest of the serialized bytes of a content *)

Definition ckey_of (c : Z) : string := ("c/" ++ H c)%string.
Definition mpath (k : ckey) : string := ("m/" ++ fst k ++ "/" ++ snd k ++ ".memento.json")%string.
Definition mdpath (k : ckey) (mk : string) : string := ("m/" ++ fst k ++ "/" ++ snd k ++ ".metadata." ++ mk)%string.
Definition callprefix (k : ckey) : string := ("m/" ++ fst k ++ "/" ++ snd k)%string.

Record vstate := {
  data : store;
  metas : store;
  shared : bool;
  mck : list (Z * option (string * Z))     (* memento id -> content key it was stored with *)
}.

Definition vinit (sh : bool) : vstate := {| data := sempty; metas := sempty; shared := sh; mck := [] |}.

Inductive vop :=
| VMemoize (k : ckey) (m c : Z) (null : bool) (override : option string)
| VForgetCall (k : ckey)
| VForgetFn (qn : string)
| VForgetAll
| VWriteMeta (k : ckey) (mk : string) (b : Z).

(* Codec.store for one result *)
Definition store_result (c : Z) (null : bool) (override : option string) (d : store)
  : store * option (string * Z) :=
  if null then
    (match override with Some ok => delete_link ok d | None => d end, None)
  else
    match override with
    | Some ok => let '(d1, vk) := output ok c d in (d1, Some vk)
    | None =>
      let key := ckey_of c in
      if exists_nv key d
      then (d, match lookup key (links d) with Some v => Some (key, v) | None => None end)
      else let '(d1, vk) := output key c d in (d1, Some vk)
    end.

Definition vstep (s : vstate) (o : vop) : vstate :=
  match o with
  | VMemoize k m c null override =>
    let '(d1, vk) := store_result c null override (data s) in
    {| data := d1; metas := fst (output (mpath k) m (metas s)); shared := shared s;
       mck := (m, vk) :: mck s |}
  | VForgetCall k =>
    (* list the call's files (name starts with the arg hash) and delete each *)
    let victims := filter (fun l => String.prefix (callprefix k) l) (map fst (links (metas s))) in
    {| data := data s;
       metas := fold_left (fun st l => delete_all_versions l st) victims (metas s);
       shared := shared s; mck := mck s |}
  | VForgetFn qn =>
    {| data := data s; metas := delete_dir ("m/" ++ qn) (metas s); shared := shared s; mck := mck s |}
  | VForgetAll =>
    {| data := if shared s then wipe (data s) else data s; metas := wipe (metas s);
       shared := shared s; mck := mck s |}
  | VWriteMeta k mk b =>
    {| data := data s; metas := fst (output (mdpath k mk) b (metas s)); shared := shared s; mck := mck s |}
  end.

Definition vexec (s : vstate) (ops : list vop) : vstate := fold_left vstep ops s.

(** what a memento reads back: the bytes under its content key *)
Definition read_memento (s : vstate) (m : Z) : option Z :=
  match zlookup m (mck s) with
  | Some (Some vk) => olookup vk (objs (data s))
  | _ => None
  end.

End Backend.

(** ---- correspondence support: the object table of the data store after every operation ---- *)

Definition obj_eqb (a b : (string * Z) * Z) : bool := okey_eqb (fst a) (fst b) && Z.eqb (snd a) (snd b).
Definition objs_subset (a b : list ((string * Z) * Z)) : bool := forallb (fun x => existsb (obj_eqb x) b) a.
Definition objs_same (a b : list ((string * Z) * Z)) : bool :=
  objs_subset a b && objs_subset b a && Nat.eqb (List.length a) (List.length b).

Fixpoint hlookup (c : Z) (t : list (Z * string)) : string :=
  match t with [] => "?"%string | (c', h) :: r => if Z.eqb c c' then h else hlookup c r end.

(** [steps]: operation and the data-store object table ((key, version index), content) seen
    afterwards; [htab]: digest of each content as measured on the stored bytes *)
Fixpoint vcheck (htab : list (Z * string)) (s : vstate) (i : nat)
         (steps : list (vop * list ((string * Z) * Z))) : option nat :=
  match steps with
  | [] => None
  | (o, tab) :: r =>
    let s1 := vstep (fun c => hlookup c htab) s o in
    if objs_same tab (objs (data s1)) then vcheck htab s1 (S i) r else Some i
  end.
