(** From the computed, closed set of reachable states to every history of calls, crashes and
    I/O faults of any length. *)
From Coq Require Import List Bool Arith Lia.
From Memento Require Import Storage.Crash.
Import ListNotations.

Lemma ost_eqb_eq a b : ost_eqb a b = true -> a = b.
Proof. destruct a, b; simpl; congruence. Qed.
Lemma mobj_eqb_eq a b : mobj_eqb a b = true -> a = b.
Proof. destruct a, b; simpl; try congruence. intros H. apply ost_eqb_eq in H. congruence. Qed.
Lemma lnk_eqb_eq {A} (f : A -> A -> bool) (Hf : forall x y, f x y = true -> x = y) a b :
  lnk_eqb f a b = true -> a = b.
Proof. destruct a, b; simpl; try congruence. intros H. apply Hf in H. congruence. Qed.

Lemma st_eqb_eq a b : st_eqb a b = true -> a = b.
Proof.
  destruct a, b. unfold st_eqb; simpl. rewrite !andb_true_iff. intros [[[[H1 H2] H3] H4] H5].
  apply (lnk_eqb_eq _ ost_eqb_eq) in H1. apply ost_eqb_eq in H2.
  apply (lnk_eqb_eq _ mobj_eqb_eq) in H3. apply (lnk_eqb_eq _ mobj_eqb_eq) in H4.
  apply mobj_eqb_eq in H5. congruence.
Qed.

Lemma mem_st_in s l : mem_st s l = true -> In s l.
Proof.
  unfold mem_st. rewrite existsb_exists. intros (x & Hin & E). apply st_eqb_eq in E. subst. auto.
Qed.

(** every trace memoize can perform has at most 8 primitives *)
Lemma trace_short c x s : length (memoize_trace c x s) <= 8.
Proof.
  unfold memoize_trace, out_obj_link.
  destruct (exists_d c s), (atomic_links c), (obj_first c), (data_first c); simpl; lia.
Qed.

Lemma crash_at_beyond c n t tr s :
  length tr <= n -> crash_at c n t tr s = crash_at c (length tr) TNone tr s.
Proof.
  intros H. unfold crash_at.
  rewrite (firstn_all2 tr H), firstn_all.
  assert (E1 : nth_error tr n = None) by (apply nth_error_None; auto).
  assert (E2 : nth_error tr (length tr) = None) by (apply nth_error_None; auto).
  rewrite E1, E2. destruct (atomic_links c); reflexivity.
Qed.

Lemma after_memoize_beyond c x n t s :
  10 <= n -> after_memoize c x (Some (n, t)) s = after_memoize c x (Some (9, TNone)) s.
Proof.
  intros Hn. unfold after_memoize. pose proof (trace_short c x s) as Hl.
  rewrite (crash_at_beyond c n t), (crash_at_beyond c 9 TNone) by lia. reflexivity.
Qed.

(** a fault point beyond the end of the trace is the same as no fault; so the finite list
    [events] covers every fault point *)
Lemma step_covered c s x f :
  exists e, In e events /\ step c s (x, f) = step c s e.
Proof.
  assert (Hin : forall n t, n < 10 -> In (x, Some (n, t)) events).
  { intros n t Hn. unfold events. apply in_flat_map. exists (Some (n, t)). split.
    - unfold faults. right. apply in_flat_map. exists n. split; [apply in_seq; lia|].
      destruct t; simpl; auto.
    - destruct x; simpl; auto. }
  destruct f as [[n t]|].
  - destruct (le_lt_dec 10 n) as [Hge|Hlt].
    + exists (x, Some (9, TNone)). split; [apply Hin; lia|].
      unfold step, call. cbn [fst snd]. rewrite (after_memoize_beyond c x n t s Hge). reflexivity.
    + exists (x, Some (n, t)). split; auto.
  - exists (x, None). split; [|reflexivity]. unfold events. apply in_flat_map. exists None.
    split; [left; reflexivity|destruct x; simpl; auto].
Qed.

Definition run (c : ccfg) (es : list (who * option (nat * trunc))) : st := fold_left (step c) es st0.

(** C08, all histories: if the computed reachable set is closed and all its states are good,
    then after ANY sequence of calls by either caller — each completing, dying, or hitting an I/O
    error at any point of its write, including in the middle of a link file — every call returns
    the value, raises nothing, and a second call is served from the store. *)
Theorem crash_safe_all_histories c :
  crash_ok c = true -> forall es, good c (run c es) = true.
Proof.
  unfold crash_ok. cbv zeta. generalize (reach c) as R. intros R H.
  apply andb_true_iff in H as [Hcl Hgood].
  unfold closed in Hcl. apply andb_true_iff in Hcl as [H0 Hstep].
  assert (Hreach : forall es s, In s R -> In (fold_left (step c) es s) R).
  { induction es as [|[x f] es IH]; intros s Hs; cbn [fold_left]; [exact Hs|]. apply IH.
    destruct (step_covered c s x f) as (e & He & ->).
    rewrite forallb_forall in Hstep. specialize (Hstep s Hs).
    rewrite forallb_forall in Hstep. apply mem_st_in. apply Hstep. exact He. }
  intros es. unfold all_good in Hgood. rewrite forallb_forall in Hgood. apply Hgood.
  apply Hreach. apply mem_st_in. exact H0.
Qed.

(** what [good] says, spelled out *)
Lemma good_spelled c s : good c s = true ->
  forall x, exists ran s1, call c x None s = (Value, ran, s1) /\ exists s2, call c x None s1 = (Value, false, s2).
Proof.
  unfold good. intros H x. apply andb_true_iff in H as [HF HG].
  assert (Hx : good_for c x s = true) by (destruct x; auto).
  unfold good_for in Hx.
  destruct (call c x None s) as [[o ran] s1]. destruct o; [|discriminate].
  exists ran, s1. split; auto.
  destruct (call c x None s1) as [[o2 ran2] s2]. destruct o2, ran2; try discriminate. eauto.
Qed.
