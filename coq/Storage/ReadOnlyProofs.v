From Coq Require Import List ZArith String Bool.
From Memento Require Import Base.Strs Storage.Cache Storage.Spec Storage.Layer Storage.LayerProofs Storage.ReadOnly.
Import ListNotations.
Open Scope Z_scope.

Section P.
Variable cf : pcfg.
Variable nsz : Z.
Hypothesis Hef : p_evict_first cf = true.
Hypothesis Hcr : p_clear_ref cf = true.

Lemma dstep_read_keeps d o : is_write o = false -> fst (dstep d o) = d.
Proof. destruct o; simpl; try discriminate; auto. Qed.

(** through a read-only backend no history changes what is stored, writes are skipped
    (memoize) or rejected (forget, metadata), and reads answer exactly as the dictionary *)
Theorem readonly_never_writes_and_reads_as_dict : forall ops s,
  Forall wfop ops -> coh s ->
  ld (fst (rorun cf nsz s ops)) = ld s /\ snd (rorun cf nsz s ops) = ro_spec (ld s) ops.
Proof.
  induction ops as [|o ops IH]; intros s Hw Hc; [split; reflexivity|].
  inversion Hw as [|? ? Ho Hops]; subst. cbn [rorun ro_spec].
  assert (Hstep : let '(s1, x) := rostep cf nsz s o in
                  ld s1 = ld s /\ coh s1 /\
                  x = match o with
                      | BMemoize _ _ _ _ _ => RAns BNone
                      | BForgetCall _ | BForgetFn _ | BForgetAll | BWriteMeta _ _ _ => RRejected
                      | _ => RAns (snd (dstep (ld s) o))
                      end).
  { destruct (is_write o) eqn:Hwr.
    - destruct o; try discriminate; cbn [rostep]; auto.
    - pose proof (lstep_sim cf nsz Hef Hcr s o Ho Hc) as Hs.
      assert (E : rostep cf nsz s o = (let '(s1, x, _) := lstep cf nsz s o in (s1, RAns x)))
        by (destruct o; try discriminate; reflexivity).
      rewrite E. revert Hs. destruct (lstep cf nsz s o) as [[s1 x] t]. intros (-> & Hd & Hc1).
      rewrite dstep_read_keeps in Hd by auto. split; [auto|]. split; [auto|].
      destruct o; try discriminate; reflexivity. }
  destruct (rostep cf nsz s o) as [s1 x]. destruct Hstep as (Hd & Hc1 & ->).
  destruct (IH s1 Hops Hc1) as [IH1 IH2].
  destruct (rorun cf nsz s1 ops) as [s2 xs]. cbn [fst snd] in *.
  split; [congruence|]. rewrite IH2, Hd. reflexivity.
Qed.
End P.

Theorem null_storage_never_memoized : forall o,
  match o with
  | BIsMemoized _ => nullstep o = BBool false
  | BGetMemento _ => nullstep o = BMem None
  | BListFns => nullstep o = BFns []
  | _ => True
  end.
Proof. destruct o; simpl; auto. Qed.

Theorem null_runner_never_executes : forall calls, snd (null_runner calls) = 0%nat /\ fst (null_runner calls) = None.
Proof. split; reflexivity. Qed.
