(** C17: a stored partition reads back key by key, and a partition with a parent behaves as the
    parent's entries overlaid by its own, for chains of any length. *)
From Coq Require Import List ZArith String Bool.
From Memento Require Import Storage.Cache Storage.CacheProofs Storage.LayerProofs Storage.Partition.
Import ListNotations.

Lemma lookup_iset k e t x : lookup x (iset k e t) = if String.eqb x k then Some e else lookup x t.
Proof.
  induction t as [|[k' e'] r IH]; simpl.
  - destruct (String.eqb x k); reflexivity.
  - destruct (String.eqb_spec k k') as [->|Hn]; simpl.
    + destruct (String.eqb x k'); reflexivity.
    + rewrite IH. destruct (String.eqb_spec x k') as [->|]; [|reflexivity].
      destruct (String.eqb_spec k' k); [congruence|reflexivity].
Qed.

Lemma lookup_map_mark (t : index) x :
  lookup x (map (fun kv => (fst kv, (fst (snd kv), true))) t) = option_map (fun e => (fst e, true)) (lookup x t).
Proof. induction t as [|[k e] r IH]; simpl; auto. destruct (String.eqb x k); auto. Qed.

Lemma lookup_fold_own own : forall acc x,
  NoDup (map fst own) ->
  lookup x (fold_left (fun acc kv => iset (fst kv) (snd kv, false) acc) own acc)
  = match lookup x own with Some v => Some (v, false) | None => lookup x acc end.
Proof.
  induction own as [|[k v] r IH]; intros acc x Hnd; simpl; auto.
  inversion Hnd as [|? ? Hni Hnd']; subst. rewrite IH by auto. rewrite lookup_iset.
  destruct (String.eqb_spec x k) as [->|]; [|reflexivity].
  destruct (lookup k r) eqn:E; [|reflexivity].
  exfalso. apply Hni. eapply lookup_some_in_keys. exact E.
Qed.

(** one store: own keys win (and are marked as the partition's own), parent-only keys remain
    (marked as coming from the parent) *)
Theorem store_index_lookup parent own x :
  NoDup (map fst own) ->
  lookup x (store_index parent own)
  = match lookup x own with
    | Some v => Some (v, false)
    | None => option_map (fun e => (fst e, true)) (lookup x parent)
    end.
Proof. intros Hnd. unfold store_index. rewrite lookup_fold_own by auto. rewrite lookup_map_mark. reflexivity. Qed.

Definition chain_ok (chain : list (pdict * provenance)) : Prop := Forall (fun l => NoDup (map fst (fst l))) chain.

Lemma stored_true_cons own prov rest : stored true ((own, prov) :: rest) = store_index (stored true rest) own.
Proof. destruct rest as [|[pown pp] r]; [reflexivity|]. destruct prov; reflexivity. Qed.

(** the overlay law, chains of any length, every link's parent read back from the store or (with
    the full index recorded) taken from this process *)
Theorem overlay_law chain : chain_ok chain -> forall k,
  ilookup k (stored true chain) = overlay (map fst chain) k.
Proof.
  induction 1 as [|[own prov] rest Hown Hrest IH]; intros k; [reflexivity|].
  rewrite stored_true_cons. cbn [map fst overlay]. unfold ilookup.
  rewrite store_index_lookup by exact Hown.
  destruct (lookup k own); [reflexivity|].
  specialize (IH k). unfold ilookup in IH. rewrite <- IH.
  destruct (lookup k (stored true rest)) as [[v b]|]; reflexivity.
Qed.

(** a partition without a parent reads back with exactly its keys and values *)
Corollary partition_roundtrip own k : NoDup (map fst own) ->
  ilookup k (stored true [(own, FromStore)]) = lookup k own.
Proof.
  intros H. rewrite overlay_law by (constructor; [exact H|constructor]). simpl. destruct (lookup k own); reflexivity.
Qed.

(** an entry is marked as the partition's own exactly when the partition itself has the key *)
Theorem own_flag parent own x v : NoDup (map fst own) ->
  (lookup x (store_index parent own) = Some (v, false) <-> lookup x own = Some v).
Proof.
  intros Hnd. rewrite store_index_lookup by auto.
  destruct (lookup x own) as [v'|]; split; intros H.
  - inversion H; reflexivity.
  - inversion H; reflexivity.
  - destruct (lookup x parent); simpl in H; inversion H.
  - discriminate.
Qed.

(** if an in-process parent only remembered the keys it wrote itself, a grandparent's keys
    would be lost from the second merge on *)
Theorem own_only_output_keys_refuted :
  let chain := [([("c", 3)], InProcess); ([("b", 2)], InProcess); ([("a", 1)], FromStore)]%string%Z in
  ilookup "a"%string (stored false chain) = None /\ overlay (map fst chain) "a"%string = Some 1%Z /\
  ilookup "a"%string (stored true chain) = Some 1%Z.
Proof. vm_compute. auto. Qed.
