(** C17: a stored partition reads back key by key, and a partition with a parent behaves as the
    parent's entries overlaid by its own, for chains of any length. *)
From Coq Require Import List ZArith String Bool.
From Memento Require Import Storage.Cache Storage.CacheProofs Storage.LayerProofs Storage.Partition.
Import ListNotations.

Lemma lookup_iset k e t x : lookup x (iset k e t) = if String.eqb x k then Some e else lookup x t.
Proof.
  induction t as [|[k' e'] r IH]; simpl.
  - destruct (String.eqb x k); reflexivity.
  - destruct (String.eqb_spec k k') as [->|Hn]; simpl.
    + destruct (String.eqb x k'); reflexivity.
    + rewrite IH. destruct (String.eqb_spec x k') as [->|]; [|reflexivity].
      destruct (String.eqb_spec k' k); [congruence|reflexivity].
Qed.

Lemma lookup_map_mark (t : index) x :
  lookup x (map (fun kv => (fst kv, (fst (snd kv), true))) t) = option_map (fun e => (fst e, true)) (lookup x t).
Proof. induction t as [|[k e] r IH]; simpl; auto. destruct (String.eqb x k); auto. Qed.

Lemma lookup_fold_own own : forall acc x,
  NoDup (map fst own) ->
  lookup x (fold_left (fun acc kv => iset (fst kv) (snd kv, false) acc) own acc)
  = match lookup x own with Some v => Some (v, false) | None => lookup x acc end.
Proof.
  induction own as [|[k v] r IH]; intros acc x Hnd; simpl; auto.
  inversion Hnd as [|? ? Hni Hnd']; subst. rewrite IH by auto. rewrite lookup_iset.
  destruct (String.eqb_spec x k) as [->|]; [|reflexivity].
  destruct (lookup k r) eqn:E; [|reflexivity].
  exfalso. apply Hni. eapply lookup_some_in_keys. exact E.
Qed.

(** one store: own keys win (and are marked as the partition's own), parent-only keys remain
    (marked as coming from the parent) *)
Theorem store_index_lookup parent own x :
  NoDup (map fst own) ->
  lookup x (store_index parent own)
  = match lookup x own with
    | Some v => Some (v, false)
    | None => option_map (fun e => (fst e, true)) (lookup x parent)
    end.
Proof. intros Hnd. unfold store_index. rewrite lookup_fold_own by auto. rewrite lookup_map_mark. reflexivity. Qed.

Definition chain_ok (chain : list (pdict * provenance)) : Prop := Forall (fun l => NoDup (map fst (fst l))) chain.

Lemma stored_true_cons own prov rest : stored true ((own, prov) :: rest) = store_index (stored true rest) own.
Proof. destruct rest as [|[pown pp] r]; [reflexivity|]. destruct prov; reflexivity. Qed.

(** the overlay law, chains of any length, every link's parent read back from the store or (with
    the full index recorded) taken from this process *)
Theorem overlay_law chain : chain_ok chain -> forall k,
  ilookup k (stored true chain) = overlay (map fst chain) k.
Proof.
  induction 1 as [|[own prov] rest Hown Hrest IH]; intros k; [reflexivity|].
  rewrite stored_true_cons. cbn [map fst overlay]. unfold ilookup.
  rewrite store_index_lookup by exact Hown.
  destruct (lookup k own); [reflexivity|].
  specialize (IH k). unfold ilookup in IH. rewrite <- IH.
  destruct (lookup k (stored true rest)) as [[v b]|]; reflexivity.
Qed.

(** a partition without a parent reads back with exactly its keys and values *)
Corollary partition_roundtrip own k : NoDup (map fst own) ->
  ilookup k (stored true [(own, FromStore)]) = lookup k own.
Proof.
  intros H. rewrite overlay_law by (constructor; [exact H|constructor]). simpl. destruct (lookup k own); reflexivity.
Qed.

(** an entry is marked as the partition's own exactly when the partition itself has the key *)
Theorem own_flag parent own x v : NoDup (map fst own) ->
  (lookup x (store_index parent own) = Some (v, false) <-> lookup x own = Some v).
Proof.
  intros Hnd. rewrite store_index_lookup by auto.
  destruct (lookup x own) as [v'|]; split; intros H.
  - inversion H; reflexivity.
  - inversion H; reflexivity.
  - destruct (lookup x parent); simpl in H; inversion H.
  - discriminate.
Qed.

(** if an in-process parent only remembered the keys it wrote itself, a grandparent's keys
    would be lost from the second merge on *)
Theorem own_only_output_keys_refuted :
  let chain := [([("c", 3)], InProcess); ([("b", 2)], InProcess); ([("a", 1)], FromStore)]%string%Z in
  ilookup "a"%string (stored false chain) = None /\ overlay (map fst chain) "a"%string = Some 1%Z /\
  ilookup "a"%string (stored true chain) = Some 1%Z.
Proof. vm_compute. auto. Qed.

(** ---- a stored partition passed on unchanged by another function ---- *)
Lemma lookup_not_in_keys {A} x (t : list (string * A)) : ~ In x (map fst t) -> lookup x t = None.
Proof.
  intros H. destruct (lookup x t) eqn:E; [|reflexivity]. exfalso. apply H. eapply lookup_some_in_keys. exact E.
Qed.

Lemma lookup_filter {A} (P : string * A -> bool) (t : list (string * A)) x : NoDup (map fst t) ->
  lookup x (filter P t) = match lookup x t with Some e => if P (x, e) then Some e else None | None => None end.
Proof.
  induction t as [|[k e] r IH]; intros Hnd; simpl; [reflexivity|].
  inversion Hnd as [|? ? Hni Hnd']; subst.
  destruct (String.eqb_spec x k) as [->|Hn].
  - destruct (P (k, e)) eqn:EP; simpl.
    + rewrite String.eqb_refl. reflexivity.
    + rewrite IH by auto. rewrite (lookup_not_in_keys k r Hni). reflexivity.
  - destruct (P (k, e)); simpl.
    + destruct (String.eqb_spec x k); [contradiction|]. apply IH; auto.
    + apply IH; auto.
Qed.

Lemma keys_filter_map_nodup (t : index) : NoDup (map fst t) ->
  NoDup (map fst (map (fun kv => (fst kv, fst (snd kv))) (filter (fun kv => negb (snd (snd kv))) t))).
Proof.
  rewrite map_map. simpl. induction t as [|[k e] r IH]; intros H; simpl; [constructor|].
  inversion H as [|? ? Hni Hnd]; subst. destruct (negb (snd e)); simpl; [|auto].
  constructor; [|auto]. intros Hin. apply Hni. apply in_map_iff in Hin as (kv & <- & Hkv).
  apply filter_In in Hkv as (Hkv & _). apply in_map. exact Hkv.
Qed.

Lemma lookup_map_val (t : index) x :
  lookup x (map (fun kv => (fst kv, fst (snd kv))) t) = option_map fst (lookup x t).
Proof. induction t as [|[k e] r IH]; simpl; auto. destruct (String.eqb x k); auto. Qed.

(** C17: the copy stored by the relaying function reads, key by key, as the partition it was given *)
Theorem relay_lookup t k : NoDup (map fst t) -> ilookup k (relay_index true t) = ilookup k t.
Proof.
  intros Hnd. unfold ilookup, relay_index.
  rewrite lookup_fold_own by (apply keys_filter_map_nodup; exact Hnd).
  rewrite lookup_map_val, !lookup_filter by exact Hnd.
  destruct (lookup k t) as [[v b]|]; simpl; [|reflexivity]. destruct b; reflexivity.
Qed.

Theorem relay_drops_inherited_refuted :
  let t := stored true [([("c", 3)], FromStore); ([("a", 1)], FromStore)]%string%Z in
  ilookup "a"%string t = Some 1%Z /\ ilookup "a"%string (relay_index false t) = None /\ ilookup "a"%string (relay_index true t) = Some 1%Z.
Proof. vm_compute. auto. Qed.

Lemma keys_iset k e (t : index) : NoDup (map fst t) -> NoDup (map fst (iset k e t)) /\ (forall x, In x (map fst (iset k e t)) <-> x = k \/ In x (map fst t)).
Proof.
  induction t as [|[k' e'] r IH]; intros H; simpl.
  - split; [constructor; [intros []|constructor]|]. intros x. split; [intros [<-|[]]; auto|intros [->|[]]; auto].
  - inversion H as [|? ? Hni Hnd]; subst. destruct (String.eqb_spec k k') as [->|Hn]; simpl.
    + split; [constructor; auto|]. intros x. split; [intros [<-|Hin]; auto|intros [->|[<-|Hin]]; auto].
    + destruct (IH Hnd) as (A & B). split.
      * constructor; [|exact A]. rewrite B. intros [E|Hin]; [congruence|contradiction].
      * intros x. rewrite B. split; [intros [<-|[->|Hin]]; auto|intros [->|[<-|Hin]]; auto].
Qed.

Lemma stored_nodup chain : NoDup (map fst (stored true chain)).
Proof.
  induction chain as [|[own prov] rest IH]; [constructor|]. rewrite stored_true_cons. unfold store_index.
  assert (H0 : NoDup (map fst (map (fun kv : string * (Z * bool) => (fst kv, (fst (snd kv), true))) (stored true rest)))).
  { rewrite map_map. simpl. exact IH. }
  revert H0. generalize (map (fun kv : string * (Z * bool) => (fst kv, (fst (snd kv), true))) (stored true rest)).
  induction own as [|[k v] r IHo]; intros acc Hacc; simpl; [exact Hacc|].
  apply IHo. apply keys_iset. exact Hacc.
Qed.

Corollary relay_of_stored_chain chain k : ilookup k (relay_index true (stored true chain)) = ilookup k (stored true chain).
Proof. apply relay_lookup. apply stored_nodup. Qed.
