(** Partitions whose merge parents live in OTHER stores (functions of different clusters).
    An index entry names a stored object; it can be loaded from a store only if that store holds
    the object. [inherit copy]: when a link is stored, the entries it inherits from its parent are
    kept by reference; with [copy] the objects the target store does not hold are stored there too
    (PicklePartitionStrategy._inherit); without, a parent-only entry of a parent from another
    store cannot be loaded from the child's store. *)
From Coq Require Import List ZArith String Bool Lia.
From Memento Require Import Storage.Cache Storage.Partition.
Import ListNotations.

Definition stores := nat -> list Z.          (* store id -> objects it holds *)

Definition holds (st : stores) (s : nat) (v : Z) : bool := existsb (Z.eqb v) (st s).

Definition put_obj (st : stores) (s : nat) (v : Z) : stores :=
  fun s' => if Nat.eqb s' s then v :: st s' else st s'.

Definition put_all (st : stores) (s : nat) (vs : list Z) : stores := fold_left (fun acc v => put_obj acc s v) vs st.

(** storing one link in store [s]: inherited objects (copied or not), then the link's own values *)
Definition store_link (copy : bool) (st : stores) (s : nat) (parent : index) (own : pdict) : stores * index :=
  let st1 := if copy then put_all st s (map (fun kv => fst (snd kv)) parent) else st in
  (put_all st1 s (map snd own), store_index parent own).

(** a chain, child first; every link is stored by the function that made it, in that function's store *)
Fixpoint stored_in (copy : bool) (chain : list (pdict * nat)) : stores * index :=
  match chain with
  | [] => (fun _ => [], [])
  | (own, s) :: rest =>
    let '(st, parent) := stored_in copy rest in
    store_link copy st s parent own
  end.

Definition loadable (st : stores) (s : nat) (t : index) : bool :=
  forallb (fun kv => holds st s (fst (snd kv))) t.

(** the index does not depend on where things are stored: it is the one of the single-store model *)
Lemma stored_in_index copy chain :
  snd (stored_in copy chain) = stored true (map (fun l => (fst l, FromStore)) chain).
Proof.
  induction chain as [|[own s] rest IH]; [reflexivity|].
  cbn [stored_in map fst]. destruct (stored_in copy rest) as [st parent] eqn:E. cbn [snd] in IH.
  unfold store_link. cbn [snd]. cbn [stored]. destruct rest as [|[pown ps] rest'].
  - simpl in E. inversion E; subst. reflexivity.
  - cbn [map fst] in IH |- *. rewrite IH. reflexivity.
Qed.

Lemma holds_put_obj st s v s' x :
  holds (put_obj st s v) s' x = (Nat.eqb s' s && Z.eqb x v) || holds st s' x.
Proof.
  unfold holds, put_obj. destruct (Nat.eqb s' s); simpl; reflexivity.
Qed.

Lemma holds_put_all st s vs s' x :
  holds (put_all st s vs) s' x = (Nat.eqb s' s && existsb (Z.eqb x) vs) || holds st s' x.
Proof.
  unfold put_all. revert st. induction vs as [|v vs IH]; intros st; simpl.
  - rewrite andb_false_r. reflexivity.
  - rewrite IH. rewrite holds_put_obj.
    destruct (Nat.eqb s' s), (Z.eqb x v), (existsb (Z.eqb x) vs), (holds st s' x); reflexivity.
Qed.

(** every value of a stored index comes from the parent index or from the own dictionary *)
Lemma iset_values k e t x :
  In x (map (fun kv => fst (snd kv)) (iset k e t)) -> x = fst e \/ In x (map (fun kv => fst (snd kv)) t).
Proof.
  induction t as [|[k' e'] r IH]; simpl.
  - intros [H|[]]; auto.
  - destruct (String.eqb k k'); simpl; intros [H|H]; auto.
    destruct (IH H); auto.
Qed.

Lemma store_index_values parent own x :
  In x (map (fun kv => fst (snd kv)) (store_index parent own)) ->
  In x (map snd own) \/ In x (map (fun kv => fst (snd kv)) parent).
Proof.
  unfold store_index.
  assert (G : forall own acc, In x (map (fun kv => fst (snd kv)) (fold_left (fun acc kv => iset (fst kv) (snd kv, false) acc) own acc)) ->
              In x (map snd own) \/ In x (map (fun kv => fst (snd kv)) acc)).
  { induction own0 as [|[k v] r IH]; simpl; intros acc H; auto.
    destruct (IH _ H) as [H1|H1]; auto.
    apply iset_values in H1. simpl in H1. destruct H1; auto. }
  intros H. destruct (G _ _ H) as [H1|H1]; auto.
  right. rewrite map_map in H1. simpl in H1. exact H1.
Qed.

Lemma existsb_in x l : In x l -> existsb (Z.eqb x) l = true.
Proof.
  intros H. apply existsb_exists. exists x. split; auto. apply Z.eqb_refl.
Qed.

(** with copying, every entry of the stored link can be loaded from the store it was written to *)
Theorem store_link_loadable st s parent own :
  let '(st', t) := store_link true st s parent own in loadable st' s t = true.
Proof.
  unfold store_link, loadable. apply forallb_forall. intros [k [v fp]] Hin. cbn [fst snd].
  rewrite !holds_put_all. rewrite PeanoNat.Nat.eqb_refl. cbn [andb].
  assert (Hv : In v (map (fun kv => fst (snd kv)) (store_index parent own))).
  { apply in_map_iff. exists (k, (v, fp)). auto. }
  apply store_index_values in Hv. destruct Hv as [Hv|Hv].
  - rewrite (existsb_in _ _ Hv). reflexivity.
  - rewrite (existsb_in _ _ Hv). rewrite orb_true_r. reflexivity.
Qed.

Theorem cross_store_chain_loadable : forall own s rest,
  let '(st, t) := stored_in true ((own, s) :: rest) in loadable st s t = true.
Proof.
  intros own s rest. cbn [stored_in]. destruct (stored_in true rest) as [st parent].
  apply store_link_loadable.
Qed.

(** without copying, a parent-only key of a parent kept in another store cannot be loaded *)
Theorem cross_store_reference_only_refuted :
  exists chain s, let '(st, t) := stored_in false chain in
    hd_error (map snd chain) = Some s /\ loadable st s t = false /\
    loadable (fst (stored_in true chain)) s (snd (stored_in true chain)) = true.
Proof.
  exists [([("c"%string, 3%Z)], 1%nat); ([("p"%string, 1%Z)], 0%nat)], 1%nat.
  vm_compute. repeat split; reflexivity.
Qed.

(** a single store never needs the copy *)
Theorem same_store_reference_suffices : forall chain s,
  Forall (fun l => snd l = s) chain -> chain <> [] ->
  let '(st, t) := stored_in false chain in loadable st s t = true.
Proof.
  induction chain as [|[own s0] rest IH]; intros s Hall Hne; [congruence|].
  inversion Hall as [|? ? Hs Hrest]; subst. cbn [snd] in *.
  cbn [stored_in]. destruct (stored_in false rest) as [st parent] eqn:E.
  unfold store_link, loadable. apply forallb_forall. intros [k [v fp]] Hin. cbn [fst snd].
  rewrite holds_put_all. rewrite PeanoNat.Nat.eqb_refl. cbn [andb].
  assert (Hv : In v (map (fun kv => fst (snd kv)) (store_index parent own))).
  { apply in_map_iff. exists (k, (v, fp)). auto. }
  apply store_index_values in Hv. destruct Hv as [Hv|Hv].
  - rewrite (existsb_in _ _ Hv). reflexivity.
  - apply orb_true_iff. right.
    destruct rest as [|l rest'].
    + simpl in E. inversion E; subst. simpl in Hv. contradiction.
    + assert (Hn : l :: rest' <> []) by congruence.
      pose proof (IH s0 Hrest Hn) as IH'. unfold loadable in IH'. rewrite forallb_forall in IH'.
      apply in_map_iff in Hv. destruct Hv as [[k' [v' fp']] [Hv1 Hv2]]. simpl in Hv1. subst v'.
      apply (IH' _ Hv2).
Qed.
