(** Obligations over the facts that harness/srcfacts.py extracted from /repo on this run, for C09.
    Each lemma is discharged by computation; when the source changes shape it stops compiling,
    which switches the owning check(s) into search mode. One file per property area, so that a
    change of shape only affects the properties that depend on that fact. *)
From Coq Require Import List String ZArith Bool.
From Memento Require Import Gen.SourceFacts.
Import ListNotations.

Definition ofact (o : option bool) : bool := match o with Some b => b | None => false end.

(** C09: the second look-up of memento_run_local happens inside the per-call mutex, and every
    public MemoryCache method holds the cache's lock *)
Lemma recheck_inside_mutex_ok : recheck_inside_mutex = Some true.
Proof. vm_compute. reflexivity. Qed.
Lemma cache_methods_locked_ok : cache_methods_locked = Some true.
Proof. vm_compute. reflexivity. Qed.
(** C09: the in-memory storage backend creates the inner map of a function by one indivisible step *)
Lemma memstore_atomic_insert_ok : memstore_atomic_insert = Some true.
Proof. vm_compute. reflexivity. Qed.
