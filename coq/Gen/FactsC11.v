(** Obligations over the facts that harness/srcfacts.py extracted from /repo on this run, for C11.
    Each lemma is discharged by computation; when the source changes shape it stops compiling,
    which switches the owning check(s) into search mode. One file per property area, so that a
    change of shape only affects the properties that depend on that fact. *)
From Coq Require Import List String ZArith Bool.
From Memento Require Import Gen.SourceFacts.
Import ListNotations.

Definition ofact (o : option bool) : bool := match o with Some b => b | None => false end.

(** C11: versioned keys are split at the last '#' *)
Lemma vkey_split_last_ok : vkey_split_last = Some true.
Proof. vm_compute. reflexivity. Qed.
