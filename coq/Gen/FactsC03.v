(** Obligations over the facts that harness/srcfacts.py extracted from /repo on this run, for C03.
    Each lemma is discharged by computation; when the source changes shape it stops compiling,
    which switches the owning check(s) into search mode. One file per property area, so that a
    change of shape only affects the properties that depend on that fact. *)
From Coq Require Import List String ZArith Bool.
From Memento Require Import Gen.SourceFacts.
Import ListNotations.

Definition ofact (o : option bool) : bool := match o with Some b => b | None => false end.

From Memento Require Import Version.Rules Version.RulesProofs Version.Stale Version.StaleProofs.

(** set constants are serialised in a canonical order, rules are ordered by their key, the package scope is not widened while visiting *)
Lemma setconst_canonical_ok : setconst_canonical = Some true.
Proof. vm_compute. reflexivity. Qed.
Lemma rules_sorted_by_key_ok : rules_sorted_by_key = Some true.
Proof. vm_compute. reflexivity. Qed.
Lemma scope_follows_memento_fn_ok : scope_follows_memento_fn = Some true.
Proof. vm_compute. reflexivity. Qed.

(** distinct helper functions get distinct rule keys, also when they are anonymous (lambdas share one qualified name) *)
Lemma anonymous_helpers_distinct_ok : anonymous_helpers_distinct = Some true.
Proof. vm_compute. reflexivity. Qed.
