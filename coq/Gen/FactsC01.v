(** Obligations over the facts that harness/srcfacts.py extracted from /repo on this run, for C01.
    Each lemma is discharged by computation; when the source changes shape it stops compiling,
    which switches the owning check(s) into search mode. One file per property area, so that a
    change of shape only affects the properties that depend on that fact. *)
From Coq Require Import List String ZArith Bool.
From Memento Require Import Gen.SourceFacts.
Import ListNotations.

Definition ofact (o : option bool) : bool := match o with Some b => b | None => false end.

From Memento Require Import Version.Rules Version.RulesProofs Version.Stale Version.StaleProofs.

(** default parameter values are part of what the code hash covers *)
Lemma defaults_hashed_ok : defaults_hashed = Some true.
Proof. vm_compute. reflexivity. Qed.

(** below a memento function, the plain helpers of that function's own package are hashed *)
Lemma scope_follows_memento_fn_ok : scope_follows_memento_fn = Some true.
Proof. vm_compute. reflexivity. Qed.

Definition current_hd : bool := match defaults_hashed with Some b => b | None => false end.

(** C01 for the code as it is now: same digest input (with what the current source hashes), same behaviour *)
Theorem current_source_same_contents_same_result : forall sem,
  (forall c d e1 e2, (forall u, e1 u = e2 u) -> sem c d e1 = sem c d e2) -> forall p q f K,
  same_structure p q ->
  s_kind (p f) = SMemento None -> s_kind (q f) = SMemento None ->
  hashable p f -> hashable q f ->
  closed p (collect p K f) = true ->
  version_input p current_hd (collect p K f) = version_input q current_hd (collect q K f) ->
  forall n, eval sem n p f = eval sem n q f.
Proof.
  unfold current_hd. rewrite defaults_hashed_ok. intros. eapply same_contents_same_result; eauto.
Qed.


(** every rule hash has one width (explicit versions are hashed), so the bytes fed to sha256
    determine the list of rule hashes *)
Lemma explicit_fixed_width_ok : explicit_fixed_width = Some true.
Proof. vm_compute. reflexivity. Qed.
