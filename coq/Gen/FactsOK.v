(** Obligations over the facts that harness/srcfacts.py extracted from /repo on this run.
    Each lemma is discharged by computation; when the source changes shape it stops compiling,
    which switches the owning check into search mode. *)
From Coq Require Import List String ZArith Bool.
From Memento Require Import Gen.SourceFacts.
Import ListNotations.

(** MemoryCache.put drops the stale entry for the key before it may bail out on an oversize
    result (needed by C05 "reads return the last value written", C06 "oversize never resident"). *)
Lemma put_evicts_first_ok : put_evicts_first = Some true.
Proof. vm_compute. reflexivity. Qed.

(** ... and drops a weak reference left by an earlier result of the same call (C05: a read after
    eviction must not be served the older result through the weak-reference side table). *)
Lemma put_clears_ref_ok : put_clears_ref = Some true.
Proof. vm_compute. reflexivity. Qed.

From Memento Require Import Storage.Cache Storage.Spec Storage.Layer Storage.LayerProofs.

Definition current_pcfg : pcfg :=
  {| p_evict_first := match put_evicts_first with Some b => b | None => false end;
     p_clear_ref := match put_clears_ref with Some b => b | None => false end |}.

(** C05 for the code as it is now: the cache in front of a dictionary-like store is invisible. *)
Theorem current_source_cache_transparent : forall nsz b ops,
  Forall wfop ops -> lrun current_pcfg nsz (linit b) ops = drun dempty ops.
Proof.
  intros. apply cache_layer_refines_dict_from_empty; try assumption;
    unfold current_pcfg; rewrite ?put_evicts_first_ok, ?put_clears_ref_ok; reflexivity.
Qed.

From Memento Require Import Storage.ReadOnly Storage.ReadOnlyProofs.

Theorem readonly_current_source : forall nsz ops s, Forall wfop ops -> coh s ->
  ld (fst (rorun current_pcfg nsz s ops)) = ld s /\ snd (rorun current_pcfg nsz s ops) = ro_spec (ld s) ops.
Proof.
  intros. apply readonly_never_writes_and_reads_as_dict; try assumption;
    unfold current_pcfg; rewrite ?put_evicts_first_ok, ?put_clears_ref_ok; reflexivity.
Qed.

From Memento Require Import Storage.Crash Storage.CrashProofs.

Definition ofact (o : option bool) : bool := match o with Some b => b | None => false end.

Definition current_ccfg : ccfg :=
  {| rd_is_file := ofact rd_is_file_fact; obj_first := ofact obj_first_fact;
     data_first := ofact data_first_fact; atomic_links := ofact atomic_links_fact |}.

(** C08 obligation for the code as it is now: the reachable set under calls / crashes / faults is
    closed and every state in it is good (checked by computation over the finite model). *)
Lemma current_source_crash_ok : crash_ok current_ccfg = true.
Proof. vm_compute. reflexivity. Qed.

Theorem current_source_crash_safe : forall es, good current_ccfg (run current_ccfg es) = true.
Proof. exact (crash_safe_all_histories current_ccfg current_source_crash_ok). Qed.

(** C09: the second look-up of memento_run_local happens inside the per-call mutex, and every
    public MemoryCache method holds the cache's lock *)
Lemma recheck_inside_mutex_ok : recheck_inside_mutex = Some true.
Proof. vm_compute. reflexivity. Qed.
Lemma cache_methods_locked_ok : cache_methods_locked = Some true.
Proof. vm_compute. reflexivity. Qed.

(** C11: versioned keys are split at the last '#' *)
Lemma vkey_split_last_ok : vkey_split_last = Some true.
Proof. vm_compute. reflexivity. Qed.

From Memento Require Import Codec.Json Codec.QName Codec.QNameProofs.

(** C12: the pattern is the '#'-free one, the cluster prefix is added before the version, the
    external stub accepts the default cluster *)
Lemma qname_split_pattern_ok : qname_split_pattern = Some true.
Proof. vm_compute. reflexivity. Qed.
Lemma qname_prefix_first_ok : qname_prefix_first = Some true.
Proof. vm_compute. reflexivity. Qed.
Lemma ext_allows_default_cluster_ok : ext_allows_default_cluster = Some true.
Proof. vm_compute. reflexivity. Qed.

Definition current_split_pattern : bool := ofact qname_split_pattern.
Definition current_prefix_first : bool := ofact qname_prefix_first.

Theorem current_source_parse_build : forall c m f v,
  (match c with Some cl => cluster_ok cl = true | None => True end) -> name_ok m = true -> name_ok f = true ->
  parse current_split_pattern (build current_prefix_first c m f v) = Some (c, m, f, Some v).
Proof.
  intros c m f v Hc Hm Hf. unfold current_split_pattern, current_prefix_first.
  rewrite qname_split_pattern_ok, qname_prefix_first_ok. cbn [ofact parse].
  destruct c; [apply parse_build_cluster|apply parse_build_default]; auto.
Qed.

(** C17: store() remembers the full merged index on in-process partition objects, and accepts
    such objects (InMemoryPartition / OnDiskPartition stored before) as merge parents *)
Lemma partition_parent_full_index_ok : partition_parent_full_index = Some true.
Proof. vm_compute. reflexivity. Qed.
Lemma partition_inprocess_parent_ok : partition_inprocess_parent = Some true.
Proof. vm_compute. reflexivity. Qed.
Lemma partition_relay_keeps_inherited_ok : partition_relay_keeps_inherited = Some true.
Proof. vm_compute. reflexivity. Qed.

(** ---- versions (C01 / C03 / C14) ---- *)
From Memento Require Import Version.Rules Version.RulesProofs Version.Stale Version.StaleProofs.

(** default parameter values are part of what the code hash covers *)
Lemma defaults_hashed_ok : defaults_hashed = Some true.
Proof. vm_compute. reflexivity. Qed.

(** set constants are serialised in a canonical order, rules are ordered by their key *)
Lemma setconst_canonical_ok : setconst_canonical = Some true.
Proof. vm_compute. reflexivity. Qed.
Lemma rules_sorted_by_key_ok : rules_sorted_by_key = Some true.
Proof. vm_compute. reflexivity. Qed.

(** calls made through modifier clones are validated against the function cloned *)
Lemma clone_validation_ok : clone_validation = Some true.
Proof. vm_compute. reflexivity. Qed.

(** below a memento function, the plain helpers of that function's own package are hashed *)
Lemma scope_follows_memento_fn_ok : scope_follows_memento_fn = Some true.
Proof. vm_compute. reflexivity. Qed.

Definition current_hd : bool := match defaults_hashed with Some b => b | None => false end.

(** C01 for the code as it is now: same digest input (with what the current source hashes), same behaviour *)
Theorem current_source_same_contents_same_result : forall sem,
  (forall c d e1 e2, (forall u, e1 u = e2 u) -> sem c d e1 = sem c d e2) -> forall p q f K,
  same_structure p q ->
  s_kind (p f) = SMemento None -> s_kind (q f) = SMemento None ->
  hashable p f -> hashable q f ->
  closed p (collect p K f) = true ->
  version_input p current_hd (collect p K f) = version_input q current_hd (collect q K f) ->
  forall n, eval sem n p f = eval sem n q f.
Proof.
  unfold current_hd. rewrite defaults_hashed_ok. intros. eapply same_contents_same_result; eauto.
Qed.

(** every rule hash has one width (explicit versions are hashed), so the bytes fed to sha256
    determine the list of rule hashes *)
Lemma explicit_fixed_width_ok : explicit_fixed_width = Some true.
Proof. vm_compute. reflexivity. Qed.

(** ---- C13 ---- *)
From Memento Require Import Version.VCache Version.VCacheProofs.

Lemma km_identity_ok : km_identity = Some true.
Proof. vm_compute. reflexivity. Qed.
Lemma ruleless_instance_recomputes_ok : ruleless_instance_recomputes = Some true.
Proof. vm_compute. reflexivity. Qed.

Definition current_ki : bool := match km_identity with Some b => b | None => false end.

Theorem current_source_cache_coherent : forall K es st, J K st -> admissible K st es ->
  Forall (fun r => snd (fst r) = Some (snd r)) (vrun current_ki K st es).
Proof. unfold current_ki. rewrite km_identity_ok. exact cache_coherent. Qed.

(** ---- C18 ---- *)
From Memento Require Import Config.Config Config.ConfigProofs.

Lemma cfg_reads_cache_ok : cfg_reads_cache = Some true.
Proof. vm_compute. reflexivity. Qed.
Lemma cfg_dumps_meta_ok : cfg_dumps_meta = Some true.
Proof. vm_compute. reflexivity. Qed.
Lemma cfg_first_match_ok : cfg_first_match = Some true.
Proof. vm_compute. reflexivity. Qed.

Definition current_scfg : scfg :=
  {| reads_cache := match cfg_reads_cache with Some b => b | None => false end;
     dumps_meta := match cfg_dumps_meta with Some b => b | None => false end |}.

Theorem current_source_config_honoured : forall k o, build current_scfg k o no_opts = build current_scfg k no_opts o.
Proof. unfold current_scfg. rewrite cfg_reads_cache_ok, cfg_dumps_meta_ok. exact file_equals_args. Qed.

Theorem current_source_dump_reproduces : forall name e, env_ok e ->
  resolve name (load_env current_scfg (dump_env current_scfg e)) = resolve name e.
Proof. unfold current_scfg. rewrite cfg_reads_cache_ok, cfg_dumps_meta_ok. exact env_dump_roundtrip. Qed.
