(** Obligations over the facts that harness/srcfacts.py extracted from /repo on this run.
    Each lemma is discharged by computation; when the source changes shape it stops compiling,
    which switches the owning check into search mode. *)
From Coq Require Import List String ZArith Bool.
From Memento Require Import Gen.SourceFacts.
Import ListNotations.

(** MemoryCache.put drops the stale entry for the key before it may bail out on an oversize
    result (needed by C05 "reads return the last value written", C06 "oversize never resident"). *)
Lemma put_evicts_first_ok : put_evicts_first = Some true.
Proof. vm_compute. reflexivity. Qed.

(** ... and drops a weak reference left by an earlier result of the same call (C05: a read after
    eviction must not be served the older result through the weak-reference side table). *)
Lemma put_clears_ref_ok : put_clears_ref = Some true.
Proof. vm_compute. reflexivity. Qed.
