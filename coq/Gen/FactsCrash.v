(** Obligations over the facts that harness/srcfacts.py extracted from /repo on this run, for C08.
    Each lemma is discharged by computation; when the source changes shape it stops compiling,
    which switches the owning check(s) into search mode. One file per property area, so that a
    change of shape only affects the properties that depend on that fact. *)
From Coq Require Import List String ZArith Bool.
From Memento Require Import Gen.SourceFacts.
Import ListNotations.

Definition ofact (o : option bool) : bool := match o with Some b => b | None => false end.

From Memento Require Import Storage.Crash Storage.CrashProofs.

Definition current_ccfg : ccfg :=
  {| rd_is_file := ofact rd_is_file_fact; obj_first := ofact obj_first_fact;
     data_first := ofact data_first_fact; atomic_links := ofact atomic_links_fact |}.

(** C08 obligation for the code as it is now: the reachable set under calls / crashes / faults is
    closed and every state in it is good (checked by computation over the finite model). *)
Lemma current_source_crash_ok : crash_ok current_ccfg = true.
Proof. vm_compute. reflexivity. Qed.

Theorem current_source_crash_safe : forall es, good current_ccfg (run current_ccfg es) = true.
Proof. exact (crash_safe_all_histories current_ccfg current_source_crash_ok). Qed.
