(** Obligations over the facts that harness/srcfacts.py extracted from /repo on this run, for C13.
    Each lemma is discharged by computation; when the source changes shape it stops compiling,
    which switches the owning check(s) into search mode. One file per property area, so that a
    change of shape only affects the properties that depend on that fact. *)
From Coq Require Import List String ZArith Bool.
From Memento Require Import Gen.SourceFacts.
Import ListNotations.

Definition ofact (o : option bool) : bool := match o with Some b => b | None => false end.

From Memento Require Import Version.VCache Version.VCacheProofs.

Lemma km_identity_ok : km_identity = Some true.
Proof. vm_compute. reflexivity. Qed.
Lemma ruleless_instance_recomputes_ok : ruleless_instance_recomputes = Some true.
Proof. vm_compute. reflexivity. Qed.
(* the rule of a memento function recomputes that function's code hash (it covers default values, which are objects) *)
Lemma code_hash_refreshed_ok : code_hash_refreshed = Some true.
Proof. vm_compute. reflexivity. Qed.

Definition current_ki : bool := match km_identity with Some b => b | None => false end.

Theorem current_source_cache_coherent : forall K es st, J K st -> admissible K st es ->
  Forall (fun r => snd (fst r) = Some (snd r)) (vrun current_ki K st es).
Proof. unfold current_ki. rewrite km_identity_ok. exact cache_coherent. Qed.
