(** Obligations over the facts that harness/srcfacts.py extracted from /repo on this run, for C12.
    Each lemma is discharged by computation; when the source changes shape it stops compiling,
    which switches the owning check(s) into search mode. One file per property area, so that a
    change of shape only affects the properties that depend on that fact. *)
From Coq Require Import List String ZArith Bool.
From Memento Require Import Gen.SourceFacts.
Import ListNotations.

Definition ofact (o : option bool) : bool := match o with Some b => b | None => false end.

From Memento Require Import Codec.Json Codec.QName Codec.QNameProofs.

(** C12: the pattern is the '#'-free one, the cluster prefix is added before the version, the
    external stub accepts the default cluster *)
Lemma qname_split_pattern_ok : qname_split_pattern = Some true.
Proof. vm_compute. reflexivity. Qed.
Lemma qname_prefix_first_ok : qname_prefix_first = Some true.
Proof. vm_compute. reflexivity. Qed.
Lemma ext_allows_default_cluster_ok : ext_allows_default_cluster = Some true.
Proof. vm_compute. reflexivity. Qed.

Definition current_split_pattern : bool := ofact qname_split_pattern.
Definition current_prefix_first : bool := ofact qname_prefix_first.

Theorem current_source_parse_build : forall c m f v,
  (match c with Some cl => cluster_ok cl = true | None => True end) -> name_ok m = true -> name_ok f = true ->
  parse current_split_pattern (build current_prefix_first c m f v) = Some (c, m, f, Some v).
Proof.
  intros c m f v Hc Hm Hf. unfold current_split_pattern, current_prefix_first.
  rewrite qname_split_pattern_ok, qname_prefix_first_ok. cbn [ofact parse].
  destruct c; [apply parse_build_cluster|apply parse_build_default]; auto.
Qed.
