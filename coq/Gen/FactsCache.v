(** Obligations over the facts that harness/srcfacts.py extracted from /repo on this run, for C05 / C19 (memory cache layer).
    Each lemma is discharged by computation; when the source changes shape it stops compiling,
    which switches the owning check(s) into search mode. One file per property area, so that a
    change of shape only affects the properties that depend on that fact. *)
From Coq Require Import List String ZArith Bool.
From Memento Require Import Gen.SourceFacts.
Import ListNotations.

Definition ofact (o : option bool) : bool := match o with Some b => b | None => false end.

(** MemoryCache.put drops the stale entry for the key before it may bail out on an oversize
    result (needed by C05 "reads return the last value written", C06 "oversize never resident"). *)
Lemma put_evicts_first_ok : put_evicts_first = Some true.
Proof. vm_compute. reflexivity. Qed.

(** ... and drops a weak reference left by an earlier result of the same call (C05: a read after
    eviction must not be served the older result through the weak-reference side table). *)
Lemma put_clears_ref_ok : put_clears_ref = Some true.
Proof. vm_compute. reflexivity. Qed.

From Memento Require Import Storage.Cache Storage.Spec Storage.Layer Storage.LayerProofs.

Definition current_pcfg : pcfg :=
  {| p_evict_first := match put_evicts_first with Some b => b | None => false end;
     p_clear_ref := match put_clears_ref with Some b => b | None => false end |}.

(** C05 for the code as it is now: the cache in front of a dictionary-like store is invisible. *)
Theorem current_source_cache_transparent : forall nsz b ops,
  Forall wfop ops -> lrun current_pcfg nsz (linit b) ops = drun dempty ops.
Proof.
  intros. apply cache_layer_refines_dict_from_empty; try assumption;
    unfold current_pcfg; rewrite ?put_evicts_first_ok, ?put_clears_ref_ok; reflexivity.
Qed.

From Memento Require Import Storage.ReadOnly Storage.ReadOnlyProofs.

Theorem readonly_current_source : forall nsz ops s, Forall wfop ops -> coh s ->
  ld (fst (rorun current_pcfg nsz s ops)) = ld s /\ snd (rorun current_pcfg nsz s ops) = ro_spec (ld s) ops.
Proof.
  intros. apply readonly_never_writes_and_reads_as_dict; try assumption;
    unfold current_pcfg; rewrite ?put_evicts_first_ok, ?put_clears_ref_ok; reflexivity.
Qed.
