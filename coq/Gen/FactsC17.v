(** Obligations over the facts that harness/srcfacts.py extracted from /repo on this run, for C17.
    Each lemma is discharged by computation; when the source changes shape it stops compiling,
    which switches the owning check(s) into search mode. One file per property area, so that a
    change of shape only affects the properties that depend on that fact. *)
From Coq Require Import List String ZArith Bool.
From Memento Require Import Gen.SourceFacts.
Import ListNotations.

Definition ofact (o : option bool) : bool := match o with Some b => b | None => false end.

(** C17: store() remembers the full merged index on in-process partition objects, and accepts
    such objects (InMemoryPartition / OnDiskPartition stored before) as merge parents *)
Lemma partition_parent_full_index_ok : partition_parent_full_index = Some true.
Proof. vm_compute. reflexivity. Qed.
Lemma partition_inprocess_parent_ok : partition_inprocess_parent = Some true.
Proof. vm_compute. reflexivity. Qed.
Lemma partition_relay_keeps_inherited_ok : partition_relay_keeps_inherited = Some true.
Proof. vm_compute. reflexivity. Qed.
(** C17: an inherited entry that the target store does not hold is stored there by value *)
Lemma partition_cross_store_copied_ok : partition_cross_store_copied = Some true.
Proof. vm_compute. reflexivity. Qed.
