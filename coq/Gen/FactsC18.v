(** Obligations over the facts that harness/srcfacts.py extracted from /repo on this run, for C18.
    Each lemma is discharged by computation; when the source changes shape it stops compiling,
    which switches the owning check(s) into search mode. One file per property area, so that a
    change of shape only affects the properties that depend on that fact. *)
From Coq Require Import List String ZArith Bool.
From Memento Require Import Gen.SourceFacts.
Import ListNotations.

Definition ofact (o : option bool) : bool := match o with Some b => b | None => false end.

From Memento Require Import Config.Config Config.ConfigProofs.

Lemma cfg_reads_cache_ok : cfg_reads_cache = Some true.
Proof. vm_compute. reflexivity. Qed.
Lemma cfg_dumps_meta_ok : cfg_dumps_meta = Some true.
Proof. vm_compute. reflexivity. Qed.
Lemma cfg_first_match_ok : cfg_first_match = Some true.
Proof. vm_compute. reflexivity. Qed.

Definition current_scfg : scfg :=
  {| reads_cache := match cfg_reads_cache with Some b => b | None => false end;
     dumps_meta := match cfg_dumps_meta with Some b => b | None => false end |}.

Theorem current_source_config_honoured : forall k o, build current_scfg k o no_opts = build current_scfg k no_opts o.
Proof. unfold current_scfg. rewrite cfg_reads_cache_ok, cfg_dumps_meta_ok. exact file_equals_args. Qed.

Theorem current_source_dump_reproduces : forall name e, env_ok e ->
  resolve name (load_env current_scfg (dump_env current_scfg e)) = resolve name e.
Proof. unfold current_scfg. rewrite cfg_reads_cache_ok, cfg_dumps_meta_ok. exact env_dump_roundtrip. Qed.
