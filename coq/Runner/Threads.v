(** C09 — concurrent callers of [memento_run_local] / [LocalRunnerBackend.batch_run]
    (runner_local.py), any number of threads, any keys, any schedule.

    A thread calling key [k] runs the protocol
      PStart     batch_run's bulk pre-check (get_mementos) outside any lock: hit -> done
      PWantLock  with _mutex_for_invocation(k): blocks while another thread holds k's mutex
      PRecheck   get_memento inside the mutex: hit -> release
      PBody      the function body runs (execution counter + 1)
      PIsMem     is_memoized test before writing
      PMemoize   memoize: the result becomes visible in the store
      PRelease   leaving the with-block
      PDone
    [recheck_inside] is the source fact "the second look-up happens inside the mutex"; with
    [false] the thread goes from acquiring the mutex straight to the body.
    The store is abstracted to the set of memoized keys (values are correct by C05/C07; a hit
    returns what was memoized). State components are total functions so that updates are
    trivial to reason about; everything is computable. *)
From Coq Require Import List Arith Bool.
Import ListNotations.

Inductive pc := PStart | PWantLock | PRecheck | PBody | PIsMem | PMemoize | PRelease | PDone.

Definition in_cs (p : pc) : bool :=
  match p with PRecheck | PBody | PIsMem | PMemoize | PRelease => true | _ => false end.

Record state := {
  memo   : nat -> bool;            (* key memoized in the store *)
  execs  : nat -> nat;             (* how often the body ran for the key *)
  holder : nat -> option nat;      (* who holds the key's mutex *)
  ths    : nat -> option (nat * pc)  (* thread id -> (key it calls, where it is) *)
}.

Definition upd {A} (f : nat -> A) (k : nat) (v : A) : nat -> A := fun x => if Nat.eqb x k then v else f x.

Definition set_pc (s : state) (t k : nat) (p : pc) : state :=
  {| memo := memo s; execs := execs s; holder := holder s; ths := upd (ths s) t (Some (k, p)) |}.

Section Step.
Variable recheck_inside : bool.

Definition step (s : state) (t : nat) : state :=
  match ths s t with
  | None => s
  | Some (k, p) =>
    match p with
    | PStart => if memo s k then set_pc s t k PDone else set_pc s t k PWantLock
    | PWantLock =>
      match holder s k with
      | Some _ => s                                      (* blocked: a stutter *)
      | None =>
        {| memo := memo s; execs := execs s; holder := upd (holder s) k (Some t);
           ths := upd (ths s) t (Some (k, if recheck_inside then PRecheck else PBody)) |}
      end
    | PRecheck => if memo s k then set_pc s t k PRelease else set_pc s t k PBody
    | PBody =>
      {| memo := memo s; execs := upd (execs s) k (S (execs s k)); holder := holder s;
         ths := upd (ths s) t (Some (k, PIsMem)) |}
    | PIsMem => if memo s k then set_pc s t k PRelease else set_pc s t k PMemoize
    | PMemoize =>
      {| memo := upd (memo s) k true; execs := execs s; holder := holder s;
         ths := upd (ths s) t (Some (k, PRelease)) |}
    | PRelease =>
      {| memo := memo s; execs := execs s; holder := upd (holder s) k None;
         ths := upd (ths s) t (Some (k, PDone)) |}
    | PDone => s
    end
  end.

Definition run (s : state) (sched : list nat) : state := fold_left step sched s.

End Step.

(** initial state: [m0] = what is memoized beforehand, [calls] = the key each thread calls *)
Definition init (m0 : nat -> bool) (calls : list nat) : state :=
  {| memo := m0; execs := fun _ => 0; holder := fun _ => None;
     ths := fun t => match nth_error calls t with Some k => Some (k, PStart) | None => None end |}.

Definition all_done (s : state) : Prop :=
  forall t k p, ths s t = Some (k, p) -> p = PDone.

Definition enabled (s : state) (t : nat) : bool :=
  match ths s t with
  | Some (k, PWantLock) => match holder s k with None => true | Some _ => false end
  | Some (_, PDone) => false
  | Some _ => true
  | None => false
  end.
