(** C09, the in-memory storage backend: its tables map a function name to a map from argument
    hash to memento, and are shared by all threads without a lock. Each memoization is
      - atomic variant: [GetOrCreate f] (one indivisible step: defaultdict's __missing__ inserts the
        empty inner map if there is none) then [Add f a];
      - check-then-act variant: [Check f] (remember whether the inner map exists), then, if it did
        not, [Create f] (assign a fresh empty inner map), then [Add f a].
    A schedule is any sequence of such steps (an interleaving of the threads' step sequences). *)
From Coq Require Import List Arith Bool.
Import ListNotations.

Definition table := list (nat * list nat).        (* function -> argument hashes memoized *)

Fixpoint tget (f : nat) (t : table) : option (list nat) :=
  match t with [] => None | (g, l) :: r => if Nat.eqb f g then Some l else tget f r end.

Fixpoint tset (f : nat) (l : list nat) (t : table) : table :=
  match t with
  | [] => [(f, l)]
  | (g, l') :: r => if Nat.eqb f g then (f, l) :: r else (g, l') :: tset f l r
  end.

Inductive op :=
| GetOrCreate (f : nat)          (* atomic: create the empty inner map only if absent *)
| Create (f : nat)               (* unconditional assignment of a fresh empty inner map *)
| Add (f a : nat).               (* inner[a] = memento; the inner map is looked up at this moment *)

Definition step (t : table) (o : op) : table :=
  match o with
  | GetOrCreate f => match tget f t with Some _ => t | None => tset f [] t end
  | Create f => tset f [] t
  | Add f a => match tget f t with Some l => tset f (a :: l) t | None => t end
  end.

Definition run (t : table) (ops : list op) : table := fold_left step ops t.

Definition has (t : table) (f a : nat) : bool :=
  match tget f t with Some l => existsb (Nat.eqb a) l | None => false end.

Lemma tget_tset_same f l t : tget f (tset f l t) = Some l.
Proof.
  induction t as [|[g l'] r IH]; simpl.
  - rewrite Nat.eqb_refl. reflexivity.
  - destruct (Nat.eqb f g) eqn:E; simpl; [rewrite Nat.eqb_refl; reflexivity|]. rewrite E. exact IH.
Qed.

Lemma tget_tset_other f g l t : f <> g -> tget f (tset g l t) = tget f t.
Proof.
  intros Hne. induction t as [|[h l'] r IH]; simpl.
  - destruct (Nat.eqb f g) eqn:E; [apply Nat.eqb_eq in E; contradiction|reflexivity].
  - destruct (Nat.eqb g h) eqn:E; simpl.
    + apply Nat.eqb_eq in E. subst h.
      destruct (Nat.eqb f g) eqn:E2; [apply Nat.eqb_eq in E2; contradiction|reflexivity].
    + destruct (Nat.eqb f h); auto.
Qed.

(** steps that never replace an existing inner map *)
Definition gentle (o : op) : bool := match o with Create _ => false | _ => true end.

Lemma gentle_step_keeps t o f a : gentle o = true -> has t f a = true -> has (step t o) f a = true.
Proof.
  unfold has. destruct o as [g|g|g b]; simpl; intros Hg H; try discriminate.
  - destruct (tget g t) eqn:E; auto.
    destruct (Nat.eq_dec f g) as [->|Hne].
    + rewrite E in H. discriminate.
    + rewrite tget_tset_other by auto. exact H.
  - destruct (tget g t) as [l|] eqn:E; auto.
    destruct (Nat.eq_dec f g) as [->|Hne].
    + rewrite tget_tset_same. rewrite E in H. simpl. rewrite H. apply orb_true_r.
    + rewrite tget_tset_other by auto. exact H.
Qed.

Lemma gentle_run_keeps ops : forall t f a, forallb gentle ops = true -> has t f a = true -> has (run t ops) f a = true.
Proof.
  induction ops as [|o r IH]; simpl; intros t f a Hg H; auto.
  apply andb_true_iff in Hg as [Ho Hr]. apply IH; auto. apply gentle_step_keeps; auto.
Qed.

Lemma gentle_run_keeps_map ops : forall t f, forallb gentle ops = true -> tget f t <> None -> tget f (run t ops) <> None.
Proof.
  induction ops as [|o r IH]; simpl; intros t f Hg H; auto.
  apply andb_true_iff in Hg as [Ho Hr]. apply IH; auto.
  destruct o as [g|g|g b]; simpl in *; try discriminate.
  - destruct (tget g t) eqn:E; auto.
    destruct (Nat.eq_dec f g) as [->|Hne]; [rewrite tget_tset_same; discriminate|rewrite tget_tset_other; auto].
  - destruct (tget g t) eqn:E; auto.
    destruct (Nat.eq_dec f g) as [->|Hne]; [rewrite tget_tset_same; discriminate|rewrite tget_tset_other; auto].
Qed.

(** ATOMIC variant: whatever the interleaving, every memento added after its function's inner map
    was obtained by [GetOrCreate] is in the table at the end — for any number of threads, functions
    and argument hashes *)
Theorem atomic_inserts_keep_everything : forall pre f a post t,
  forallb gentle (pre ++ Add f a :: post) = true ->
  In (GetOrCreate f) pre ->
  has (run t (pre ++ Add f a :: post)) f a = true.
Proof.
  intros pre f a post t Hg Hin.
  rewrite forallb_app in Hg. apply andb_true_iff in Hg as [Hpre Hpost]. simpl in Hpost.
  assert (Hmap : tget f (run t pre) <> None).
  { apply in_split in Hin. destruct Hin as [p1 [p2 ->]].
    rewrite forallb_app in Hpre. apply andb_true_iff in Hpre as [H1 H2]. simpl in H2.
    replace (run t (p1 ++ GetOrCreate f :: p2)) with (run (step (run t p1) (GetOrCreate f)) p2)
      by (unfold run; rewrite fold_left_app; reflexivity).
    apply gentle_run_keeps_map; auto. cbn [step].
    destruct (tget f (run t p1)) eqn:E; [rewrite E; discriminate|rewrite tget_tset_same; discriminate]. }
  replace (run t (pre ++ Add f a :: post)) with (run (step (run t pre) (Add f a)) post)
    by (unfold run; rewrite fold_left_app; reflexivity).
  apply gentle_run_keeps; auto.
  unfold has. cbn [step]. destruct (tget f (run t pre)) as [l|] eqn:E; [|congruence].
  rewrite tget_tset_same. simpl. rewrite Nat.eqb_refl. reflexivity.
Qed.

(** CHECK-THEN-ACT variant: two threads memoizing different calls of one function on a cold table;
    both see "no inner map yet"; the second assignment discards the first thread's memento *)
Theorem check_then_create_loses_a_memento_refuted :
  let schedule := [Create 7; Add 7 1; Create 7; Add 7 2] in      (* T1 creates + adds, then T2 (which checked before) creates + adds *)
  has (run [] schedule) 7 1 = false /\ has (run [] schedule) 7 2 = true /\
  has (run [] [GetOrCreate 7; Add 7 1; GetOrCreate 7; Add 7 2]) 7 1 = true.
Proof. vm_compute. auto. Qed.
