(** Transparency, exact store-independent provenance, batch = element-wise, context keys —
    for every program (call DAG), every store consistent with it, every context. *)
From Coq Require Import List Arith Bool Lia.
From Memento Require Import Runner.Run.
Import ListNotations.

Lemma key_eqb_spec a b : reflect (a = b) (key_eqb a b).
Proof.
  destruct a as [a1 a2], b as [b1 b2]. unfold key_eqb; simpl.
  destruct (Nat.eqb_spec a1 b1), (Nat.eqb_spec a2 b2); constructor; congruence.
Qed.

Lemma fold_left_ext_in {A B} (f g : A -> B -> A) l a :
  (forall a x, In x l -> f a x = g a x) -> fold_left f l a = fold_left g l a.
Proof.
  revert a. induction l as [|x l IH]; intros a H; simpl; auto.
  rewrite H by (left; auto). apply IH. intros; apply H; right; auto.
Qed.

Section P.
Variable p : prog.

(** the call graph is a DAG: callees have smaller ids *)
Definition WF : Prop := forall id kc, In kc (nkids (p id)) -> fst kc < id.
Hypothesis Hwf : WF.

Lemma value_stable f1 : forall f2 id ctx, id < f1 -> id < f2 -> value p f1 id ctx = value p f2 id ctx.
Proof.
  induction f1 as [|f1 IH]; intros f2 id ctx H1 H2; [lia|]. destruct f2 as [|f2]; [lia|].
  cbn [value].
  assert (E : fold_left (fun acc kc => acc + oval (value p f1 (fst kc) (eff_ctx ctx (snd kc)))) (nkids (p id)) 0
            = fold_left (fun acc kc => acc + oval (value p f2 (fst kc) (eff_ctx ctx (snd kc)))) (nkids (p id)) 0).
  { apply fold_left_ext_in. intros a kc Hin. f_equal. f_equal.
    apply IH; pose proof (Hwf id kc Hin); lia. }
  rewrite E. reflexivity.
Qed.

Lemma deps_stable f1 : forall f2 id ctx, id < f1 -> id < f2 -> deps_of p f1 id ctx = deps_of p f2 id ctx.
Proof.
  induction f1 as [|f1 IH]; intros f2 id ctx H1 H2; [lia|]. destruct f2 as [|f2]; [lia|].
  cbn [deps_of]. apply fold_left_ext_in. intros a kc Hin. f_equal.
  apply IH; pose proof (Hwf id kc Hin); lia.
Qed.

Lemma spec_stable f1 f2 id ctx : id < f1 -> id < f2 -> spec_entry p f1 id ctx = spec_entry p f2 id ctx.
Proof. intros. unfold spec_entry. rewrite (value_stable f1 f2), (deps_stable f1 f2) by auto. reflexivity. Qed.

(** a store consistent with the program: every entry is what an un-memoized execution of that
    call produces, with the exact provenance *)
Definition StoreOK (s : store) : Prop :=
  forall id ctx e, slookup (id, ctx) s = Some e -> e = spec_entry p (S id) id ctx.

Definition extends (s s' : store) : Prop := forall k e, slookup k s = Some e -> slookup k s' = Some e.

Lemma extends_refl s : extends s s. Proof. intros k e H; exact H. Qed.
Lemma extends_trans a b c : extends a b -> extends b c -> extends a c.
Proof. intros H1 H2 k e H. auto. Qed.

Lemma slookup_cons k e s k' :
  slookup k' ((k, e) :: s) = if key_eqb k' k then Some e else slookup k' s.
Proof. reflexivity. Qed.

(* the two per-kid steps of [run] *)
Definition step_seq (f : nat) (ctx : nat) (a : acc) (kc : nat * option nat) : acc :=
  let k := (fst kc, eff_ctx ctx (snd kc)) in
  absorb a k (nfn (p (fst kc))) (run p f (a_store a) (fst kc) (snd k)).

Definition step_batch (f : nat) (ctx : nat) (a : acc) (kcp : (nat * option nat) * option entry) : acc :=
  let '(kc, pr) := kcp in
  let k := (fst kc, eff_ctx ctx (snd kc)) in
  match pr with
  | Some e => absorb a k (nfn (p (fst kc))) (eout e, a_store a, [], e)
  | None => absorb a k (nfn (p (fst kc))) (run p f (a_store a) (fst kc) (snd k))
  end.

(* what the reference semantics accumulates over a list of kids *)
Definition sum_step (f ctx : nat) (acc : nat) (kc : nat * option nat) : nat :=
  acc + oval (value p f (fst kc) (eff_ctx ctx (snd kc))).
Definition deps_step (f ctx : nat) (acc : list nat) (kc : nat * option nat) : list nat :=
  union (add_dep (nfn (p (fst kc))) acc) (deps_of p f (fst kc) (eff_ctx ctx (snd kc))).

(** the statement proved by induction on fuel *)
Definition RunOK (f : nat) : Prop :=
  forall s id ctx, id < f -> StoreOK s ->
    let '(o, s', ex, m) := run p f s id ctx in
    m = spec_entry p (S id) id ctx /\ o = eout m /\ StoreOK s' /\ extends s s' /\ slookup (id, ctx) s' = Some m.

Lemma fold_seq_ok f ctx (IH : RunOK f) : forall l a,
  (forall kc, In kc l -> fst kc < f) -> StoreOK (a_store a) ->
  let a' := fold_left (step_seq f ctx) l a in
  StoreOK (a_store a') /\ extends (a_store a) (a_store a') /\
  a_sum a' = fold_left (sum_step f ctx) l (a_sum a) /\
  a_inv a' = a_inv a ++ map (fun kc => (fst kc, eff_ctx ctx (snd kc))) l /\
  a_deps a' = fold_left (deps_step f ctx) l (a_deps a).
Proof.
  induction l as [|kc l IHl]; intros a Hlt Hok; cbn [fold_left map].
  - rewrite app_nil_r. repeat split; auto using extends_refl.
  - assert (Hk : fst kc < f) by (apply Hlt; left; auto).
    pose proof (IH (a_store a) (fst kc) (eff_ctx ctx (snd kc)) Hk Hok) as Hr.
    destruct (run p f (a_store a) (fst kc) (eff_ctx ctx (snd kc))) as [[[o s1] ex] m] eqn:E.
    destruct Hr as (Hm & Ho & Hok1 & Hext & _).
    set (a1 := absorb a (fst kc, eff_ctx ctx (snd kc)) (nfn (p (fst kc))) (o, s1, ex, m)).
    assert (Ea : step_seq f ctx a kc = a1) by (unfold step_seq; cbn [fst snd]; rewrite E; reflexivity).
    rewrite Ea.
    destruct (IHl a1) as (H1 & H2 & H3 & H4 & H5).
    { intros; apply Hlt; right; auto. } { exact Hok1. }
    repeat split; auto.
    + eapply extends_trans; [exact Hext|exact H2].
    + rewrite H3. unfold a1, absorb; cbn [a_sum]. f_equal. unfold sum_step. f_equal.
      rewrite Ho, Hm. unfold spec_entry; cbn [eout]. f_equal. apply value_stable; lia.
    + rewrite H4. unfold a1, absorb; cbn [a_inv]. rewrite <- app_assoc. reflexivity.
    + rewrite H5. unfold a1, absorb; cbn [a_deps]. f_equal. unfold deps_step. f_equal.
      rewrite Hm. unfold spec_entry; cbn [edeps]. apply deps_stable; lia.
Qed.

(** a batch element whose bulk pre-check found an entry behaves exactly like running it *)
Lemma step_batch_eq_seq f ctx a kc pr s0 :
  pr = slookup (fst kc, eff_ctx ctx (snd kc)) s0 -> extends s0 (a_store a) ->
  step_batch (S f) ctx a (kc, pr) = step_seq (S f) ctx a kc.
Proof.
  intros Hpr Hext. unfold step_batch, step_seq. cbn [fst snd].
  destruct pr as [e|]; [|reflexivity].
  symmetry in Hpr. apply Hext in Hpr. cbn [run]. rewrite Hpr. reflexivity.
Qed.

Lemma run_extends : forall f s id ctx, extends s (snd (fst (fst (run p f s id ctx)))).
Proof.
  induction f as [|f IH]; intros s id ctx; cbn [run]; [apply extends_refl|].
  destruct (slookup (id, ctx) s) as [e|] eqn:E; [apply extends_refl|].
  cbn [fst snd].
  assert (Hseq : forall l a, extends (a_store a) (a_store (fold_left (step_seq f ctx) l a))).
  { induction l as [|kc l IHl]; intros a; cbn [fold_left]; [apply extends_refl|].
    eapply extends_trans; [|apply IHl]. unfold step_seq. cbn [fst snd].
    pose proof (IH (a_store a) (fst kc) (eff_ctx ctx (snd kc))) as Hx.
    destruct (run p f (a_store a) (fst kc) (eff_ctx ctx (snd kc))) as [[[o s1] ex] m]. exact Hx. }
  assert (Hbat : forall l a, extends (a_store a) (a_store (fold_left (step_batch f ctx) l a))).
  { induction l as [|[kc pr] l IHl]; intros a; cbn [fold_left]; [apply extends_refl|].
    eapply extends_trans; [|apply IHl]. unfold step_batch. cbn [fst snd].
    destruct pr as [e'|]; [apply extends_refl|].
    pose proof (IH (a_store a) (fst kc) (eff_ctx ctx (snd kc))) as Hx.
    destruct (run p f (a_store a) (fst kc) (eff_ctx ctx (snd kc))) as [[[o s1] ex] m]. exact Hx. }
  intros k e' Hk. rewrite slookup_cons.
  destruct (key_eqb_spec k (id, ctx)) as [->|Hn]; [congruence|].
  set (a0 := {| a_store := s; a_sum := 0; a_inv := []; a_deps := [nfn (p id)]; a_exec := [(id, ctx)] |}).
  destruct (nbatch (p id)).
  - apply (Hbat _ a0 k e' Hk).
  - apply (Hseq _ a0 k e' Hk).
Qed.

(** in a batch, the elements behave exactly as when called one after the other *)
Lemma fold_batch_eq_seq f ctx s0 : forall l a,
  extends s0 (a_store a) ->
  fold_left (step_batch (S f) ctx) (combine l (map (fun kc => slookup (fst kc, eff_ctx ctx (snd kc)) s0) l)) a
  = fold_left (step_seq (S f) ctx) l a.
Proof.
  induction l as [|kc l IHl]; intros a Hext; cbn [map combine fold_left]; [reflexivity|].
  rewrite (step_batch_eq_seq f ctx a kc _ s0 eq_refl Hext). apply IHl.
  eapply extends_trans; [exact Hext|]. unfold step_seq. cbn [fst snd].
  pose proof (run_extends (S f) (a_store a) (fst kc) (eff_ctx ctx (snd kc))) as Hx.
  destruct (run p (S f) (a_store a) (fst kc) (eff_ctx ctx (snd kc))) as [[[o s1] ex] m]. exact Hx.
Qed.

Lemma storeok_cons s id ctx m :
  StoreOK s -> m = spec_entry p (S id) id ctx -> StoreOK (((id, ctx), m) :: s).
Proof.
  intros Hs Hm id' ctx' e. rewrite slookup_cons.
  destruct (key_eqb_spec (id', ctx') (id, ctx)) as [E|Hn].
  - inversion E; subst. intros H; inversion H; reflexivity.
  - apply Hs.
Qed.

Theorem run_ok : forall f, RunOK f.
Proof.
  induction f as [|f IH]; intros s id ctx Hlt Hok; [lia|].
  cbn [run]. destruct (slookup (id, ctx) s) as [e|] eqn:E.
  - pose proof (Hok _ _ _ E) as He. repeat split; auto using extends_refl.
  - destruct f as [|f'].
    + (* fuel 1: id = 0, no kids can exist below 0 *)
      assert (id = 0) by lia. subst id.
      assert (Hk : nkids (p 0) = []).
      { destruct (nkids (p 0)) as [|kc l] eqn:Ek; auto. pose proof (Hwf 0 kc). rewrite Ek in H. specialize (H (or_introl eq_refl)). lia. }
      rewrite Hk. destruct (nbatch (p 0)); cbn [map combine fold_left a_sum a_inv a_deps a_exec a_store];
        (split; [unfold spec_entry, invs_of; cbn [value deps_of]; rewrite Hk; cbn [fold_left map]; rewrite Nat.add_0_r; reflexivity|]);
        (split; [reflexivity|]); (split; [apply storeok_cons; auto; unfold spec_entry, invs_of; cbn [value deps_of]; rewrite Hk; cbn [fold_left map]; rewrite Nat.add_0_r; reflexivity|]);
        (split; [intros k e' Hl; rewrite slookup_cons; destruct (key_eqb_spec k (0, ctx)) as [->|]; [congruence|auto]|]);
        rewrite slookup_cons; destruct (key_eqb_spec (0, ctx) (0, ctx)); congruence.
    + set (a0 := {| a_store := s; a_sum := 0; a_inv := []; a_deps := [nfn (p id)]; a_exec := [(id, ctx)] |}).
      assert (Hkids : forall kc, In kc (nkids (p id)) -> fst kc < S f').
      { intros kc Hin. pose proof (Hwf id kc Hin). lia. }
      (* both ways of calling the kids give the sequential fold *)
      assert (Hfold : (if nbatch (p id)
                       then fold_left (step_batch (S f') ctx) (combine (nkids (p id)) (map (fun kc => slookup (fst kc, eff_ctx ctx (snd kc)) s) (nkids (p id)))) a0
                       else fold_left (step_seq (S f') ctx) (nkids (p id)) a0)
                      = fold_left (step_seq (S f') ctx) (nkids (p id)) a0).
      { destruct (nbatch (p id)); [|reflexivity]. apply fold_batch_eq_seq. apply extends_refl. }
      change (fold_left (fun a kcp => let '(kc, pr) := kcp in _) ?l a0) with (fold_left (step_batch (S f') ctx) l a0) in *.
      match goal with |- context [if nbatch (p id) then ?A else ?B] =>
        change A with (fold_left (step_batch (S f') ctx) (combine (nkids (p id)) (map (fun kc => slookup (fst kc, eff_ctx ctx (snd kc)) s) (nkids (p id)))) a0);
        change B with (fold_left (step_seq (S f') ctx) (nkids (p id)) a0) end.
      rewrite Hfold.
      destruct (fold_seq_ok (S f') ctx IH (nkids (p id)) a0 Hkids Hok) as (H1 & H2 & H3 & H4 & H5).
      set (a1 := fold_left (step_seq (S f') ctx) (nkids (p id)) a0) in *.
      assert (Hm : {| eout := if nfails (p id) then Exc id else Val (id + a_sum a1); einv := a_inv a1; edeps := a_deps a1 |}
                   = spec_entry p (S id) id ctx).
      { unfold spec_entry, invs_of. cbn [value deps_of]. rewrite H3, H4, H5. cbn [a_sum a_inv a_deps a0 app].
        assert (E1 : fold_left (sum_step (S f') ctx) (nkids (p id)) 0
                     = fold_left (fun acc kc => acc + oval (value p id (fst kc) (eff_ctx ctx (snd kc)))) (nkids (p id)) 0).
        { apply fold_left_ext_in. intros a kc Hin. unfold sum_step. f_equal. f_equal.
          apply value_stable; pose proof (Hwf id kc Hin); lia. }
        assert (E2 : fold_left (deps_step (S f') ctx) (nkids (p id)) [nfn (p id)]
                     = fold_left (fun acc kc => union (add_dep (nfn (p (fst kc))) acc) (deps_of p id (fst kc) (eff_ctx ctx (snd kc))))
                                 (nkids (p id)) [nfn (p id)]).
        { apply fold_left_ext_in. intros a kc Hin. unfold deps_step. f_equal.
          apply deps_stable; pose proof (Hwf id kc Hin); lia. }
        rewrite E1, E2. reflexivity. }
      split; [exact Hm|]. split; [reflexivity|]. split; [apply storeok_cons; auto|].
      split.
      * intros k e' Hl. rewrite slookup_cons. destruct (key_eqb_spec k (id, ctx)) as [->|]; [congruence|]. apply H2. exact Hl.
      * rewrite slookup_cons. destruct (key_eqb_spec (id, ctx) (id, ctx)); congruence.
Qed.

(** C02 (model): a memoized call returns exactly what an un-memoized execution returns *)
Theorem transparent f s id ctx : id < f -> StoreOK s ->
  fst (fst (fst (run p f s id ctx))) = value p (S id) id ctx.
Proof.
  intros Hlt Hok. pose proof (run_ok f s id ctx Hlt Hok) as H.
  destruct (run p f s id ctx) as [[[o s'] ex] m]. destruct H as (-> & -> & _). reflexivity.
Qed.

(** C10: the recorded provenance is exact and does not depend on what was memoized before *)
Theorem provenance_exact f s id ctx : id < f -> StoreOK s ->
  snd (run p f s id ctx) = spec_entry p (S id) id ctx.
Proof.
  intros Hlt Hok. pose proof (run_ok f s id ctx Hlt Hok) as H.
  destruct (run p f s id ctx) as [[[o s'] ex] m]. destruct H as (-> & _). reflexivity.
Qed.

Corollary provenance_store_independent f s1 s2 id ctx : id < f -> StoreOK s1 -> StoreOK s2 ->
  snd (run p f s1 id ctx) = snd (run p f s2 id ctx).
Proof. intros. rewrite !provenance_exact by auto. reflexivity. Qed.

(** C02: once called, the call is served from the store: no body runs, same outcome *)
Theorem second_call_runs_nothing f s id ctx : id < f -> StoreOK s ->
  let '(o, s', _, m) := run p f s id ctx in
  run p f s' id ctx = (o, s', [], m).
Proof.
  intros Hlt Hok. pose proof (run_ok f s id ctx Hlt Hok) as H.
  destruct (run p f s id ctx) as [[[o s'] ex] m]. destruct H as (Hm & Ho & _ & _ & Hl).
  destruct f; [lia|]. cbn [run]. rewrite Hl, Ho. reflexivity.
Qed.

(** the empty store is consistent, and consistency is preserved by every call *)
Lemma storeok_nil : StoreOK []. Proof. intros id ctx e H; discriminate. Qed.

Theorem run_preserves_storeok f s id ctx : id < f -> StoreOK s ->
  StoreOK (snd (fst (fst (run p f s id ctx)))).
Proof.
  intros Hlt Hok. pose proof (run_ok f s id ctx Hlt Hok) as H.
  destruct (run p f s id ctx) as [[[o s'] ex] m]. destruct H as (_ & _ & H & _). exact H.
Qed.

(** C16: nested calls inherit the caller's context unless the edge overrides it, in which case
    the override replaces it entirely; the effective context is part of every recorded key *)
Theorem context_flows f s id ctx : id < f -> StoreOK s ->
  einv (snd (run p f s id ctx)) = map (fun kc => (fst kc, eff_ctx ctx (snd kc))) (nkids (p id)).
Proof. intros. rewrite provenance_exact by auto. reflexivity. Qed.

End P.

(** C15: calling the sub-calls as one batch or one after the other is the same computation:
    flipping [nbatch] anywhere changes neither outcomes, nor the store, nor executions, nor
    mementos (no consistency assumption needed) *)
Definition same_but_batch (p q : prog) : Prop :=
  forall id, nfn (p id) = nfn (q id) /\ nfails (p id) = nfails (q id) /\ nkids (p id) = nkids (q id).

Lemma run_S p f s id ctx :
  run p (S f) s id ctx =
  match slookup (id, ctx) s with
  | Some e => (eout e, s, [], e)
  | None =>
    let a0 := {| a_store := s; a_sum := 0; a_inv := []; a_deps := [nfn (p id)]; a_exec := [(id, ctx)] |} in
    let a1 := if nbatch (p id)
              then fold_left (step_batch p f ctx) (combine (nkids (p id)) (map (fun kc => slookup (fst kc, eff_ctx ctx (snd kc)) s) (nkids (p id)))) a0
              else fold_left (step_seq p f ctx) (nkids (p id)) a0 in
    let o := if nfails (p id) then Exc id else Val (id + a_sum a1) in
    let e := {| eout := o; einv := a_inv a1; edeps := a_deps a1 |} in
    (o, ((id, ctx), e) :: a_store a1, a_exec a1, e)
  end.
Proof. reflexivity. Qed.

Theorem batch_eq_elementwise p q : WF p -> same_but_batch p q ->
  forall f s id ctx, id < f -> run p f s id ctx = run q f s id ctx.
Proof.
  intros Hwf Hsame. induction f as [|f IH]; intros s id ctx Hlt; [lia|].
  rewrite !run_S. destruct (slookup (id, ctx) s); [reflexivity|].
  destruct (Hsame id) as (Hfn & Hfl & Hk). rewrite <- Hfn, <- Hfl, <- Hk.
  cbv zeta.
  set (a0 := {| a_store := s; a_sum := 0; a_inv := []; a_deps := [nfn (p id)]; a_exec := [(id, ctx)] |}).
  assert (Hkids : forall kc, In kc (nkids (p id)) -> fst kc < f).
  { intros kc Hin. pose proof (Hwf id kc Hin). lia. }
  assert (Hstep : forall a kc, In kc (nkids (p id)) -> step_seq q f ctx a kc = step_seq p f ctx a kc).
  { intros a kc Hin. unfold step_seq. rewrite <- IH by (apply Hkids; auto).
    destruct (Hsame (fst kc)) as (-> & _). reflexivity. }
  assert (Hbat : forall (r : prog), (forall a kc, In kc (nkids (p id)) -> step_seq r f ctx a kc = step_seq p f ctx a kc) ->
            forall l a, incl l (nkids (p id)) -> extends s (a_store a) ->
            fold_left (step_batch r f ctx) (combine l (map (fun kc => slookup (fst kc, eff_ctx ctx (snd kc)) s) l)) a
            = fold_left (step_seq p f ctx) l a).
  { intros r Hr. induction l as [|kc l IHl]; intros a Hincl Hx; cbn [map combine fold_left]; [reflexivity|].
    assert (Hin : In kc (nkids (p id))) by (apply Hincl; left; auto).
    assert (E : step_batch r f ctx a (kc, slookup (fst kc, eff_ctx ctx (snd kc)) s) = step_seq p f ctx a kc).
    { rewrite <- (Hr a kc Hin). destruct f as [|f']; [pose proof (Hkids kc Hin); lia|].
      apply (step_batch_eq_seq r f' ctx a kc _ s eq_refl Hx). }
    rewrite E. apply IHl; [intros x Hxin; apply Hincl; right; auto|].
    eapply extends_trans; [exact Hx|]. unfold step_seq. cbn [fst snd].
    pose proof (run_extends p f (a_store a) (fst kc) (eff_ctx ctx (snd kc))) as Hy.
    destruct (run p f (a_store a) (fst kc) (eff_ctx ctx (snd kc))) as [[[o s1] ex] m]. exact Hy. }
  assert (Hp : (if nbatch (p id)
                then fold_left (step_batch p f ctx) (combine (nkids (p id)) (map (fun kc => slookup (fst kc, eff_ctx ctx (snd kc)) s) (nkids (p id)))) a0
                else fold_left (step_seq p f ctx) (nkids (p id)) a0) = fold_left (step_seq p f ctx) (nkids (p id)) a0).
  { destruct (nbatch (p id)); [|reflexivity]. apply (Hbat p); auto using incl_refl, extends_refl. }
  assert (Hq : (if nbatch (q id)
                then fold_left (step_batch q f ctx) (combine (nkids (p id)) (map (fun kc => slookup (fst kc, eff_ctx ctx (snd kc)) s) (nkids (p id)))) a0
                else fold_left (step_seq q f ctx) (nkids (p id)) a0) = fold_left (step_seq p f ctx) (nkids (p id)) a0).
  { destruct (nbatch (q id)).
    - apply (Hbat q); auto using incl_refl, extends_refl.
    - apply fold_left_ext_in. intros a kc Hin. apply Hstep. exact Hin. }
  rewrite Hp, Hq. reflexivity.
Qed.
