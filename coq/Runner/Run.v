(** The runner (runner_local.py: memento_run_batch, LocalRunnerBackend.batch_run,
    memento_run_local, propagate_dependencies; base.py: call / call_batch) as a memoizing
    big-step evaluator of call DAGs.

    A program is a table  id -> node definition; the id stands for (function, argument spec),
    i.e. for the memo key without context arguments. A node names its function, says whether
    its body raises, and lists the calls its body makes in order, each with an optional
    context-argument override on that edge ([Some 0] = the explicit empty override) and whether
    the body makes them as one batch. Kids have smaller ids (the call graph is a DAG), so
    evaluation is structural on fuel >= id.

    - value of a node: id + sum of the values of its successful sub-calls; a failing node runs
      its sub-calls and then raises (the exception is memoized like a value)
    - context arguments: a call inherits the caller's effective context unless the edge
      overrides it; the effective context is part of the key
    - memento of a call: the direct sub-calls in order (with their keys), and the set of
      functions invoked transitively beneath it, itself included. *)
From Coq Require Import List Arith Bool.
Import ListNotations.

Inductive outcome := Val (v : nat) | Exc (id : nat).

Definition key : Type := (nat * nat)%type.          (* node id, effective context *)

Record ndef := {
  nfn : nat;
  nfails : bool;
  nbatch : bool;                                   (* the body calls its kids as ONE batch *)
  nkids : list (nat * option nat)                  (* callee id, context override on this edge *)
}.

Definition prog := nat -> ndef.

Record entry := { eout : outcome; einv : list key; edeps : list nat }.

Definition store := list (key * entry).

Definition key_eqb (a b : key) : bool := Nat.eqb (fst a) (fst b) && Nat.eqb (snd a) (snd b).

Fixpoint slookup (k : key) (s : store) : option entry :=
  match s with
  | [] => None
  | (k', e) :: r => if key_eqb k k' then Some e else slookup k r
  end.

Fixpoint add_dep (d : nat) (l : list nat) : list nat :=
  match l with
  | [] => [d]
  | x :: r => if Nat.eqb d x then l else x :: add_dep d r
  end.
Definition union (a b : list nat) : list nat := fold_left (fun acc d => add_dep d acc) b a.

Definition eff_ctx (parent : nat) (o : option nat) : nat := match o with Some c => c | None => parent end.

Definition oval (o : outcome) : nat := match o with Val v => v | Exc _ => 0 end.

Section Prog.
Variable p : prog.

(** ---- reference semantics: what an un-memoized execution returns, and the exact provenance ---- *)

Fixpoint value (fuel : nat) (id ctx : nat) : outcome :=
  match fuel with
  | O => Exc id
  | S f =>
    let d := p id in
    let s := fold_left (fun acc kc => acc + oval (value f (fst kc) (eff_ctx ctx (snd kc)))) (nkids d) 0 in
    if nfails d then Exc id else Val (id + s)
  end.

Fixpoint deps_of (fuel : nat) (id ctx : nat) : list nat :=
  match fuel with
  | O => [nfn (p id)]
  | S f =>
    fold_left (fun acc kc => union (add_dep (nfn (p (fst kc))) acc) (deps_of f (fst kc) (eff_ctx ctx (snd kc))))
              (nkids (p id)) [nfn (p id)]
  end.

Definition invs_of (id ctx : nat) : list key :=
  map (fun kc => (fst kc, eff_ctx ctx (snd kc))) (nkids (p id)).

Definition spec_entry (fuel : nat) (id ctx : nat) : entry :=
  {| eout := value fuel id ctx; einv := invs_of id ctx; edeps := deps_of fuel id ctx |}.

(** ---- the memoizing runner ---- *)

(* result of running one call: outcome, store, bodies executed (keys, in order), memento *)
Definition rres : Type := (outcome * store * list key * entry)%type.

(* accumulator while a body makes its calls: store, sum, invocations, deps, executions *)
Record acc := { a_store : store; a_sum : nat; a_inv : list key; a_deps : list nat; a_exec : list key }.

Definition absorb (a : acc) (k : key) (fn : nat) (r : rres) : acc :=
  let '(o, s, ex, m) := r in
  {| a_store := s; a_sum := a_sum a + oval o; a_inv := a_inv a ++ [k];
     a_deps := union (add_dep fn (a_deps a)) (edeps m); a_exec := a_exec a ++ ex |}.

Fixpoint run (fuel : nat) (s : store) (id ctx : nat) : rres :=
  match fuel with
  | O => (Exc id, s, [], {| eout := Exc id; einv := []; edeps := [] |})
  | S f =>
    match slookup (id, ctx) s with
    | Some e => (eout e, s, [], e)                                 (* served from the store *)
    | None =>
      let d := p id in
      let a0 := {| a_store := s; a_sum := 0; a_inv := []; a_deps := [nfn d]; a_exec := [(id, ctx)] |} in
      let a1 :=
        if nbatch d then
          (* batch_run: one bulk look-up first, then element by element *)
          let pre := map (fun kc => slookup (fst kc, eff_ctx ctx (snd kc)) s) (nkids d) in
          fold_left (fun a kcp =>
                       let '(kc, pr) := kcp in
                       let k := (fst kc, eff_ctx ctx (snd kc)) in
                       match pr with
                       | Some e => absorb a k (nfn (p (fst kc))) (eout e, a_store a, [], e)
                       | None => absorb a k (nfn (p (fst kc))) (run f (a_store a) (fst kc) (snd k))
                       end)
                    (combine (nkids d) pre) a0
        else
          fold_left (fun a kc =>
                       let k := (fst kc, eff_ctx ctx (snd kc)) in
                       absorb a k (nfn (p (fst kc))) (run f (a_store a) (fst kc) (snd k)))
                    (nkids d) a0 in
      let o := if nfails d then Exc id else Val (id + a_sum a1) in
      let e := {| eout := o; einv := a_inv a1; edeps := a_deps a1 |} in
      (o, ((id, ctx), e) :: a_store a1, a_exec a1, e)
    end
  end.

End Prog.

(** correspondence support *)
Definition outcome_eqb (a b : outcome) : bool :=
  match a, b with Val x, Val y => Nat.eqb x y | Exc x, Exc y => Nat.eqb x y | _, _ => false end.
Definition keys_eqb (a b : list key) : bool :=
  Nat.eqb (length a) (length b) && forallb (fun xy => key_eqb (fst xy) (snd xy)) (combine a b).
Definition set_eqb (a b : list nat) : bool :=
  forallb (fun x => existsb (Nat.eqb x) b) a && forallb (fun x => existsb (Nat.eqb x) a) b.

Fixpoint table (l : list (nat * ndef)) : prog :=
  fun id => match l with
            | [] => {| nfn := 0; nfails := false; nbatch := false; nkids := [] |}
            | (i, d) :: r => if Nat.eqb id i then d else table r id
            end.

(** a case: program, pre-memoized roots (run first, in order), then the root call under a
    context; observed: outcome, bodies executed, the root's recorded invocations and deps.
    result: None agree; Some 0 outcome; Some 1 executions; Some 2 invocations; Some 3 deps *)
Definition ids_eqb (a b : list nat) : bool :=
  Nat.eqb (length a) (length b) && forallb (fun xy => Nat.eqb (fst xy) (snd xy)) (combine a b).

Definition run_case (c : list (nat * ndef) * list (nat * nat) * (nat * nat) * (outcome * list nat * list key * list nat)) : option nat :=
  let '(tab, pre, root, seen) := c in
  let '(so, sex, sinv, sdeps) := seen in
  let p := table tab in
  let fuel := S (fold_left (fun m x => Nat.max m (fst x)) tab 0) in
  let s0 := fold_left (fun s r => snd (fst (fst (run p fuel s (fst r) (snd r))))) pre [] in
  let '(o, s1, ex, m) := run p fuel s0 (fst root) (snd root) in
  if negb (outcome_eqb o so) then Some 0
  else if negb (ids_eqb (map fst ex) sex) then Some 1
  else if negb (keys_eqb (einv m) sinv) then Some 2
  else if negb (set_eqb (edeps m) sdeps) then Some 3
  else None.
