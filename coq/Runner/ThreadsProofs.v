(** Single flight, mutual exclusion and progress for every schedule and any number of threads. *)
From Coq Require Import List Arith Bool Lia.
From Memento Require Import Runner.Threads.
Import ListNotations.

Lemma upd_same {A} (f : nat -> A) k v : upd f k v k = v.
Proof. unfold upd. rewrite Nat.eqb_refl. reflexivity. Qed.
Lemma upd_other {A} (f : nat -> A) k v x : x <> k -> upd f k v x = f x.
Proof. unfold upd. intros H. destruct (Nat.eqb_spec x k); [contradiction|reflexivity]. Qed.

Section Inv.
Variable m0 : nat -> bool.

Record Inv (s : state) : Prop := {
  iA : forall t k p, ths s t = Some (k, p) -> in_cs p = true -> holder s k = Some t;
  iB : forall k t, holder s k = Some t -> exists p, ths s t = Some (k, p) /\ in_cs p = true;
  iC : forall k, m0 k = true -> memo s k = true /\ execs s k = 0;
  iD1 : forall k, execs s k <= 1;
  iD2 : forall k, m0 k = false -> memo s k = true -> execs s k = 1;
  iD3 : forall k, execs s k = 1 ->
          memo s k = true \/ exists t p, ths s t = Some (k, p) /\ (p = PIsMem \/ p = PMemoize);
  iE : forall t k, ths s t = Some (k, PBody) -> memo s k = false /\ execs s k = 0;
  iF : forall t k p, ths s t = Some (k, p) -> (p = PIsMem \/ p = PMemoize) -> execs s k = 1;
  iG : forall t k p, ths s t = Some (k, p) -> (p = PDone \/ p = PRelease) -> memo s k = true
}.

Lemma inv_init calls : Inv (init m0 calls).
Proof.
  constructor; simpl; intros.
  - destruct (nth_error calls t); inversion H; subst. discriminate.
  - discriminate.
  - auto.
  - lia.
  - congruence.
  - discriminate.
  - destruct (nth_error calls t); inversion H.
  - destruct (nth_error calls t); inversion H; subst. destruct H0; discriminate.
  - destruct (nth_error calls t); inversion H; subst. destruct H0; discriminate.
Qed.

(** two threads inside the critical section of one key are the same thread *)
Lemma mutex s t t' k p p' : Inv s ->
  ths s t = Some (k, p) -> in_cs p = true -> ths s t' = Some (k, p') -> in_cs p' = true -> t = t'.
Proof.
  intros I H1 H2 H3 H4. pose proof (iA s I _ _ _ H1 H2). pose proof (iA s I _ _ _ H3 H4). congruence.
Qed.

(* a step of thread t that only changes t's own pc (same key) *)
Ltac other_thread Hn := rewrite upd_other in * by exact Hn.

Lemma ths_set_pc s t k p x :
  ths (set_pc s t k p) x = if Nat.eqb x t then Some (k, p) else ths s x.
Proof. reflexivity. Qed.

(** every step of every thread preserves the invariant (second look-up inside the mutex) *)
Lemma step_inv s t : Inv s -> Inv (step true s t).
Proof.
  intros I. unfold step.
  destruct (ths s t) as [[k p]|] eqn:Ht; [|exact I].
  destruct p.
  - (* PStart *)
    destruct (memo s k) eqn:Hm.
    + (* -> PDone *)
      constructor; cbn [set_pc memo execs holder ths]; intros.
      * unfold upd in H. destruct (Nat.eqb_spec t0 t); [inversion H; subst; discriminate|eapply iA; eauto].
      * destruct (iB s I _ _ H) as (p & Hp & Hcs). exists p. split; auto. unfold upd.
        destruct (Nat.eqb_spec t0 t); [subst; rewrite Ht in Hp; inversion Hp; subst; discriminate|auto].
      * eapply iC; eauto.
      * eapply iD1; eauto.
      * eapply iD2; eauto.
      * destruct (iD3 s I _ H) as [|(t1 & p1 & Hp1 & Hor)]; auto. right. exists t1, p1. split; auto.
        unfold upd. destruct (Nat.eqb_spec t1 t); [subst; rewrite Ht in Hp1; inversion Hp1; subst; destruct Hor; discriminate|auto].
      * unfold upd in H. destruct (Nat.eqb_spec t0 t); [inversion H|eapply iE; eauto].
      * unfold upd in H. destruct (Nat.eqb_spec t0 t); [inversion H; subst; destruct H0; discriminate|eapply iF; eauto].
      * unfold upd in H. destruct (Nat.eqb_spec t0 t); [inversion H; subst; auto|eapply iG; eauto].
    + (* -> PWantLock *)
      constructor; cbn [set_pc memo execs holder ths]; intros.
      * unfold upd in H. destruct (Nat.eqb_spec t0 t); [inversion H; subst; discriminate|eapply iA; eauto].
      * destruct (iB s I _ _ H) as (p & Hp & Hcs). exists p. split; auto. unfold upd.
        destruct (Nat.eqb_spec t0 t); [subst; rewrite Ht in Hp; inversion Hp; subst; discriminate|auto].
      * eapply iC; eauto.
      * eapply iD1; eauto.
      * eapply iD2; eauto.
      * destruct (iD3 s I _ H) as [|(t1 & p1 & Hp1 & Hor)]; auto. right. exists t1, p1. split; auto.
        unfold upd. destruct (Nat.eqb_spec t1 t); [subst; rewrite Ht in Hp1; inversion Hp1; subst; destruct Hor; discriminate|auto].
      * unfold upd in H. destruct (Nat.eqb_spec t0 t); [inversion H|eapply iE; eauto].
      * unfold upd in H. destruct (Nat.eqb_spec t0 t); [inversion H; subst; destruct H0; discriminate|eapply iF; eauto].
      * unfold upd in H. destruct (Nat.eqb_spec t0 t); [inversion H; subst; destruct H0; discriminate|eapply iG; eauto].
  - (* PWantLock *)
    destruct (holder s k) as [h|] eqn:Hh; [exact I|].
    constructor; cbn [memo execs holder ths]; intros.
    + unfold upd in *. destruct (Nat.eqb_spec t0 t).
      * inversion H; subst. rewrite Nat.eqb_refl. reflexivity.
      * pose proof (iA s I _ _ _ H H0) as Hx. destruct (Nat.eqb_spec k0 k); [subst; congruence|auto].
    + unfold upd in *. destruct (Nat.eqb_spec k0 k).
      * inversion H; subst. exists PRecheck. rewrite Nat.eqb_refl. auto.
      * destruct (iB s I _ _ H) as (p & Hp & Hcs). exists p. split; auto.
        destruct (Nat.eqb_spec t0 t); [subst; rewrite Ht in Hp; inversion Hp; subst; discriminate|auto].
    + eapply iC; eauto.
    + eapply iD1; eauto.
    + eapply iD2; eauto.
    + destruct (iD3 s I _ H) as [|(t1 & p1 & Hp1 & Hor)]; auto. right. exists t1, p1. split; auto.
      unfold upd. destruct (Nat.eqb_spec t1 t); [subst; rewrite Ht in Hp1; inversion Hp1; subst; destruct Hor; discriminate|auto].
    + unfold upd in H. destruct (Nat.eqb_spec t0 t); [inversion H|eapply iE; eauto].
    + unfold upd in H. destruct (Nat.eqb_spec t0 t); [inversion H; subst; destruct H0; discriminate|eapply iF; eauto].
    + unfold upd in H. destruct (Nat.eqb_spec t0 t); [inversion H; subst; destruct H0; discriminate|eapply iG; eauto].
  - (* PRecheck *)
    assert (Hhold : holder s k = Some t) by (eapply iA; eauto).
    destruct (memo s k) eqn:Hm.
    + (* -> PRelease *)
      constructor; cbn [set_pc memo execs holder ths]; intros.
      * unfold upd in H. destruct (Nat.eqb_spec t0 t); [inversion H; subst; auto|eapply iA; eauto].
      * destruct (iB s I _ _ H) as (p & Hp & Hcs). unfold upd.
        destruct (Nat.eqb_spec t0 t); [subst; rewrite Ht in Hp; inversion Hp; subst; exists PRelease; auto|exists p; auto].
      * eapply iC; eauto.
      * eapply iD1; eauto.
      * eapply iD2; eauto.
      * destruct (iD3 s I _ H) as [|(t1 & p1 & Hp1 & Hor)]; auto. right. exists t1, p1. split; auto.
        unfold upd. destruct (Nat.eqb_spec t1 t); [subst; rewrite Ht in Hp1; inversion Hp1; subst; destruct Hor; discriminate|auto].
      * unfold upd in H. destruct (Nat.eqb_spec t0 t); [inversion H|eapply iE; eauto].
      * unfold upd in H. destruct (Nat.eqb_spec t0 t); [inversion H; subst; destruct H0; discriminate|eapply iF; eauto].
      * unfold upd in H. destruct (Nat.eqb_spec t0 t); [inversion H; subst; auto|eapply iG; eauto].
    + (* -> PBody: nobody has executed k yet *)
      assert (Hex : execs s k = 0).
      { pose proof (iD1 s I k) as Hle. destruct (execs s k) as [|[|n]] eqn:E; auto; [|lia].
        destruct (iD3 s I k E) as [Hmm|(t1 & p1 & Hp1 & Hor)]; [congruence|].
        assert (t1 = t) by (eapply mutex; eauto; destruct Hor; subst; reflexivity).
        subst. rewrite Ht in Hp1. inversion Hp1; subst. destruct Hor; discriminate. }
      constructor; cbn [set_pc memo execs holder ths]; intros.
      * unfold upd in H. destruct (Nat.eqb_spec t0 t); [inversion H; subst; auto|eapply iA; eauto].
      * destruct (iB s I _ _ H) as (p & Hp & Hcs). unfold upd.
        destruct (Nat.eqb_spec t0 t); [subst; rewrite Ht in Hp; inversion Hp; subst; exists PBody; auto|exists p; auto].
      * eapply iC; eauto.
      * eapply iD1; eauto.
      * eapply iD2; eauto.
      * destruct (iD3 s I _ H) as [|(t1 & p1 & Hp1 & Hor)]; auto. right. exists t1, p1. split; auto.
        unfold upd. destruct (Nat.eqb_spec t1 t); [subst; rewrite Ht in Hp1; inversion Hp1; subst; destruct Hor; discriminate|auto].
      * unfold upd in H. destruct (Nat.eqb_spec t0 t); [inversion H; subst; auto|eapply iE; eauto].
      * unfold upd in H. destruct (Nat.eqb_spec t0 t); [inversion H; subst; destruct H0; discriminate|eapply iF; eauto].
      * unfold upd in H. destruct (Nat.eqb_spec t0 t); [inversion H; subst; destruct H0; discriminate|eapply iG; eauto].
  - (* PBody: the body runs *)
    destruct (iE s I _ _ Ht) as [Hm Hex].
    assert (Hm0 : m0 k = false).
    { destruct (m0 k) eqn:E; auto. destruct (iC s I k E). congruence. }
    constructor; cbn [memo execs holder ths]; intros.
    + unfold upd in H. destruct (Nat.eqb_spec t0 t); [inversion H; subst; eapply iA; eauto|eapply iA; eauto].
    + destruct (iB s I _ _ H) as (p & Hp & Hcs). unfold upd.
      destruct (Nat.eqb_spec t0 t); [subst; rewrite Ht in Hp; inversion Hp; subst; exists PIsMem; auto|exists p; auto].
    + unfold upd. destruct (Nat.eqb_spec k0 k); [subst; congruence|eapply iC; eauto].
    + unfold upd. destruct (Nat.eqb_spec k0 k); [subst; lia|eapply iD1; eauto].
    + unfold upd. destruct (Nat.eqb_spec k0 k); [subst; congruence|eapply iD2; eauto].
    + unfold upd in H. destruct (Nat.eqb_spec k0 k).
      * subst. right. exists t, PIsMem. split; auto. unfold upd. rewrite Nat.eqb_refl. reflexivity.
      * destruct (iD3 s I _ H) as [|(t1 & p1 & Hp1 & Hor)]; auto. right. exists t1, p1. split; auto.
        unfold upd. destruct (Nat.eqb_spec t1 t); [subst; rewrite Ht in Hp1; inversion Hp1; subst; congruence|auto].
    + unfold upd in H. destruct (Nat.eqb_spec t0 t); [inversion H|].
      destruct (iE s I _ _ H) as [H1 H2]. split; auto. unfold upd.
      destruct (Nat.eqb_spec k0 k); [|auto]. subst.
      exfalso. apply n. symmetry. eapply mutex; eauto.
    + unfold upd in *. destruct (Nat.eqb_spec t0 t).
      * inversion H; subst. rewrite Nat.eqb_refl. lia.
      * pose proof (iF s I _ _ _ H H0) as Hx. destruct (Nat.eqb_spec k0 k); [|auto]. subst.
        exfalso. apply n. symmetry. eapply mutex; eauto. destruct H0; subst; reflexivity.
    + unfold upd in H. destruct (Nat.eqb_spec t0 t); [inversion H; subst; destruct H0; discriminate|eapply iG; eauto].
  - (* PIsMem *)
    pose proof (iF s I _ _ _ Ht (or_introl eq_refl)) as Hex.
    destruct (memo s k) eqn:Hm.
    + constructor; cbn [set_pc memo execs holder ths]; intros.
      * unfold upd in H. destruct (Nat.eqb_spec t0 t); [inversion H; subst; eapply iA; eauto|eapply iA; eauto].
      * destruct (iB s I _ _ H) as (p & Hp & Hcs). unfold upd.
        destruct (Nat.eqb_spec t0 t); [subst; rewrite Ht in Hp; inversion Hp; subst; exists PRelease; auto|exists p; auto].
      * eapply iC; eauto.
      * eapply iD1; eauto.
      * eapply iD2; eauto.
      * destruct (Nat.eq_dec k0 k); [subst; auto|].
        destruct (iD3 s I _ H) as [|(t1 & p1 & Hp1 & Hor)]; auto. right. exists t1, p1. split; auto.
        unfold upd. destruct (Nat.eqb_spec t1 t); [subst; rewrite Ht in Hp1; inversion Hp1; subst; congruence|auto].
      * unfold upd in H. destruct (Nat.eqb_spec t0 t); [inversion H|eapply iE; eauto].
      * unfold upd in H. destruct (Nat.eqb_spec t0 t); [inversion H; subst; destruct H0; discriminate|eapply iF; eauto].
      * unfold upd in H. destruct (Nat.eqb_spec t0 t); [inversion H; subst; auto|eapply iG; eauto].
    + constructor; cbn [set_pc memo execs holder ths]; intros.
      * unfold upd in H. destruct (Nat.eqb_spec t0 t); [inversion H; subst; eapply iA; eauto|eapply iA; eauto].
      * destruct (iB s I _ _ H) as (p & Hp & Hcs). unfold upd.
        destruct (Nat.eqb_spec t0 t); [subst; rewrite Ht in Hp; inversion Hp; subst; exists PMemoize; auto|exists p; auto].
      * eapply iC; eauto.
      * eapply iD1; eauto.
      * eapply iD2; eauto.
      * destruct (Nat.eq_dec k0 k).
        -- subst. right. exists t, PMemoize. split; auto. unfold upd. rewrite Nat.eqb_refl. reflexivity.
        -- destruct (iD3 s I _ H) as [|(t1 & p1 & Hp1 & Hor)]; auto. right. exists t1, p1. split; auto.
           unfold upd. destruct (Nat.eqb_spec t1 t); [subst; rewrite Ht in Hp1; inversion Hp1; subst; congruence|auto].
      * unfold upd in H. destruct (Nat.eqb_spec t0 t); [inversion H|eapply iE; eauto].
      * unfold upd in H. destruct (Nat.eqb_spec t0 t); [inversion H; subst; auto|eapply iF; eauto].
      * unfold upd in H. destruct (Nat.eqb_spec t0 t); [inversion H; subst; destruct H0; discriminate|eapply iG; eauto].
  - (* PMemoize: the result becomes visible *)
    pose proof (iF s I _ _ _ Ht (or_intror eq_refl)) as Hex.
    constructor; cbn [memo execs holder ths]; intros.
    + unfold upd in H. destruct (Nat.eqb_spec t0 t); [inversion H; subst; eapply iA; eauto|eapply iA; eauto].
    + destruct (iB s I _ _ H) as (p & Hp & Hcs). unfold upd.
      destruct (Nat.eqb_spec t0 t); [subst; rewrite Ht in Hp; inversion Hp; subst; exists PRelease; auto|exists p; auto].
    + destruct (iC s I _ H) as [H1 H2]. split; auto. unfold upd. destruct (Nat.eqb_spec k0 k); auto.
    + eapply iD1; eauto.
    + unfold upd in H0. destruct (Nat.eqb_spec k0 k); [subst; auto|eapply iD2; eauto].
    + unfold upd. destruct (Nat.eqb_spec k0 k); [auto|].
      destruct (iD3 s I _ H) as [|(t1 & p1 & Hp1 & Hor)]; auto. right. exists t1, p1. split; auto.
      destruct (Nat.eqb_spec t1 t); [subst; rewrite Ht in Hp1; inversion Hp1; subst; congruence|auto].
    + unfold upd in H. destruct (Nat.eqb_spec t0 t); [inversion H|].
      destruct (iE s I _ _ H) as [H1 H2]. split; auto. unfold upd.
      destruct (Nat.eqb_spec k0 k); [|auto]. subst. exfalso. apply n. symmetry. eapply mutex; eauto.
    + unfold upd in H. destruct (Nat.eqb_spec t0 t); [inversion H; subst; destruct H0; discriminate|eapply iF; eauto].
    + unfold upd in *. destruct (Nat.eqb_spec t0 t).
      * inversion H; subst. rewrite Nat.eqb_refl. reflexivity.
      * destruct (Nat.eqb_spec k0 k); auto. eapply iG; eauto.
  - (* PRelease *)
    assert (Hhold : holder s k = Some t) by (eapply iA; eauto).
    pose proof (iG s I _ _ _ Ht (or_intror eq_refl)) as Hm.
    constructor; cbn [memo execs holder ths]; intros.
    + unfold upd in *. destruct (Nat.eqb_spec t0 t); [inversion H; subst; discriminate|].
      pose proof (iA s I _ _ _ H H0) as Hx. destruct (Nat.eqb_spec k0 k); [subst; congruence|auto].
    + unfold upd in *. destruct (Nat.eqb_spec k0 k); [discriminate|].
      destruct (iB s I _ _ H) as (p & Hp & Hcs). exists p. split; auto.
      destruct (Nat.eqb_spec t0 t); [subst; rewrite Ht in Hp; inversion Hp; subst; congruence|auto].
    + eapply iC; eauto.
    + eapply iD1; eauto.
    + eapply iD2; eauto.
    + destruct (iD3 s I _ H) as [|(t1 & p1 & Hp1 & Hor)]; auto. right. exists t1, p1. split; auto.
      unfold upd. destruct (Nat.eqb_spec t1 t); [subst; rewrite Ht in Hp1; inversion Hp1; subst; destruct Hor; discriminate|auto].
    + unfold upd in H. destruct (Nat.eqb_spec t0 t); [inversion H|eapply iE; eauto].
    + unfold upd in H. destruct (Nat.eqb_spec t0 t); [inversion H; subst; destruct H0; discriminate|eapply iF; eauto].
    + unfold upd in H. destruct (Nat.eqb_spec t0 t); [inversion H; subst; auto|eapply iG; eauto].
  - (* PDone *) exact I.
Qed.

Theorem run_inv calls sched : Inv (run true (init m0 calls) sched).
Proof.
  unfold run. generalize (inv_init calls). generalize (init m0 calls) as s.
  induction sched as [|t sched IH]; intros s I; simpl; auto. apply IH. apply step_inv. exact I.
Qed.

(** Single flight, every schedule, any number of threads and keys: when all threads are done,
    the body of every called key ran exactly once if it was not memoized before, never otherwise;
    and at no point of no schedule did it run twice. *)
Theorem single_flight calls sched :
  let s := run true (init m0 calls) sched in
  (forall k, execs s k <= 1) /\
  (forall k, m0 k = true -> execs s k = 0) /\
  (all_done s -> forall t k, nth_error calls t = Some k -> execs s k = if m0 k then 0 else 1).
Proof.
  intros s. pose proof (run_inv calls sched) as I. fold s in I.
  split; [apply (iD1 s I)|]. split; [intros k H; apply (iC s I k H)|].
  intros Hdone t k Hc.
  assert (Hth : exists p, ths s t = Some (k, p)).
  { (* a thread never changes its key and never disappears *)
    unfold s, run. clear I Hdone s.
    assert (H0 : exists p, ths (init m0 calls) t = Some (k, p)) by (simpl; rewrite Hc; eauto).
    revert H0. generalize (init m0 calls) as s0.
    induction sched as [|t' sched IH]; intros s0 H0; simpl; auto. apply IH.
    destruct H0 as (p & Hp). unfold step.
    destruct (ths s0 t') as [[k' p']|] eqn:E; [|eauto].
    destruct (Nat.eq_dec t t') as [->|Hn].
    - rewrite Hp in E. inversion E; subst.
      destruct p'; try destruct (memo s0 k'); try destruct (holder s0 k'); simpl; unfold upd;
        rewrite ?Nat.eqb_refl; eauto.
    - destruct p'; try destruct (memo s0 k'); try destruct (holder s0 k'); simpl; unfold upd;
        try (destruct (Nat.eqb_spec t t'); [contradiction|]); eauto. }
  destruct Hth as (p & Hp). pose proof (Hdone _ _ _ Hp) as ->.
  pose proof (iG s I _ _ _ Hp (or_introl eq_refl)) as Hm.
  destruct (m0 k) eqn:E; [apply (iC s I k E)|apply (iD2 s I k E Hm)].
Qed.

(** Progress for flat calls: unless every thread is done, some thread can move. *)
Theorem flat_calls_deadlock_free calls sched :
  let s := run true (init m0 calls) sched in
  (exists t k p, ths s t = Some (k, p) /\ p <> PDone) -> exists t, enabled s t = true.
Proof.
  intros s (t & k & p & Hp & Hnd). pose proof (run_inv calls sched) as I. fold s in I.
  destruct (enabled s t) eqn:En; [eauto|].
  unfold enabled in En. rewrite Hp in En.
  destruct p; try discriminate; try congruence.
  destruct (holder s k) as [h|] eqn:Hh; [|discriminate].
  destruct (iB s I _ _ Hh) as (p' & Hp' & Hcs). exists h. unfold enabled. rewrite Hp'.
  destruct p'; try discriminate; reflexivity.
Qed.

End Inv.

(** Without the look-up inside the mutex two callers of one cold key both run the body. *)
Theorem no_recheck_refuted :
  exists calls sched, execs (run false (init (fun _ => false) calls) sched) 7 = 2.
Proof. exists [7; 7], [0; 1; 0; 0; 0; 0; 0; 1; 1; 1; 1; 1]. vm_compute. reflexivity. Qed.
