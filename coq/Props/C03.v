(** C03 — function versions are deterministic.
    Statements only (model Version/Rules.v, proofs Version/RulesProofs.v). *)
From Coq Require Import List Arith Bool.
From Memento Require Import Version.Rules Version.RulesProofs Gen.SourceFacts Gen.FactsC03.
Import ListNotations.

(** two presentations of one program that differ only in the order in which each function's
    (unordered) set of referenced names is iterated — hash randomisation, definition order,
    order of earlier queries — feed exactly the same sequence of rule contents to the digest *)
Theorem C03_version_order_independent : forall p q f fuel fuel' hd,
  same_up_to_order p q ->
  closed p (collect p fuel f) = true -> closed q (collect q fuel' f) = true ->
  version_input p hd (collect p fuel f) = version_input q hd (collect q fuel' f).
Proof. exact version_perm_invariant. Qed.
Print Assumptions C03_version_order_independent.

(** the digest input is ordered by rule key, and keys identify rules *)
Theorem C03_rule_keys_identify_rules : forall r r', rule_sortkey r = rule_sortkey r' -> r = r'.
Proof. exact sortkey_inj. Qed.
Print Assumptions C03_rule_keys_identify_rules.

(** the current source orders the rules by key and serialises set constants canonically *)
Theorem C03_current_source_orders_rules_by_key : rules_sorted_by_key = Some true.
Proof. exact rules_sorted_by_key_ok. Qed.
Theorem C03_current_source_set_constants_canonical : setconst_canonical = Some true.
Proof. exact setconst_canonical_ok. Qed.

(** ... and does not widen a shared package scope while visiting (which would make the rule set depend on the visiting order) *)
Theorem C03_current_source_scope_not_order_dependent : scope_follows_memento_fn = Some true.
Proof. exact scope_follows_memento_fn_ok. Qed.

(** the model identifies a rule by (kind, parent, target symbol); the current source gives distinct helper
    functions distinct keys also when they are lambdas, which all share the qualified name "<lambda>" *)
Theorem C03_current_source_keys_tell_anonymous_helpers_apart : anonymous_helpers_distinct = Some true.
Proof. exact anonymous_helpers_distinct_ok. Qed.

Example C03_witness :
  let mk k c refs := {| s_kind := k; s_code := c; s_defaults := 0; s_refs := refs |} in
  let p := table [(0, mk (SMemento None) 10 [1; 2; 3]); (1, mk (SPlain true) 11 [2]); (2, mk (SMemento None) 12 [0]); (3, mk (SVar (Some 7)) 0 [])] in
  let q := table [(0, mk (SMemento None) 10 [3; 2; 1]); (1, mk (SPlain true) 11 [2]); (2, mk (SMemento None) 12 [0]); (3, mk (SVar (Some 7)) 0 [])] in
  closed p (collect p 8 0) = true /\ closed q (collect q 8 0) = true /\
  collect p 8 0 <> collect q 8 0 /\
  version_input p true (collect p 8 0) = version_input q true (collect q 8 0) /\
  length (version_input p true (collect p 8 0)) = 6.
Proof. vm_compute. repeat split; auto. discriminate. Qed.
