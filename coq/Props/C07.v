(** C07 — result blobs are content-addressed, deduplicated and immutable once referenced.
    Statements only (proofs: Storage/VStoreProofs.v). [H] is the digest function, an arbitrary
    function Z -> string: nothing assumes it injective. Versions come from a fresh counter
    (the uuid4 oracle). *)
From Coq Require Import List ZArith String Bool.
From Memento Require Import Storage.Cache Storage.Spec Storage.VStore Storage.VStoreProofs.
Import ListNotations.
Open Scope Z_scope.

(** the bytes found under a content key always hash to that key — after every history *)
Theorem C07_content_integrity : forall H sh ops k v c,
  Forall wfv ops -> In ((k, v), c) (objs (data (vexec H (vinit sh) ops))) ->
  is_content_key k = true -> k = ckey_of H c.
Proof. exact content_integrity. Qed.
Print Assumptions C07_content_integrity.

(** results that serialize to the same bytes share one stored object: a content key never has
    two versions, whichever functions produced the bytes *)
Theorem C07_dedup : forall H sh ops k v v' c c',
  Forall wfv ops ->
  let d := data (vexec H (vinit sh) ops) in
  In ((k, v), c) (objs d) -> In ((k, v'), c') (objs d) -> is_content_key k = true -> v = v' /\ c = c'.
Proof. exact dedup. Qed.
Print Assumptions C07_dedup.

(** stored objects are never modified or removed by later memoizes (same override key
    included), null results under an override key, or forgets of calls / functions *)
Theorem C07_objects_immutable : forall H ops s x,
  (forall o, In o ops -> o = VForgetAll -> shared s = false) ->
  In x (objs (data s)) -> In x (objs (data (vexec H s ops))).
Proof. exact objects_immutable. Qed.
Print Assumptions C07_objects_immutable.

(** a memento keeps reading exactly the bytes that were stored when it was created *)
Theorem C07_memento_reads_its_bytes : forall H ops s m c,
  DInv H (data s) -> Forall wfv ops ->
  (forall o, In o ops -> o = VForgetAll -> shared s = false) ->
  (forall k m' c' n ov, In (VMemoize k m' c' n ov) ops -> m' <> m) ->
  read_memento s m = Some c -> read_memento (vexec H s ops) m = Some c.
Proof. exact memento_reads_its_bytes. Qed.
Print Assumptions C07_memento_reads_its_bytes.

(** forgetting a call or a function (and writing custom metadata) leaves the data store as it is *)
Theorem C07_forget_keeps_data : forall H s o,
  (match o with VForgetCall _ | VForgetFn _ | VWriteMeta _ _ _ => True | _ => False end) ->
  data (vstep H s o) = data s.
Proof. exact forget_keeps_data. Qed.
Print Assumptions C07_forget_keeps_data.

(** non-vacuity: two functions producing the same bytes share one object; an override key
    written twice keeps both versions; the first memento still reads its bytes after all that *)
Example C07_witness :
  let H := fun c => if Z.eqb c 7 then "aa"%string else "bb"%string in
  let k1 := ("m:f#1", "h1")%string in let k2 := ("m:g#1", "h2")%string in
  let ops := [VMemoize k1 1 7 false None; VMemoize k2 2 7 false None;
              VMemoize k1 3 8 false (Some "ov/a"%string); VMemoize k2 4 9 false (Some "ov/a"%string);
              VMemoize k2 5 0 true (Some "ov/a"%string); VForgetFn "m:g#1"] in
  let s := vexec H (vinit true) ops in
  Forall wfv ops /\
  objs (data s) = [(("c/aa", 0), 7); (("ov/a", 1), 8); (("ov/a", 2), 9)]%string /\
  read_memento s 1 = Some 7 /\ read_memento s 2 = Some 7 /\ read_memento s 3 = Some 8 /\
  lookup "ov/a"%string (links (data s)) = None.
Proof. cbv zeta. split; [repeat constructor|]. vm_compute. auto. Qed.
