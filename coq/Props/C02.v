(** C02 — memoization is transparent. Statements only (model Runner/Run.v). What is proved is
    the runner's logic for every call DAG and every consistent store: same outcome as an
    un-memoized execution (values and memoized exceptions alike), the body runs once and never
    again, on any store reachable by calls. That the serialization of each supported result type
    reads back as an equal value of the same type is pickle / pandas / numpy fidelity: an oracle
    for the model, carried by the correspondence check over the documented value domain. *)
From Coq Require Import List Arith Bool.
From Memento Require Import Storage.Cache Storage.Spec Storage.Layer Storage.LayerProofs.
From Memento Require Import Runner.Run Runner.RunProofs.
Open Scope nat_scope.
Import ListNotations.

Theorem C02_same_outcome_as_unmemoized : forall p, WF p -> forall f s id ctx,
  id < f -> StoreOK p s -> fst (fst (fst (run p f s id ctx))) = value p (S id) id ctx.
Proof. exact transparent. Qed.
Print Assumptions C02_same_outcome_as_unmemoized.

Theorem C02_later_calls_run_no_body : forall p, WF p -> forall f s id ctx,
  id < f -> StoreOK p s ->
  let '(o, s', _, m) := run p f s id ctx in run p f s' id ctx = (o, s', [], m).
Proof. exact second_call_runs_nothing. Qed.
Print Assumptions C02_later_calls_run_no_body.

Theorem C02_stores_stay_consistent : forall p, WF p -> forall f s id ctx,
  id < f -> StoreOK p s -> StoreOK p (snd (fst (fst (run p f s id ctx)))).
Proof. exact run_preserves_storeok. Qed.

(** on every storage configuration: the cache in front of the store changes no answer (C05),
    and forgetting a call removes exactly that call (dictionary) *)
Theorem C02_every_cache_size : forall cf nsz,
  p_evict_first cf = true -> p_clear_ref cf = true ->
  forall ops s, Forall wfop ops -> coh s -> lrun cf nsz s ops = drun (ld s) ops.
Proof. exact cache_layer_refines_dict. Qed.

Theorem C02_forget_exactly_that_call : forall d k k',
  klookup k' (calls (fst (dstep d (BForgetCall k)))) = if ckey_eqb k' k then None else klookup k' (calls d).
Proof. exact dict_forget_call_exact. Qed.

Example C02_witness :
  let p := table [(1, {| nfn := 1; nfails := true; nbatch := false; nkids := [] |});
                  (2, {| nfn := 0; nfails := false; nbatch := false; nkids := [(1, None)] |})] in
  fst (fst (fst (run p 3 [] 1 0))) = Exc 1 /\
  snd (fst (run p 3 (snd (fst (fst (run p 3 [] 1 0)))) 1 0)) = [] /\
  fst (fst (fst (run p 3 (snd (fst (fst (run p 3 [] 1 0)))) 1 0))) = Exc 1.
Proof. vm_compute. auto. Qed.
