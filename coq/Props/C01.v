(** C01 — memoized results are never stale with respect to code and data changes.
    Statements only (model Version/Rules.v + Version/Stale.v, proofs Version/StaleProofs.v).
    [sem] is ANY semantics of function bodies that depends on the code, the default parameter
    values and the values of the referenced names; editions are ANY programs. *)
From Coq Require Import List Arith Bool.
From Memento Require Import Version.Rules Version.RulesProofs Version.Stale Version.StaleProofs Gen.SourceFacts Gen.FactsC01.
Import ListNotations.

(** editions with the same reference structure (edits of bodies, constants, defaults, variable
    values): if what the digest is fed coincides, un-memoized execution coincides *)
Theorem C01_same_digest_input_same_result : forall sem,
  (forall c d e1 e2, (forall u, e1 u = e2 u) -> sem c d e1 = sem c d e2) -> forall p q f K,
  same_structure p q ->
  s_kind (p f) = SMemento None -> s_kind (q f) = SMemento None ->
  hashable p f -> hashable q f ->
  closed p (collect p K f) = true ->
  version_input p true (collect p K f) = version_input q true (collect q K f) ->
  forall n, eval sem n p f = eval sem n q f.
Proof. exact same_contents_same_result. Qed.
Print Assumptions C01_same_digest_input_same_result.

(** arbitrary editions (call edges added or removed, kinds changed): the same with the rules'
    keys kept beside their contents. PARTIAL with respect to the implementation, whose digest is
    fed the contents without the keys and without separators: see DESIGN.md *)
Theorem C01_same_keyed_input_same_result_partial : forall sem,
  (forall c d e1 e2, (forall u, e1 u = e2 u) -> sem c d e1 = sem c d e2) -> forall p q f K K',
  s_kind (p f) = SMemento None -> s_kind (q f) = SMemento None ->
  hashable p f -> hashable q f ->
  closed p (collect p K f) = true -> closed q (collect q K' f) = true ->
  keyed_input p true (collect p K f) = keyed_input q true (collect q K' f) ->
  forall n, eval sem n p f = eval sem n q f.
Proof. exact same_keyed_same_result. Qed.
Print Assumptions C01_same_keyed_input_same_result_partial.

(** why the keys are kept above: the key-less digest input can coincide for editions that behave differently
    when names change kind (outside the edits the property lists; see DESIGN.md I.7) *)
Theorem C01_contents_only_arbitrary_structure_refuted :
  let sem := fun c d (env : nat -> res) => match env 1, env 2 with Val a, Val b => Val (c + a * 2 + b) | _, _ => Val c end in
  let pin := {| s_kind := SMemento (Some 1); s_code := 7; s_defaults := 0; s_refs := [] |} in
  let var := {| s_kind := SVar (Some 5); s_code := 0; s_defaults := 0; s_refs := [] |} in
  let root := {| s_kind := SMemento None; s_code := 100; s_defaults := 0; s_refs := [1; 2] |} in
  let p := table [(1, pin); (2, var); (3, root)] in
  let q := table [(1, var); (2, pin); (3, root)] in
  version_input p true (collect p 16 3) = version_input q true (collect q 16 3) /\
  keyed_input p true (collect p 16 3) <> keyed_input q true (collect q 16 3) /\
  eval sem 4 p 3 <> eval sem 4 q 3.
Proof. exact contents_only_arbitrary_structure_refuted. Qed.

(** the store across any history of editions: whenever equal versions imply equal behaviour,
    every call returns what un-memoized execution of the current edition returns *)
Theorem C01_history_never_stale : forall sem,
  (forall c d e1 e2, (forall u, e1 u = e2 u) -> sem c d e1 = sem c d e2) ->
  forall (V : Type) (V_eqb : V -> V -> bool), (forall a b, V_eqb a b = true -> a = b) ->
  forall (ver : prog -> nat -> V) (ok : prog -> nat -> Prop),
  (forall p q f, ok p f -> ok q f -> ver p f = ver q f -> forall n, eval sem n p f = eval sem n q f) ->
  forall h, (forall p f, In (p, f) h -> good ok p) -> forall st, Inv sem V ver ok st ->
  run_history sem V V_eqb ver h st = map (fun pf => eval sem (S (snd pf)) (fst pf) (snd pf)) h.
Proof. exact history_never_stale. Qed.
Print Assumptions C01_history_never_stale.

Theorem C01_keyed_history_never_stale_partial : forall sem,
  (forall c d e1 e2, (forall u, e1 u = e2 u) -> sem c d e1 = sem c d e2) -> forall K h,
  (forall p f, In (p, f) h -> dag p /\ forall t e, s_kind (p t) = SMemento e -> ok_keyed K p t) ->
  run_history sem _ keyed_eqb (fun p f => keyed_input p true (collect p K f)) h []
  = map (fun pf => eval sem (S (snd pf)) (fst pf) (snd pf)) h.
Proof. exact keyed_history_never_stale. Qed.
Print Assumptions C01_keyed_history_never_stale_partial.

(** if default parameter values were not hashed the statement would be false ... *)
Theorem C01_defaults_unhashed_refuted :
  let sem := fun c d (_ : nat -> res) => Val (c + d) in
  let mk d := table [(0, {| s_kind := SMemento None; s_code := 1; s_defaults := d; s_refs := [] |})] in
  same_structure (mk 5) (mk 6) /\
  version_input (mk 5) false (collect (mk 5) 4 0) = version_input (mk 6) false (collect (mk 6) 4 0) /\
  keyed_input (mk 5) false (collect (mk 5) 4 0) = keyed_input (mk 6) false (collect (mk 6) 4 0) /\
  eval sem 1 (mk 5) 0 <> eval sem 1 (mk 6) 0.
Proof. exact defaults_unhashed_refuted. Qed.

(** ... and the current source does hash them *)
Theorem C01_current_source_hashes_defaults : defaults_hashed = Some true.
Proof. exact defaults_hashed_ok. Qed.

(** in the model every plain helper a reachable function refers to is hashed ([SPlain true]); the current
    source hashes the helpers of each memento function's own package, whichever package the root is in *)
Theorem C01_current_source_scope_follows_memento_function : scope_follows_memento_fn = Some true.
Proof. exact scope_follows_memento_fn_ok. Qed.

(** the bytes fed to the digest are the rule hashes concatenated: they determine the list of
    rule hashes when all have one width, and do not otherwise; the current source gives
    explicit versions the common width *)
Theorem C01_fixed_width_concatenation_injective : forall (A : Type) (w : nat), 0 < w -> forall l l' : list (list A),
  Forall (fun s => length s = w) l -> Forall (fun s => length s = w) l' -> concat l = concat l' -> l = l'.
Proof. exact @concat_fixed_inj. Qed.
Print Assumptions C01_fixed_width_concatenation_injective.

Theorem C01_variable_width_concatenation_refuted :
  concat [[1]; [2; 3]] = concat [[1; 2]; [3]] /\ [[1]; [2; 3]] <> [[1; 2]; [3]].
Proof. exact concat_variable_width_refuted. Qed.

Theorem C01_current_source_rule_hashes_fixed_width : explicit_fixed_width = Some true.
Proof. exact explicit_fixed_width_ok. Qed.

(** a history with an edit of a helper's body and of a default: the second and third calls are recomputed *)
Example C01_witness :
  let sem := fun c d (env : nat -> res) => match env 0, env 1 with
                                           | Val a, Val b => Val (c + d + a + b) | Val a, Err => Val (c + d + a) | _, _ => Val (c + d) end in
  let mk hc hd := table [(0, {| s_kind := SVar (Some 3); s_code := 0; s_defaults := 0; s_refs := [] |});
                         (1, {| s_kind := SPlain true; s_code := hc; s_defaults := hd; s_refs := [0] |});
                         (2, {| s_kind := SMemento None; s_code := 100; s_defaults := 0; s_refs := [0; 1] |})] in
  let ver := fun p f => keyed_input p true (collect p 12 f) in
  run_history sem _ keyed_eqb ver [(mk 10 1, 2); (mk 10 1, 2); (mk 20 1, 2); (mk 20 2, 2)] [] = [Val 117; Val 117; Val 127; Val 128]
  /\ closed (mk 10 1) (collect (mk 10 1) 12 2) = true.
Proof. vm_compute. auto. Qed.
