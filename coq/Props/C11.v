(** C11 — the JSON metadata codec round-trips and keeps its cross-language wire format.
    Statements only (model Codec/Wire.v, proofs Codec/WireProofs.v). Well-formedness = what the
    oracles guarantee: isoformat() strings never end in "Z", date strings are YYYY-MM-DD,
    version strings of content keys contain no '#'; [fuel] bounds the nesting depth. *)
From Coq Require Import List NArith ZArith String Bool.
From Memento Require Import Codec.Json Codec.ArgHash Codec.Wire Codec.WireProofs Gen.SourceFacts Gen.FactsC11.
Import ListNotations.
Open Scope N_scope.

Theorem C11_decode_encode_arg : forall a fuel,
  wf_arg a -> (adepth a <= fuel)%nat -> decode_arg fuel (encode_arg a) = Some a.
Proof. exact decode_encode_arg. Qed.
Print Assumptions C11_decode_encode_arg.

Theorem C11_decode_encode_fn_reference : forall fuel r,
  wf_fnref fuel r -> decode_fnref fuel (encode_fnref r) = Some r.
Proof. exact decode_encode_fnref. Qed.
Print Assumptions C11_decode_encode_fn_reference.

Theorem C11_decode_encode_memento : forall fuel m,
  wf_memento fuel m -> decode_memento true fuel (encode_memento m) = Some m.
Proof. exact decode_encode_memento. Qed.
Print Assumptions C11_decode_encode_memento.

(** the argument hash recomputed from the decoded arguments equals the original one *)
Theorem C11_arg_hash_preserved : forall eff fuel,
  wf_arg (ADict eff) -> (adepth (ADict eff) <= fuel)%nat ->
  option_map (fun a => match a with ADict e => preimage e | _ => EmptyString end)
             (decode_arg fuel (encode_arg (ADict eff))) = Some (preimage eff).
Proof. exact arg_hash_preserved. Qed.
Print Assumptions C11_arg_hash_preserved.

(** key#version is split at the last '#', so keys containing '#' survive ... *)
Theorem C11_vkey_roundtrip : forall k v,
  ~ In hash_cp v -> decode_vkey true (encode_vkey (k, v)) = Some (k, v).
Proof. exact vkey_roundtrip. Qed.
Print Assumptions C11_vkey_roundtrip.

(** ... which splitting at the first '#' would not; and the source uses rfind *)
Theorem C11_vkey_find_refuted :
  decode_vkey false (encode_vkey (u "a#b", u "v1")) <> Some (u "a#b", u "v1").
Proof. exact vkey_find_refuted. Qed.

Theorem C11_current_source_uses_rfind : vkey_split_last = Some true.
Proof. exact vkey_split_last_ok. Qed.

(** every emitted memento document has exactly the frozen member names, in the frozen order,
    and every argument is a typed {type, value} object with a known tag *)
Theorem C11_emits_wire_format : forall m, memento_format (encode_memento m) = true.
Proof. exact emits_wire_format. Qed.
Print Assumptions C11_emits_wire_format.

Theorem C11_emits_typed_args : forall a, arg_format_top (encode_arg a) = true.
Proof. exact emits_typed_args. Qed.

(** the emitted document is RFC 8259 JSON iff no float token is NaN / Infinity: the model
    prints float tokens verbatim, and Python prints those as bare words (known finding) *)
Example C11_nan_not_json_refuted :
  render (encode_arg (AFloat "NaN")) = "{""type"":""number"",""value"":NaN}"%string.
Proof. reflexivity. Qed.

Example C11_witness :
  let a := ADict [(u "k", AList [ADateTime (u "2020-01-02T03:04:05+00:00"); ADate (u "2020-01-02");
                                AFn (u "m:f#1") [AInt 1] [(u "x", AFloat "1.5")] [u "a"; u "x"]])] in
  wf_arg a /\ decode_arg 5 (encode_arg a) = Some a /\
  render (encode_arg (ADateTime (u "2020-01-02T03:04:05+00:00"))) = "{""type"":""timestamp"",""value"":""2020-01-02T03:04:05Z""}"%string.
Proof. vm_compute. intuition. Qed.
