(** C12 — whatever was stored stays listable and readable as names and code evolve.
    Statements only (model Codec/QName.v, proofs Codec/QNameProofs.v).
    Admissible: module and function names non-empty without ':' and '#' (dotted identifiers);
    cluster any string without '#'; version ANY string (':' , '#', '::' included). *)
From Coq Require Import List NArith Bool String.
From Memento Require Import Codec.Json Codec.ArgHash Codec.QName Codec.QNameProofs Gen.SourceFacts Gen.FactsC12.
Import ListNotations.
Open Scope N_scope.

Theorem C12_parse_build_cluster : forall c m f v,
  cluster_ok c = true -> name_ok m = true -> name_ok f = true ->
  parse_split (build true (Some c) m f v) = Some (Some c, m, f, Some v).
Proof. exact parse_build_cluster. Qed.
Print Assumptions C12_parse_build_cluster.

Theorem C12_parse_build_default_cluster : forall m f v,
  name_ok m = true -> name_ok f = true ->
  parse_split (build true None m f v) = Some (None, m, f, Some v).
Proof. exact parse_build_default. Qed.
Print Assumptions C12_parse_build_default_cluster.

(** the same, for the pattern and the construction order the source has now *)
Theorem C12_current_source_parse_build : forall c m f v,
  (match c with Some cl => cluster_ok cl = true | None => True end) -> name_ok m = true -> name_ok f = true ->
  parse current_split_pattern (build current_prefix_first c m f v) = Some (c, m, f, Some v).
Proof. exact current_source_parse_build. Qed.
Print Assumptions C12_current_source_parse_build.

(** why the repaired pieces are needed *)
Theorem C12_greedy_version_colon_refuted :
  parse_greedy (build true None [109] [102] [49; 58; 50]) <> Some (None, [109], [102], Some [49; 58; 50]).
Proof. exact greedy_version_colon_refuted. Qed.

Theorem C12_prefix_after_version_refuted :
  parse_split (build false (Some [99]) [109] [102] [58; 58]) <> Some (Some [99], [109], [102], Some [58; 58]).
Proof. exact prefix_after_version_refuted. Qed.

(** the side condition "cluster without '#'" is forced by the format, not by the parser *)
Theorem C12_cluster_hash_ambiguous :
  build true (Some (u "a:b#c")) (u "d") (u "e") (u "f") = build true None (u "a") (u "b") (u "c::d:e#f").
Proof. exact cluster_hash_ambiguous. Qed.

(** reading a stored reference never raises, whatever happened to the function since (edited,
    renamed, removed, moved to another cluster), in a named or the default cluster; an entry
    whose version is current resolves to the local function *)
Theorem C12_resolve_total : forall r c m f v,
  (match c with Some cl => cluster_ok cl = true | None => True end) -> name_ok m = true -> name_ok f = true ->
  resolve true false r (build true c m f v) <> RError.
Proof. exact resolve_total. Qed.
Print Assumptions C12_resolve_total.

Theorem C12_resolve_current_is_local : forall r c m f v,
  (match c with Some cl => cluster_ok cl = true | None => True end) -> name_ok m = true -> name_ok f = true ->
  reg_version m f r = Some v ->
  resolve true false r (build true c m f v) = RLocal (c, m, f, Some v).
Proof. exact resolve_current_is_local. Qed.
Print Assumptions C12_resolve_current_is_local.

Theorem C12_default_cluster_refuted : resolve true true [] (build true None [109] [102] [49]) = RError.
Proof. exact default_cluster_refuted. Qed.

Theorem C12_current_source_external_accepts_default_cluster : ext_allows_default_cluster = Some true.
Proof. exact ext_allows_default_cluster_ok. Qed.

Example C12_witness :
  cluster_ok (u "team:a@x") = true /\ name_ok (u "pkg.mod") = true /\ name_ok (u "Cls.fn") = true /\
  build true (Some (u "team:a@x")) (u "pkg.mod") (u "Cls.fn") (u "1:2#3::4") = u "team:a@x::pkg.mod:Cls.fn#1:2#3::4".
Proof. vm_compute. auto. Qed.
