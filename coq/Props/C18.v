(** C18 — declarative configuration is honoured, ordered, and reproducible from its dump.
    Statements only (model Config/Config.v, proofs Config/ConfigProofs.v). *)
From Coq Require Import List Arith Bool.
From Memento Require Import Config.Config Config.ConfigProofs Gen.SourceFacts Gen.FactsC18.
Import ListNotations.

(** every option given in the configuration has the effect of the same constructor argument *)
Theorem C18_file_equals_args : forall k o, build full k o no_opts = build full k no_opts o.
Proof. exact file_equals_args. Qed.
Print Assumptions C18_file_equals_args.

(** explicit arguments override the file option by option, absent ones fall back to it *)
Theorem C18_args_override : forall k file args,
  let e := build full k file args in
  e_ro e = pick (o_ro args) (o_ro file) false /\
  (k = Filesystem ->
     e_path e = pick (o_path args) (o_path file) 0 /\
     e_meta e = pick (o_meta args) (o_meta file) (e_path e) /\
     e_cache e = pick (o_cache args) (o_cache file) 0).
Proof. exact args_override. Qed.
Print Assumptions C18_args_override.

(** a cluster name resolves to the first repository in priority order that defines it, or to nothing *)
Theorem C18_resolve_first : forall name e c, resolve name e = Some c <->
  exists pre r post, e = pre ++ r :: post /\ Forall (fun r' => lookup name r' = None) pre /\ lookup name r = Some c.
Proof. exact resolve_first. Qed.
Print Assumptions C18_resolve_first.

Theorem C18_resolve_none : forall name e, resolve name e = None <-> Forall (fun r => lookup name r = None) e.
Proof. exact resolve_none. Qed.

(** dump then rebuild: same effective backend settings, and every name resolves to an equivalent cluster *)
Theorem C18_dump_roundtrip : forall k e, reachable_eff k e -> build full k (dump full k e) no_opts = e.
Proof. exact dump_roundtrip. Qed.
Print Assumptions C18_dump_roundtrip.

Theorem C18_env_dump_roundtrip : forall name e, env_ok e -> resolve name (load_env full (dump_env full e)) = resolve name e.
Proof. exact env_dump_roundtrip. Qed.
Print Assumptions C18_env_dump_roundtrip.

(** what fails when an option is not read from the configuration or not dumped ... *)
Theorem C18_cache_not_read_refuted :
  let c := {| reads_cache := false; dumps_meta := true |} in
  let o := {| o_path := None; o_meta := None; o_cache := Some 4; o_ro := None |} in
  build c Filesystem o no_opts <> build c Filesystem no_opts o /\
  build c Filesystem (dump c Filesystem (build c Filesystem no_opts o)) no_opts <> build c Filesystem no_opts o.
Proof. exact cache_not_read_refuted. Qed.

Theorem C18_meta_not_dumped_refuted :
  let c := {| reads_cache := true; dumps_meta := false |} in
  let e := {| e_path := 1; e_meta := 2; e_cache := 0; e_ro := false |} in
  build c Filesystem (dump c Filesystem e) no_opts <> e.
Proof. exact meta_not_dumped_refuted. Qed.

(** ... and the current source reads and dumps them, and searches repositories in order *)
Theorem C18_current_source_reads_cache_option : cfg_reads_cache = Some true.
Proof. exact cfg_reads_cache_ok. Qed.
Theorem C18_current_source_dumps_metadata_path : cfg_dumps_meta = Some true.
Proof. exact cfg_dumps_meta_ok. Qed.
Theorem C18_current_source_first_match : cfg_first_match = Some true.
Proof. exact cfg_first_match_ok. Qed.

Example C18_witness :
  let mk tag := {| c_storage := Filesystem; c_eff := {| e_path := tag; e_meta := tag + 1; e_cache := 4; e_ro := true |}; c_runner := Local |} in
  let e := [[(1, mk 10)]; [(2, mk 20); (1, mk 30)]; [(2, mk 40)]] in
  env_ok e /\ option_map (fun c => e_path (c_eff c)) (resolve 1 e) = Some 10 /\ option_map (fun c => e_path (c_eff c)) (resolve 2 e) = Some 20 /\
  resolve 3 e = None /\ resolve 2 (load_env full (dump_env full e)) = resolve 2 e.
Proof. split; [repeat constructor|]. vm_compute. auto. Qed.
