(** C15 — batch evaluation equals element-wise evaluation, in order. Statements only
    (model Runner/Run.v: [nbatch] = the sub-calls are made as one batch: one bulk look-up first,
    then element by element). *)
From Coq Require Import List Arith Bool.
From Memento Require Import Runner.Run Runner.RunProofs.
Import ListNotations.

(** making the sub-calls as one batch or one after the other is the same computation: same
    outcomes position by position (they enter the sum / the invocation list in order), same
    store afterwards, same bodies executed, same mementos — for any mix of memoized, not yet
    memoized, duplicated and failing elements (no assumption on the store) *)
Theorem C15_batch_eq_elementwise : forall p q, WF p -> same_but_batch p q ->
  forall f s id ctx, id < f -> run p f s id ctx = run q f s id ctx.
Proof. exact batch_eq_elementwise. Qed.
Print Assumptions C15_batch_eq_elementwise.

(** each element's outcome is what an un-memoized call returns, a failure stays in its slot *)
Theorem C15_elements_transparent : forall p, WF p -> forall f s id ctx,
  id < f -> StoreOK p s -> fst (fst (fst (run p f s id ctx))) = value p (S id) id ctx.
Proof. exact transparent. Qed.
Print Assumptions C15_elements_transparent.

(** a distinct element's body runs at most once: after its first evaluation it is served *)
Theorem C15_element_runs_at_most_once : forall p, WF p -> forall f s id ctx,
  id < f -> StoreOK p s ->
  let '(o, s', _, m) := run p f s id ctx in run p f s' id ctx = (o, s', [], m).
Proof. exact second_call_runs_nothing. Qed.
Print Assumptions C15_element_runs_at_most_once.

(** non-vacuity: a batch with a duplicate, a failing and a pre-memoized element *)
Example C15_witness :
  let mk b := table [(1, {| nfn := 1; nfails := false; nbatch := false; nkids := [] |});
                     (2, {| nfn := 1; nfails := true; nbatch := false; nkids := [] |});
                     (3, {| nfn := 1; nfails := false; nbatch := false; nkids := [(1, None)] |});
                     (4, {| nfn := 0; nfails := false; nbatch := b; nkids := [(3, None); (2, None); (3, None); (1, None)] |})] in
  let s0 := snd (fst (fst (run (mk true) 5 [] 1 0))) in
  run (mk true) 5 s0 4 0 = run (mk false) 5 s0 4 0 /\
  fst (fst (fst (run (mk true) 5 s0 4 0))) = Val 13 /\ snd (fst (run (mk true) 5 s0 4 0)) = [(4, 0); (3, 0); (2, 0)].
Proof. vm_compute. repeat split; reflexivity. Qed.
