(** C10 — provenance is exact and independent of what was already memoized. Statements only
    (model Runner/Run.v, proofs Runner/RunProofs.v). A program is any call DAG ([WF]: callees
    have smaller ids), a store is any store consistent with it ([StoreOK]: every entry is what
    an un-memoized execution produces — the empty store is, and every call preserves it). *)
From Coq Require Import List Arith Bool.
From Memento Require Import Runner.Run Runner.RunProofs.
Import ListNotations.

(** the memento recorded for (or found for) a call lists exactly the direct sub-calls in order
    with their keys and exactly the functions invoked transitively beneath it, itself included *)
Theorem C10_provenance_exact : forall p, WF p -> forall f s id ctx,
  id < f -> StoreOK p s -> snd (run p f s id ctx) = spec_entry p (S id) id ctx.
Proof. exact provenance_exact. Qed.
Print Assumptions C10_provenance_exact.

(** whichever sub-calls were computed, found in the store before the run, or found by a batch
    pre-check *)
Theorem C10_provenance_store_independent : forall p, WF p -> forall f s1 s2 id ctx,
  id < f -> StoreOK p s1 -> StoreOK p s2 -> snd (run p f s1 id ctx) = snd (run p f s2 id ctx).
Proof. exact provenance_store_independent. Qed.
Print Assumptions C10_provenance_store_independent.

(** every store reachable by calls is consistent *)
Theorem C10_reachable_stores_consistent : forall p, WF p -> forall f s id ctx,
  id < f -> StoreOK p s -> StoreOK p (snd (fst (fst (run p f s id ctx)))).
Proof. exact run_preserves_storeok. Qed.
Print Assumptions C10_reachable_stores_consistent.

Theorem C10_empty_store_consistent : forall p, StoreOK p [].
Proof. exact storeok_nil. Qed.

(** batch or single: the same memento *)
Theorem C10_batch_same_provenance : forall p q, WF p -> same_but_batch p q ->
  forall f s id ctx, id < f -> run p f s id ctx = run q f s id ctx.
Proof. exact batch_eq_elementwise. Qed.
Print Assumptions C10_batch_same_provenance.

(** non-vacuity: a DAG with a repeated, a batched and a failing sub-call; provenance of the root
    is the same on the empty store and after memoizing two of the sub-calls *)
Example C10_witness :
  let p := table [(1, {| nfn := 1; nfails := false; nbatch := false; nkids := [] |});
                  (2, {| nfn := 2; nfails := true; nbatch := false; nkids := [(1, None)] |});
                  (3, {| nfn := 1; nfails := false; nbatch := true; nkids := [(1, Some 2); (1, Some 2)] |});
                  (4, {| nfn := 0; nfails := false; nbatch := false; nkids := [(2, None); (3, None); (1, None)] |})] in
  let s1 := snd (fst (fst (run p 5 [] 2 0))) in
  let s2 := snd (fst (fst (run p 5 s1 1 2))) in
  snd (run p 5 [] 4 0) = snd (run p 5 s2 4 0) /\
  einv (snd (run p 5 s2 4 0)) = [(2, 0); (3, 0); (1, 0)] /\
  edeps (snd (run p 5 s2 4 0)) = [0; 2; 1] /\
  fst (fst (fst (run p 5 s2 4 0))) = Val 10 /\ snd (fst (run p 5 s2 4 0)) = [(4, 0); (3, 0)].
Proof. vm_compute. repeat split; reflexivity. Qed.
