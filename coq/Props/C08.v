(** C08 — a crash or I/O fault at any point of a write never poisons the filesystem store.
    Statements only (model: Storage/Crash.v, proofs: Storage/CrashProofs.v).
    A history is any list of events (caller, fault): caller F or G (two functions whose results
    serialize to the same bytes) makes a call that either completes ([None]) or whose write is
    cut after [n] primitive file operations, a link file caught mid-write being left empty, cut
    at a directory boundary, or cut elsewhere ([Some (n, t)]). The same states arise from process
    death and from a reported ENOSPC/EFBIG, which the runner swallows. *)
From Coq Require Import List Bool Arith.
From Memento Require Import Storage.Crash Storage.CrashProofs Gen.SourceFacts Gen.FactsCrash.
Import ListNotations.

(** For every configuration whose (finite, computed) reachable set is closed and good: after
    ANY history, of any length, every call by either caller returns the value, raises nothing,
    and the call after it is served from the store (memoization recovered). *)
Theorem C08_crash_safe_all_histories : forall c,
  crash_ok c = true -> forall es, good c (run c es) = true.
Proof. exact crash_safe_all_histories. Qed.
Print Assumptions C08_crash_safe_all_histories.

Theorem C08_good_means : forall c s, good c s = true ->
  forall x, exists ran s1, call c x None s = (Value, ran, s1) /\
            exists s2, call c x None s1 = (Value, false, s2).
Proof. exact good_spelled. Qed.
Print Assumptions C08_good_means.

(** the code as it is now (facts regenerated from /repo on every run) *)
Theorem C08_current_source_crash_safe : forall es, good current_ccfg (run current_ccfg es) = true.
Proof. exact current_source_crash_safe. Qed.
Print Assumptions C08_current_source_crash_safe.

(** the repaired reader is what makes it true: with [exists()] instead of [is_file()] a crash
    between creating and writing the content link poisons the store for BOTH callers *)
Theorem C08_exists_reader_refuted :
  let c := {| rd_is_file := false; obj_first := true; data_first := true; atomic_links := false |} in
  exists es, good c (run c es) = false.
Proof. exists [(F, Some (3, TEmpty))]. vm_compute. reflexivity. Qed.
Print Assumptions C08_exists_reader_refuted.

(** ... and the memento link alone is enough *)
Theorem C08_exists_reader_memento_link_refuted :
  let c := {| rd_is_file := false; obj_first := true; data_first := true; atomic_links := false |} in
  good c (run c [(F, Some (7, TEmpty))]) = false /\ good_for c G (run c [(F, Some (7, TEmpty))]) = true.
Proof. vm_compute. auto. Qed.

(** writing a link before the object it names, or the memento before the data, is unsafe even
    with the repaired reader: a half-written object is then reachable and its decoding error is
    not an IOError *)
Theorem C08_link_before_object_refuted :
  let c := {| rd_is_file := true; obj_first := false; data_first := true; atomic_links := false |} in
  exists es, good c (run c es) = false.
Proof. exists [(F, Some (3, TNone))]. vm_compute. reflexivity. Qed.

Theorem C08_memento_before_data_refuted :
  let c := {| rd_is_file := true; obj_first := true; data_first := false; atomic_links := false |} in
  exists es, good c (run c es) = false.
Proof. exists [(F, Some (5, TNone))]. vm_compute. reflexivity. Qed.

(** atomic link replacement is safe with either reader *)
Theorem C08_atomic_links_safe : forall rd es,
  let c := {| rd_is_file := rd; obj_first := true; data_first := true; atomic_links := true |} in
  good c (run c es) = true.
Proof. intros rd es. apply crash_safe_all_histories. destruct rd; vm_compute; reflexivity. Qed.
Print Assumptions C08_atomic_links_safe.

(** non-vacuity: the reachable set of the repaired configuration is not trivial *)
Example C08_witness :
  let c := {| rd_is_file := true; obj_first := true; data_first := true; atomic_links := false |} in
  length (reach c) = 29 /\ crash_ok c = true /\
  dl (run c [(F, Some (3, TEmpty)); (G, None)]) = LFull OFull.
Proof. vm_compute. auto. Qed.
