(** C04 — argument identity: the memo key is canonical in the bound argument values.
    Statements only (model Codec/Json.v + Codec/ArgHash.v, proofs Codec/ArgHashProofs.v).
    The key is SHA-256 of [preimage eff]; the digest is applied outside the model, so
    "same key" is stated as "same pre-image bytes" (no assumption on SHA-256), and
    "different key" is exact up to SHA-256 collisions. *)
From Coq Require Import List NArith ZArith String Bool Permutation.
From Memento Require Import Codec.Json Codec.ArgHash Codec.ArgHashProofs Codec.ArgHashInj Codec.ArgHashCanon.
Import ListNotations.
Open Scope N_scope.

(** sorting object members is canonical: any two orders of the same members, same bytes — at
    any depth, since [normalize] sorts every object recursively *)
Theorem C04_object_order_irrelevant : forall l l',
  Permutation l l' -> NoDup (map fst l) -> normalize (JObj l) = normalize (JObj l').
Proof. exact normalize_obj_perm. Qed.
Print Assumptions C04_object_order_irrelevant.

(** two effective-kwargs dictionaries that bind equal normalized values to the same parameters
    (as finite maps, whatever their insertion order) have the same pre-image, hence the same key *)
Theorem C04_same_binding_same_key : forall a b,
  NoDup (map fst a) -> NoDup (map fst b) -> kw_equiv a b -> preimage a = preimage b.
Proof. exact preimage_equiv. Qed.
Print Assumptions C04_same_binding_same_key.

(** keyword order is irrelevant, for every signature, partial application and positional split *)
Theorem C04_keyword_order_irrelevant : forall params pkw pargs args kw kw' eff eff',
  NoDup (map fst kw) -> Permutation kw kw' ->
  effective params pkw pargs args kw = Some eff -> effective params pkw pargs args kw' = Some eff' ->
  kw_equiv eff eff' /\ NoDup (map fst eff) /\ NoDup (map fst eff') /\ preimage eff = preimage eff'.
Proof. exact effective_keyword_order. Qed.
Print Assumptions C04_keyword_order_irrelevant.

(** the function body receives exactly the kwargs the key was computed from *)
Theorem C04_body_gets_what_was_hashed : forall params pkw pargs args kw ctx eff,
  effective params pkw pargs args kw = Some eff ->
  body_kwargs params pkw pargs args kw = Some eff /\
  call_preimage params pkw pargs args kw ctx = Some (preimage (with_ctx eff ctx)).
Proof. exact body_gets_what_was_hashed. Qed.
Print Assumptions C04_body_gets_what_was_hashed.

(** non-empty context arguments are a member of the hashed dictionary *)
Theorem C04_context_args_in_key : forall eff ctx,
  ctx <> [] -> kw_lookup (u "_memento_context_args") (with_ctx eff ctx) = Some (ADict ctx).
Proof. exact with_ctx_lookup. Qed.
Print Assumptions C04_context_args_in_key.

(** the key distinguishes types: concrete pre-images (these are computations, i.e. tests of the
    printer, not unbounded claims; the unbounded injectivity statement is C04_injective_partial) *)
Example C04_types_distinguished :
  let p v := preimage [(u "a", v)] in
  p (AInt 1) = "{""a"":1}"%string /\ p (ABool true) = "{""a"":true}"%string /\
  p (AFloat "1.0") = "{""a"":1.0}"%string /\ p (AStr (u "1")) = "{""a"":""1""}"%string /\
  p (ADate (u "2020-01-02")) = "{""a"":{""_mementoType"":""date"",""iso8601"":""2020-01-02""}}"%string /\
  p (ADateTime (u "2020-01-02T00:00:00")) <> p (ADateTime (u "2020-01-02T00:00:00+00:00")).
Proof. vm_compute. repeat split; auto. discriminate. Qed.

(** partial application, positional and keyword passing of one binding: same key (instance) *)
Example C04_presentations_witness :
  let P := [u "a"; u "b"; u "c"] in
  let pre x := option_map preimage x in
  pre (effective P [] [] [AInt 1; AInt 2; AInt 3] []) = pre (effective P [] [AInt 1] [AInt 2] [(u "c", AInt 3)]) /\
  pre (effective P [(u "b", AInt 2)] [] [AInt 1; AInt 3] []) = pre (effective P [] [] [] [(u "c", AInt 3); (u "a", AInt 1); (u "b", AInt 2)]) /\
  pre (effective P [] [] [AInt 1; AInt 2; AInt 3] []) = pre (effective P [(u "b", AInt 2)] [] [AInt 1; AInt 3] []) /\
  effective P [] [] [AInt 1; AInt 2; AInt 3; AInt 4] [] = None.
Proof. vm_compute. auto. Qed.

(** every presentation (positional / keyword / partial) of a call has exactly the key of the
    all-keyword presentation of the binding it produces: for any signature and any presentation
    that binds, passing the resulting binding by keyword gives that same binding back *)
Theorem C04_any_presentation_is_its_all_keyword_presentation : forall params pkw pargs args kw eff,
  effective params pkw pargs args kw = Some eff ->
  NoDup (map fst eff) /\ effective params [] [] [] eff = Some eff.
Proof.
  intros params pkw pargs args kw eff H. split.
  - exact (effective_nodup _ _ _ _ _ _ H).
  - exact (presentation_equals_all_keyword _ _ _ _ _ _ H).
Qed.
Print Assumptions C04_any_presentation_is_its_all_keyword_presentation.

(** positional arguments fixed by partial application are positional arguments of the call, and
    keywords fixed by partial application are keywords of the call (any signature with distinct
    parameter names, any lengths: both sides refuse the same over-long argument lists) *)
Theorem C04_partial_application_is_transparent : forall params pargs args pkw kw,
  NoDup params ->
  effective params [] pargs args kw = effective params [] [] (pargs ++ args) kw /\
  effective params pkw [] [] kw = effective params [] [] [] (pkw ++ kw).
Proof.
  intros params pargs args pkw kw H. split.
  - exact (partial_positionals_are_positionals params pargs args kw H).
  - exact (partial_keywords_are_keywords params pkw kw).
Qed.
Print Assumptions C04_partial_application_is_transparent.

(** the encoding that is hashed distinguishes all normalized values: different values (of any
    type, at any depth), different JSON values. PARTIAL with respect to the property: the last
    step to the key (the text rendering of the JSON value, and SHA-256) is not proved injective;
    it is exercised by the correspondence on the exact pre-image bytes *)
Theorem C04_encoding_injective_partial : forall a b,
  tagfree a = true -> tagfree b = true -> enc a = enc b -> a = b.
Proof. intros a b Ha Hb E. exact (enc_injective a b Ha Hb E). Qed.
Print Assumptions C04_encoding_injective_partial.

(** "if and only if", at the level of the JSON value that is rendered and hashed: two normalized
    values (any type, any depth) have the same normalized JSON value EXACTLY when their canonical
    forms (dictionary members in key order at every depth) coincide — the key forgets the order
    of dictionary members and nothing else; for the effective keyword arguments of two calls:
    same hashed value iff the same canonical values are bound to the same names. PARTIAL as above:
    the text rendering of that JSON value and SHA-256 are outside the theorem *)
Theorem C04_same_hashed_value_iff_same_canonical_value_partial : forall a b,
  tagfree a = true -> tagfree b = true ->
  (normalize (enc a) = normalize (enc b) <-> canon a = canon b).
Proof. exact normalized_encoding_iff_canonical. Qed.
Print Assumptions C04_same_hashed_value_iff_same_canonical_value_partial.

Theorem C04_same_hashed_value_iff_same_binding_partial : forall (eff eff' : kwargs),
  tagfree (ADict eff) = true -> tagfree (ADict eff') = true ->
  (normalize (enc (ADict eff)) = normalize (enc (ADict eff'))
   <-> sort_kv (map (fun kv => (fst kv, canon (snd kv))) eff) = sort_kv (map (fun kv => (fst kv, canon (snd kv))) eff')).
Proof. exact same_hashed_value_iff_same_binding. Qed.
Print Assumptions C04_same_hashed_value_iff_same_binding_partial.

(** the restriction to normalized values is needed: a dictionary spelled like the tagged form
    of a date is encoded (and keyed) like that date. The implementation's normalization turns
    such a dictionary into the date before the body runs (checked by the harness), so the two
    calls do bind equal normalized values *)
Theorem C04_tagged_dictionary_is_the_date_refuted :
  exists a b, a <> b /\ enc a = enc b /\ tagfree a = true /\ tagfree b = false.
Proof. exact enc_tagged_dict_collides. Qed.
Print Assumptions C04_tagged_dictionary_is_the_date_refuted.

(** non-vacuity: a nested value with every constructor is tag-free *)
Example C04_tagfree_witness :
  tagfree (ADict [(u "a", AList [AInt 1; AFloat "1.0"; ABool true; ANone; AStr (u "x")]);
                  (u "d", ADate (u "2020-01-02")); (u "t", ADateTime (u "2020-01-02T00:00:00+00:00"));
                  (u "f", AFn (u "m:f") [AInt 1] [(u "k", ADict [])] [u "p"])]) = true.
Proof. vm_compute. reflexivity. Qed.
