(** C14 — the static dependency closure is exact.
    Statements only (model Version/Rules.v, proofs Version/RulesProofs.v). The enforcement half
    (a call outside the closure is refused) is decided by the correspondence harness: the model
    here fixes which calls are outside. *)
From Coq Require Import List Arith Bool.
From Memento Require Import Version.Rules Version.RulesProofs Gen.SourceFacts Gen.FactsC14.
Import ListNotations.

(** the collected rule set is exactly the set of rules reachable from the function, for every
    program (cycles, self references, any size), whenever the saturation reached its fixpoint
    (a boolean the harness evaluates on every case) *)
Theorem C14_collect_exact : forall p f fuel, closed p (collect p fuel f) = true ->
  forall x, In x (collect p fuel f) <-> Reach p f x.
Proof. exact collect_exact. Qed.
Print Assumptions C14_collect_exact.

(** transitive memento dependencies = memento functions, other than f, reachable in the
    reference graph through memento functions and plain functions of the package scope *)
Theorem C14_transitive_exact : forall p f, (exists e, s_kind (p f) = SMemento e) ->
  forall fuel g, closed p (collect p fuel f) = true ->
  (In g (transitive_mfns (collect p fuel f) f) <-> g <> f /\ (exists e, s_kind (p g) = SMemento e) /\ FReach p f g).
Proof. exact transitive_exact. Qed.
Print Assumptions C14_transitive_exact.

(** direct dependencies = memento functions named in the function's own body *)
Theorem C14_direct_exact : forall p f fuel g, closed p (collect p fuel f) = true ->
  (In g (direct_mfns (collect p fuel f) f) <-> g <> f /\ (exists e, s_kind (p g) = SMemento e) /\ In g (s_refs (p f))).
Proof. exact direct_exact. Qed.
Print Assumptions C14_direct_exact.

(** no rule is collected twice *)
Theorem C14_collect_nodup : forall p f fuel, NoDup (collect p fuel f).
Proof. exact collect_nodup. Qed.
Print Assumptions C14_collect_nodup.

(** the current source validates calls made through modifier clones against the function cloned *)
Theorem C14_current_source_validates_clones : clone_validation = Some true.
Proof. exact clone_validation_ok. Qed.

(** a cyclic program: m0 -> h1 -> m2 -> m0, m2 -> out-of-scope helper 3 -> m4 (not followed) *)
Example C14_witness :
  let mk k refs := {| s_kind := k; s_code := 0; s_defaults := 0; s_refs := refs |} in
  let p := table [(0, mk (SMemento None) [1]); (1, mk (SPlain true) [2]); (2, mk (SMemento None) [0; 3]);
                  (3, mk (SPlain false) [4]); (4, mk (SMemento None) [])] in
  closed p (collect p 8 0) = true /\ transitive_mfns (collect p 8 0) 0 = [2] /\ direct_mfns (collect p 8 0) 0 = []
  /\ transitive_mfns (collect p 8 2) 2 = [0] /\ direct_mfns (collect p 8 2) 2 = [0].
Proof. vm_compute. auto. Qed.
