(** C17 — partitions round-trip key by key and merge as an overlay of their parents.
    Statements only (model Storage/Partition.v, proofs Storage/PartitionProofs.v). *)
From Coq Require Import List ZArith String Bool.
From Memento Require Import Storage.Cache Storage.Partition Storage.PartitionProofs Storage.PartitionStores Gen.SourceFacts Gen.FactsC17.
Import ListNotations.

(** a partition reads back with exactly its key set and, per key, the value returned *)
Theorem C17_partition_roundtrip : forall own k, NoDup (map fst own) ->
  ilookup k (stored true [(own, FromStore)]) = lookup k own.
Proof. exact partition_roundtrip. Qed.
Print Assumptions C17_partition_roundtrip.

(** one merge: own keys win (marked own), parent-only keys remain (marked from the parent) *)
Theorem C17_store_index_lookup : forall parent own x, NoDup (map fst own) ->
  lookup x (store_index parent own)
  = match lookup x own with Some v => Some (v, false) | None => option_map (fun e => (fst e, true)) (lookup x parent) end.
Proof. exact store_index_lookup. Qed.
Print Assumptions C17_store_index_lookup.

(** chains of any length, every parent read back from the store or taken from this process
    (returned by a first call / served from the memory cache) *)
Theorem C17_overlay_law : forall chain, chain_ok chain -> forall k,
  ilookup k (stored true chain) = overlay (map fst chain) k.
Proof. exact overlay_law. Qed.
Print Assumptions C17_overlay_law.

Theorem C17_own_flag : forall parent own x v, NoDup (map fst own) ->
  (lookup x (store_index parent own) = Some (v, false) <-> lookup x own = Some v).
Proof. exact own_flag. Qed.

(** why the full merged index must be remembered by an in-process parent, and the source does *)
Theorem C17_own_only_output_keys_refuted :
  let chain := [([("c", 3)], InProcess); ([("b", 2)], InProcess); ([("a", 1)], FromStore)]%string%Z in
  ilookup "a"%string (stored false chain) = None /\ overlay (map fst chain) "a"%string = Some 1%Z /\
  ilookup "a"%string (stored true chain) = Some 1%Z.
Proof. exact own_only_output_keys_refuted. Qed.

Theorem C17_current_source_remembers_full_index : partition_parent_full_index = Some true.
Proof. exact partition_parent_full_index_ok. Qed.

Theorem C17_current_source_accepts_inprocess_parents : partition_inprocess_parent = Some true.
Proof. exact partition_inprocess_parent_ok. Qed.

(** a stored partition handed on unchanged by another memento function: its new copy reads the same *)
Theorem C17_relay_lookup : forall t k, NoDup (map fst t) -> ilookup k (relay_index true t) = ilookup k t.
Proof. exact relay_lookup. Qed.
Print Assumptions C17_relay_lookup.

Theorem C17_relay_of_stored_chain : forall chain k, ilookup k (relay_index true (stored true chain)) = ilookup k (stored true chain).
Proof. exact relay_of_stored_chain. Qed.

Theorem C17_relay_drops_inherited_refuted :
  let t := stored true [([("c", 3)], FromStore); ([("a", 1)], FromStore)]%string%Z in
  ilookup "a"%string t = Some 1%Z /\ ilookup "a"%string (relay_index false t) = None /\ ilookup "a"%string (relay_index true t) = Some 1%Z.
Proof. exact relay_drops_inherited_refuted. Qed.

Theorem C17_current_source_relay_keeps_inherited : partition_relay_keeps_inherited = Some true.
Proof. exact partition_relay_keeps_inherited_ok. Qed.

(** merge parents kept in OTHER stores (functions of different clusters): every link is stored in
    the store of the function that made it. If inherited entries the target store does not hold are
    stored there by value, every key of every stored link — parent-only keys included — can be loaded
    from the link's own store, for chains of any length over any assignment of links to stores; the
    index itself is the one of the single-store model (so the overlay theorems above apply) *)
Theorem C17_cross_store_chain_loadable : forall own s rest,
  let '(st, t) := stored_in true ((own, s) :: rest) in loadable st s t = true.
Proof. exact cross_store_chain_loadable. Qed.
Print Assumptions C17_cross_store_chain_loadable.

Theorem C17_cross_store_index_is_single_store_index : forall copy chain,
  snd (stored_in copy chain) = stored true (map (fun l => (fst l, FromStore)) chain).
Proof. exact stored_in_index. Qed.

(** by reference only, a parent-only key of a parent from another store cannot be loaded (what the
    library did before 33486df); within one store references suffice *)
Theorem C17_cross_store_reference_only_refuted :
  exists chain s, let '(st, t) := stored_in false chain in
    hd_error (map snd chain) = Some s /\ loadable st s t = false /\
    loadable (fst (stored_in true chain)) s (snd (stored_in true chain)) = true.
Proof. exact cross_store_reference_only_refuted. Qed.

Theorem C17_same_store_reference_suffices : forall chain s,
  Forall (fun l => snd l = s) chain -> chain <> [] ->
  let '(st, t) := stored_in false chain in loadable st s t = true.
Proof. exact same_store_reference_suffices. Qed.
Print Assumptions C17_same_store_reference_suffices.

Theorem C17_current_source_copies_across_stores : partition_cross_store_copied = Some true.
Proof. exact partition_cross_store_copied_ok. Qed.

Example C17_witness :
  let chain := [([("b", 30); ("d", 40)], InProcess); ([("b", 3); ("c", 4)], FromStore); ([("a", 1); ("b", 2)], FromStore)]%string%Z in
  chain_ok chain /\ map (fun k => ilookup k (stored true chain)) ["a"; "b"; "c"; "d"; "e"]%string = [Some 1; Some 30; Some 4; Some 40; None]%Z
  /\ own_keys (stored true chain) = ["b"; "d"]%string.
Proof. split; [repeat constructor; simpl; intuition discriminate|]. vm_compute. auto. Qed.
